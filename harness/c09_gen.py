"""C09 harness: AST / layout generator, Python mirror of the Coq `render`, canonical serialisation
of the implementation's parse results, Gallina term emitters.

AST (mirrors coq/Model/ParseX86.v):
  operand := ("reg", name) | ("imm", z) | ("id", name) | ("mem", disp, base, index, scale)
             | ("seg", segment, sdisp, base, index, scale)
             | ("star", ("reg", name) | sdisp)                      *%rax  *8  *foo@GOT   (memory_abs)
             written forms whose extras the code drops (see code_view):
             | ("regk", name, mask, zeroing) | ("memk", disp, base, index, scale, mask)
             | ("idr", name, relocation, offset text | None) | ("numlbl", digits, suffix)
             and disp ("idr", name, relocation, offset text | None)
  disp    := None | ("int", z) | ("id", name);  base/index := None | name;  scale in 1,2,4,8
  sdisp   := None | ("num", text as written) | ("id", name, relocation-without-@ | None, offset text | None)
  instruction := (mnemonic, [operand])
Layout (mirrors Model `layout` / `oplay`):
  oplay  := dict(hex, upper, omit1, w_d, w_lp, w_b, w_c1, w_i, w_c2, w_s, w_sg1, w_sg2, w_at, w_pl1, w_pl2)   (w_* = whitespace strings)
           plus k = dict(star, w_st, kpct, wk1..wk7)  (mirror of `klay`)
  layout := dict(lead, gap, ops=[(oplay, w_before_comma, w_after_comma)], trail, comment=None|(slashes, text),
                 prefixes=[(is_data32, blanks)])
"""

WS = " \t\r"
PRINTABLE = "".join(chr(c) for c in range(33, 127))
ALNUM = "0123456789abcdefghijklmnopqrstuvwxyzABCDEFGHIJKLMNOPQRSTUVWXYZ"
ALPHA = ALNUM[10:]
ID_FIRST = ALPHA + "_."
ID_REST = ALNUM + "$_.+-"

GPR = []
for b in "abcd":
    GPR += ["r%sx" % b, "e%sx" % b, "%sx" % b, "%sl" % b, "%sh" % b]
for b in ("bp", "sp", "si", "di"):
    GPR += ["r" + b, "e" + b, b, b + "l"]
for n in range(8, 16):
    GPR += ["r%d" % n, "r%dd" % n, "r%dw" % n, "r%db" % n]
GPR += ["rip", "eip"]
VEC = ["%smm%d" % (p, n) for p in "xyz" for n in range(32)]
MNEMONICS = ["mov", "movq", "movl", "addq", "vaddpd", "vfmadd231pd", "lea", "leaq", "cmp", "jne", "jmp", "call",
             "ret", "nop", "vmovapd", "imul", "shl", "xor", "push", "pop", "vpinsrq", "vextractf128", "prefetcht0",
             "incq", "testb", "cmova", "movzbl", "vgatherdpd", "pshufd", "j", "a1", "x87op", "data1", "data3x"]


# ------------------------------------------------------------------------------------------ generators
def gen_ws(rng, allow_empty=True):
    r = rng.random()
    if allow_empty and r < 0.35:
        return ""
    if r < 0.75:
        return rng.choice([" ", "\t"])
    return "".join(rng.choice(WS if rng.random() < 0.15 else " \t") for _ in range(rng.randint(1, 4)))


def gen_reg(rng):
    r = rng.random()
    if r < 0.5:
        n = rng.choice(GPR)
    elif r < 0.92:
        n = rng.choice(VEC)
    else:
        n = "".join(rng.choice(ALNUM) for _ in range(rng.randint(1, 6)))   # any alphanumeric word is a register name
    if rng.random() < 0.1:
        n = n.upper()
    return n


def gen_int(rng, signed=True):
    r = rng.random()
    if r < 0.3:
        v = rng.randint(0, 16)
    elif r < 0.55:
        v = rng.randint(0, 4096)
    elif r < 0.75:
        v = rng.getrandbits(rng.randint(1, 64))
    elif r < 0.9:
        v = rng.choice([2 ** 31 - 1, 2 ** 31, 2 ** 32 - 1, 2 ** 32, 2 ** 63 - 1, 2 ** 63, 2 ** 64 - 1, 255, 256, 10, 100, 0xabcdef, 0x10, 9, 0])
    else:
        v = rng.getrandbits(64)
    if signed and rng.random() < 0.4:
        v = -v
    return v


def gen_ident(rng):
    r = rng.random()
    if r < 0.3:
        return ".L%d" % rng.randint(0, 999)
    if r < 0.5:
        return rng.choice(["foo", "main", "_start", ".LBB0_3", "__kernel.1", "a", "x", "printf", "table+8", "tab-4",
                           "sym$1", "_Z3fooPdS_", "..B1.4", "L_B", "e", "b", "f", "x0", "A0x1"])
    n = rng.choice(ID_FIRST) + "".join(rng.choice(ID_REST) for _ in range(rng.randint(0, 8)))
    return n


def gen_mem(rng, pos):
    while True:
        has_d, has_b, has_i = rng.random() < 0.55, rng.random() < 0.7, rng.random() < 0.5
        if has_d or has_b or has_i:
            break
    disp = None
    if has_d:
        if (has_b or has_i) and rng.random() < 0.2:
            disp = ("id", gen_ident(rng))
        else:
            disp = ("int", gen_int(rng, signed=(has_b or has_i)))
    base = gen_reg(rng) if has_b else None
    index = gen_reg(rng) if has_i else None
    scale = rng.choice([1, 2, 4, 8]) if has_i else 1
    return ("mem", disp, base, index, scale)


SEGS = ["fs", "gs", "es", "ds", "cs", "ss", "FS", "GS"]
RELOCS = ["TPOFF", "tpoff", "NTPOFF", "DTPOFF", "GOTTPOFF", "GOTPCREL", "PLT", "GOT", "gotoff", "SIZE", "a", "Zz"]


def gen_numtxt(rng):
    """A number exactly as written: [-]digits (leading zeros allowed) or [-]0x hex digits (either case)."""
    r = rng.random()
    if r < 0.15:
        t = rng.choice(["0", "00", "010", "0x0", "0x00ff", "0xFf", "40", "0x28", "8", "16", "0x10", "007"])
    elif r < 0.6:
        v = gen_int(rng, signed=False)
        t = ("0x%x" % v) if rng.random() < 0.5 else "%d" % v
        if t.startswith("0x") and rng.random() < 0.4:
            t = "0x" + t[2:].upper()
    elif r < 0.8:
        t = "".join(rng.choice("0123456789") for _ in range(rng.randint(1, 6)))
    else:
        t = "0x" + "".join(rng.choice("0123456789abcdefABCDEF") for _ in range(rng.randint(1, 8)))
    if rng.random() < 0.3:
        t = "-" + t
    return t


def gen_offtxt(rng):
    t = rng.choice(["8", "0", "16", "4096", "007"]) if rng.random() < 0.6 else "".join(rng.choice("0123456789") for _ in range(rng.randint(1, 5)))
    return ("-" + t) if rng.random() < 0.5 else t


def gen_seg(rng):
    """%seg:disp(base,index,scale) -- every displacement form with every base/index/scale shape."""
    sg = rng.choice(SEGS) if rng.random() < 0.85 else gen_reg(rng)
    has_b, has_i = rng.random() < 0.6, rng.random() < 0.4
    r = rng.random()
    if r < 0.2 and (has_b or has_i):
        d = None
    elif r < 0.65:
        d = ("num", gen_numtxt(rng))
    else:
        rel = rng.choice(RELOCS) if rng.random() < 0.6 else None
        off = gen_offtxt(rng) if (rel is not None and rng.random() < 0.6) else None
        d = ("id", gen_ident(rng), rel, off)
    return ("seg", sg, d, gen_reg(rng) if has_b else None, gen_reg(rng) if has_i else None,
            rng.choice([1, 2, 4, 8]) if has_i else 1)


MASKS = ["k1", "k2", "k7", "k0", "K3", "k", "1", "zmm1"]


def gen_idr(rng):
    rel = rng.choice(RELOCS)
    return (gen_ident(rng), rel, gen_offtxt(rng) if rng.random() < 0.5 else None)


def gen_paren_mem(rng):
    while True:
        m = gen_mem(rng, 1)
        if m[2] is not None or m[3] is not None:
            return m


def gen_operand(rng, pos):
    r = rng.random()
    if r < 0.20:
        return ("reg", gen_reg(rng))
    if r < 0.26:
        return ("regk", gen_reg(rng), rng.choice(MASKS), rng.random() < 0.5)
    if r < 0.40:
        return ("imm", gen_int(rng))
    if r < 0.46:
        return ("id", gen_ident(rng))
    if r < 0.51:
        return ("idr",) + gen_idr(rng)
    if r < 0.55 and pos == 0:
        return ("numlbl", str(rng.randint(0, 99)) if rng.random() < 0.8 else "0" + str(rng.randint(0, 9)), rng.choice("bfbfBF"))
    if r < 0.68:
        return gen_seg(rng)
    if r < 0.76:
        q = rng.random()
        if q < 0.4:
            return ("star", ("reg", gen_reg(rng)))
        if q < 0.65:
            return ("star", ("num", gen_numtxt(rng)))
        rel = rng.choice(RELOCS) if rng.random() < 0.5 else None
        return ("star", ("id", gen_ident(rng), rel, gen_offtxt(rng) if (rel is not None and rng.random() < 0.5) else None))
    if r < 0.82:
        m = gen_paren_mem(rng)
        return ("memk", m[1], m[2], m[3], m[4], rng.choice(MASKS))
    if r < 0.88:
        m = gen_paren_mem(rng)
        return ("mem", ("idr",) + gen_idr(rng), m[2], m[3], m[4])
    return gen_mem(rng, pos)


def gen_mnemonic(rng):
    if rng.random() < 0.8:
        return rng.choice(MNEMONICS)
    while True:
        m = rng.choice(ALPHA) + "".join(rng.choice(ALNUM) for _ in range(rng.randint(0, 9)))
        if not (m.startswith("data16") or m.startswith("data32")):
            return m


def gen_ast(rng):
    n = rng.choice([0, 1, 1, 2, 2, 2, 3, 3, 4, 4])
    return (gen_mnemonic(rng), [gen_operand(rng, i) for i in range(n)])


def gen_oplay(rng):
    return dict(hex=rng.random() < 0.5, upper=rng.random() < 0.4, omit1=rng.random() < 0.6, dollar=rng.random() < 0.5,
                w_d=gen_ws(rng) if rng.random() < 0.2 else "",
                w_lp=gen_ws(rng), w_b=gen_ws(rng), w_c1=gen_ws(rng), w_i=gen_ws(rng), w_c2=gen_ws(rng), w_s=gen_ws(rng),
                w_sg1=gen_ws(rng) if rng.random() < 0.25 else "", w_sg2=gen_ws(rng) if rng.random() < 0.25 else "",
                w_at=gen_ws(rng) if rng.random() < 0.2 else "", w_pl1=gen_ws(rng) if rng.random() < 0.2 else "",
                w_pl2=gen_ws(rng) if rng.random() < 0.2 else "",
                k=dict(star=rng.random() < 0.2, w_st=gen_ws(rng) if rng.random() < 0.2 else "", kpct=rng.random() < 0.8,
                       **{"wk%d" % i: (gen_ws(rng) if rng.random() < 0.2 else "") for i in range(1, 8)}))


def gen_comment_text(rng):
    r = rng.random()
    if r < 0.2:
        return ""
    if r < 0.5:
        return rng.choice([" comment", " LLVM-MCA-BEGIN", "x:", " a # b // c", "\tfoo: bar, baz", " %rax, $5 (,)", ":"])
    return "".join(rng.choice(PRINTABLE + "   \t") for _ in range(rng.randint(1, 20)))


def gen_layout(rng, nops):
    c = None
    if rng.random() < 0.4:
        c = (rng.random() < 0.4, gen_comment_text(rng))
    pre = []
    if rng.random() < 0.08:
        pre = [(rng.random() < 0.4, gen_ws(rng, allow_empty=False)) for _ in range(rng.randint(1, 3))]
    return dict(lead=gen_ws(rng), gap=gen_ws(rng, allow_empty=False),
                ops=[(gen_oplay(rng), gen_ws(rng), gen_ws(rng)) for _ in range(nops)],
                trail=gen_ws(rng), comment=c, prefixes=pre)


# ------------------------------------------------------------------------------------------ render (mirror of Coq)
def render_int(lo, z):
    sign = "-" if z < 0 else ""
    a = abs(z)
    if lo["hex"]:
        h = "%x" % a
        return sign + "0x" + (h.upper() if lo["upper"] else h)
    return sign + "%d" % a


def render_paren(lo, base, index, scale):
    s = "(" + lo["w_lp"]
    if base is not None:
        s += "%" + base + lo["w_b"]
    if index is not None:
        s += "," + lo["w_c1"] + "%" + index + lo["w_i"]
        if not (scale == 1 and lo["omit1"]):
            s += "," + lo["w_c2"] + str(scale) + lo["w_s"]
    return s + ")"


def render_sdisp(lo, d):
    if d is None:
        return ""
    if d[0] == "num":
        return d[1]
    _, n, rel, off = d
    s = n
    if rel is not None:
        s += lo["w_at"] + "@" + rel
        if off is not None:
            s += lo["w_pl1"] + (off if off.startswith("-") else "+" + lo["w_pl2"] + off)
    return s


def render_mask(lo, mask, zero):
    k = lo["k"]
    s = k["wk1"] + "{" + k["wk2"] + (("%" + k["wk3"]) if k["kpct"] else "") + mask + k["wk4"] + "}"
    if zero:
        s += k["wk5"] + "{" + k["wk6"] + "z" + k["wk7"] + "}"
    return s


def render_mem(lo, disp, base, index, scale):
    s = ("*" + lo["k"]["w_st"]) if lo["k"]["star"] else ""
    if disp is not None:
        if disp[0] == "int":
            s += render_int(lo, disp[1])
        elif disp[0] == "id":
            s += disp[1]
        else:
            s += render_sdisp(lo, ("id", disp[1], disp[2], disp[3]))
        s += lo["w_d"]
    return s + render_paren(lo, base, index, scale)


def render_op(first, lo, o):
    k = o[0]
    if k == "reg":
        return "%" + o[1]
    if k == "regk":
        return "%" + o[1] + render_mask(lo, o[2], o[3])
    if k == "memk":
        return render_mem(lo, o[1], o[2], o[3], o[4]) + render_mask(lo, o[5], False)
    if k == "star":
        x = o[1]
        return "*" + lo["k"]["w_st"] + ("%" + x[1] if x[0] == "reg" else render_sdisp(lo, x))
    if k == "idr":
        return ("$" if (lo["dollar"] or not first) else "") + render_sdisp(lo, ("id", o[1], o[2], o[3]))
    if k == "numlbl":
        return o[1] + o[2]
    if k == "seg":
        _, sg, d, base, index, scale = o
        s = "%" + sg + lo["w_sg1"] + ":" + lo["w_sg2"] + render_sdisp(lo, d)
        if base is not None or index is not None:
            s += (lo["w_d"] if d is not None else "") + render_paren(lo, base, index, scale)
        return s
    if k == "imm":
        return "$" + render_int(lo, o[1])
    if k == "id":
        return ("$" if (lo["dollar"] or not first) else "") + o[1]
    _, disp, base, index, scale = o
    if base is None and index is None:
        return render_int(lo, disp[1])
    return render_mem(lo, disp, base, index, scale)


def render_comment(c):
    if c is None:
        return ""
    return ("//" if c[0] else "#") + c[1]


DEFAULT_OPLAY = dict(hex=False, upper=False, omit1=False, dollar=False, w_d="", w_lp="", w_b="", w_c1="", w_i="", w_c2="", w_s="",
                     w_sg1="", w_sg2="", w_at="", w_pl1="", w_pl2="",
                     k=dict(star=False, w_st="", kpct=False, wk1="", wk2="", wk3="", wk4="", wk5="", wk6="", wk7=""))


def render_line(lay, ast):
    m, ops = ast
    s = lay["lead"] + "".join(("data32" if p else "data16") + w for p, w in lay.get("prefixes", [])) + m
    lays = list(lay["ops"])
    for i, o in enumerate(ops):
        lo, wb, wa = lays[i] if i < len(lays) else (DEFAULT_OPLAY, "", "")
        if i == 0:
            s += lay["gap"] + render_op(True, lo, o)
        else:
            s += "," + wa + render_op(False, lo, o)
        s += wb
    return s + lay["trail"] + render_comment(lay["comment"])


# ------------------------------------------------------------------------------------------ canonical strings
def _opt(x):
    return "-" if x is None else x


def canon_sdisp(d):
    if d is None:
        return "-"
    if d[0] == "num":
        return "N(" + d[1] + ")"
    return "L(%s;%s;%s)" % (d[1], _opt(d[2]), _opt(d[3]))


def canon_disp(d):
    if d is None:
        return "-"
    if d[0] == "int":
        return "%d" % d[1]
    if d[0] == "id":
        return "L(" + d[1] + ")"
    return "LR(%s;%s;%s)" % (d[1], d[2], _opt(d[3]))


def code_view(o):
    """What the implementation keeps of a written operand (mirror of Coq code_view)."""
    k = o[0]
    if k == "regk":
        return ("reg", o[1])
    if k == "memk":
        return code_view(("mem", o[1], o[2], o[3], o[4]))
    if k == "mem" and o[1] is not None and o[1][0] == "idr":
        return ("mem", ("id", o[1][1]), o[2], o[3], o[4])
    if k == "idr":
        return ("id", o[1])
    if k == "numlbl":
        return ("id", o[1])
    return o


def code_view_ast(ast):
    return (ast[0], [code_view(o) for o in ast[1]])


def canon_code(ast):
    return canon_instr(code_view_ast(ast))


def lossy_classes(ast):
    """Which kinds of written information the code drops on this line (observations, not violations)."""
    out = set()
    for o in ast[1]:
        if o[0] in ("regk", "memk"):
            out.add("opmask-dropped")
        if o[0] == "idr" or (o[0] in ("mem", "memk") and o[1] is not None and o[1][0] == "idr"):
            out.add("relocation-dropped")
        if o[0] == "numlbl":
            out.add("numeric-label-direction-dropped")
    return out


def canon_op(o):
    k = o[0]
    if k == "reg":
        return "R(" + o[1] + ")"
    if k == "regk":
        return "RK(%s;%s;%s)" % (o[1], o[2], "z" if o[3] else "-")
    if k == "memk":
        return "MK(%s;%s;%s;%d;%s)" % (canon_disp(o[1]), _opt(o[2]), _opt(o[3]), o[4], o[5])
    if k == "idr":
        return "LR(%s;%s;%s)" % (o[1], o[2], _opt(o[3]))
    if k == "numlbl":
        return "NL(%s;%s)" % (o[1], o[2])
    if k == "star":
        x = o[1]
        return "*R(" + x[1] + ")" if x[0] == "reg" else "*" + canon_sdisp(x)
    if k == "imm":
        return "I(%d)" % o[1]
    if k == "id":
        return "L(" + o[1] + ")"
    if k == "seg":
        _, sg, disp, base, index, scale = o
        return "S(%s;%s;%s;%s;%d)" % (sg, canon_sdisp(disp), _opt(base), _opt(index), scale)
    _, disp, base, index, scale = o
    return "M(%s;%s;%s;%d)" % (canon_disp(disp), _opt(base), _opt(index), scale)


def canon_instr(ast):
    return "I:" + ast[0] + ":" + ",".join(canon_op(o) for o in ast[1])


def impl_operand(o):
    """Operand object of the implementation -> AST tuple (or ('other', repr))."""
    from osaca.parser.register import RegisterOperand
    from osaca.parser.memory import MemoryOperand
    from osaca.parser.immediate import ImmediateOperand
    from osaca.parser.identifier import IdentifierOperand
    if isinstance(o, RegisterOperand):
        extra = [o.prefix, o.shape, o.lanes, o.index, o.predication]
        if any(x is not None for x in extra) or o.mask or o.zeroing:
            return ("other", "register with extras %r" % (o,))
        return ("reg", o.name)
    if isinstance(o, ImmediateOperand):
        if not isinstance(o.value, int) or isinstance(o.value, bool) or o.identifier is not None:
            return ("other", "immediate %r" % (o,))
        return ("imm", o.value)
    if isinstance(o, IdentifierOperand):
        if o.offset is not None or o.relocation is not None:
            return ("other", "identifier with extras %r" % (o,))
        return ("id", o.name)
    if isinstance(o, MemoryOperand) and o.segment_ext is not None:
        return impl_segment(o)
    if isinstance(o, MemoryOperand) and isinstance(o.offset, list):
        return impl_star(o)
    if isinstance(o, MemoryOperand):
        if o.segment_ext is not None or o.mask is not None or o.pre_indexed or o.post_indexed or o.indexed_val is not None:
            return ("other", "memory with extras %r" % (o,))
        d = o.offset
        if d is None:
            disp = None
        elif isinstance(d, ImmediateOperand) and isinstance(d.value, int):
            disp = ("int", d.value)
        elif isinstance(d, IdentifierOperand):
            disp = ("id", d.name)
        else:
            return ("other", "memory offset %r" % (d,))
        regs = []
        for r in (o.base, o.index):
            if r is None:
                regs.append(None)
            elif isinstance(r, RegisterOperand) and r.prefix is None:
                regs.append(r.name)
            else:
                return ("other", "memory register %r" % (r,))
        if not isinstance(o.scale, int):
            return ("other", "scale %r" % (o.scale,))
        return ("mem", disp, regs[0], regs[1], o.scale)
    return ("other", repr(o))


def _plain_reg_dict(d):
    """{'name': n} as left by pyparsing inside segment_ext -> n; anything else -> None"""
    if isinstance(d, dict) and set(d.keys()) == {"name"} and isinstance(d["name"], str):
        return d["name"]
    return None


def _impl_sdisp(off):
    """{'value': text} | {'identifier': {...}} as left by pyparsing -> sdisp or None"""
    if not isinstance(off, dict):
        return None
    if set(off.keys()) == {"value"} and isinstance(off["value"], str):
        return ("num", off["value"])
    if set(off.keys()) == {"identifier"} and isinstance(off["identifier"], dict):
        ident = off["identifier"]
        if not set(ident.keys()) <= {"name", "relocation", "value", "offset"} or not isinstance(ident.get("name"), str):
            return None
        rel = ident.get("relocation")
        if rel is not None:
            if not (isinstance(rel, str) and rel.startswith("@")):
                return None
            rel = rel[1:]
        val = ident.get("value")
        if ("value" in ident) != ("offset" in ident) or (val is not None and ident["offset"] != [val]):
            return None
        return ("id", ident["name"], rel, val)
    return None


def impl_star(o):
    """memory_abs (`*%rax`, `*8`, `*foo@GOT`): MemoryOperand(offset=[<raw pyparsing dict>]) -> ("star", ...)"""
    bad = ("other", "indirect operand %r" % (o,))
    if o.base is not None or o.index is not None or o.scale != 1 or o.mask is not None or o.pre_indexed or o.post_indexed \
            or o.indexed_val is not None or len(o.offset) != 1:
        return bad
    x = o.offset[0]
    n = _plain_reg_dict(x)
    if n is not None:
        return ("star", ("reg", n))
    d = _impl_sdisp(x)
    return bad if d is None else ("star", d)


def impl_segment(o):
    """MemoryOperand(base=Register(<segment>), offset=None, index=None, scale=1, segment_ext=[ext]) with
       ext = '<number as written>' | {'offset': {'value': text} | {'identifier': {...}}, 'base': {'name':..},
       'index': {'name':..}, 'scale': 'k'}  ->  ("seg", segment, sdisp, base, index, scale) or ("other", why)."""
    from osaca.parser.register import RegisterOperand
    bad = ("other", "segment reference %r" % (o,))
    sg = o.base
    if not isinstance(sg, RegisterOperand) or sg.prefix is not None or sg.mask or sg.zeroing:
        return bad
    if o.offset is not None or o.index is not None or o.scale != 1 or o.mask is not None or o.pre_indexed or o.post_indexed \
            or o.indexed_val is not None:
        return bad
    ext = o.segment_ext
    if not isinstance(ext, list) or len(ext) != 1:
        return bad
    ext = ext[0]
    if isinstance(ext, str):
        return ("seg", sg.name, ("num", ext), None, None, 1)
    if not isinstance(ext, dict) or not ext or not set(ext.keys()) <= {"offset", "base", "index", "scale"}:
        return bad
    disp = None
    if "offset" in ext:
        disp = _impl_sdisp(ext["offset"])
        if disp is None:
            return bad
    regs = []
    for k in ("base", "index"):
        if k in ext:
            n = _plain_reg_dict(ext[k])
            if n is None:
                return bad
            regs.append(n)
        else:
            regs.append(None)
    scale = 1
    if "scale" in ext:
        if ext["scale"] not in ("1", "2", "4", "8"):
            return bad
        scale = int(ext["scale"])
    return ("seg", sg.name, disp, regs[0], regs[1], scale)


def impl_line(parser, line, number=None):
    """Canonical string of what the implementation makes of one line:
       'E' (ValueError) | 'X:<exc>' (other exception) | 'C' | 'L:<name>' | 'D:<name>' | 'I:...' | 'K:<kinds>' (not exactly one kind)"""
    try:
        r = parser.parse_line(line, number)
    except ValueError:
        return "E", None
    except Exception as e:  # noqa
        return "X:" + type(e).__name__, None
    kinds = []
    if r.label is not None:
        kinds.append("L")
    if r.directive is not None:
        kinds.append("D")
    if r.mnemonic is not None:
        kinds.append("I")
    if not kinds and r.comment is not None:
        kinds.append("C")
    if len(kinds) != 1:
        return "K:" + "".join(kinds), r
    k = kinds[0]
    if k == "C":
        return "C", r
    if k == "L":
        return "L:" + str(r.label), r
    if k == "D":
        return "D:" + str(r.directive.name), r
    ops = [impl_operand(o) for o in r.operands]
    if any(o[0] == "other" for o in ops):
        return "I?:" + r.mnemonic + ":" + ";".join(o[1] for o in ops if o[0] == "other"), r
    return canon_instr((r.mnemonic, ops)), r


# ------------------------------------------------------------------------------------------ Gallina emitters
def cq_str(s):
    """Gallina string literal for a Latin-1 Python string (each char one byte); non-printing bytes
    are emitted with String (ascii_of_nat n)."""
    parts, cur = [], ""
    for ch in s:
        c = ord(ch)
        assert c < 256
        if 32 <= c < 127:
            cur += '""' if ch == '"' else ch
        else:
            if cur:
                parts.append('"' + cur + '"')
                cur = ""
            parts.append("(c %d)" % c)
    if cur or not parts:
        parts.append('"' + cur + '"')
    if len(parts) == 1 and parts[0].startswith('"'):
        return parts[0]
    return "(" + " ++ ".join(parts) + ")"


def cq_bool(b):
    return "true" if b else "false"


def cq_z(z):
    return "(%d)%%Z" % z


def cq_opt_str(s):
    return "None" if s is None else "(Some %s)" % cq_str(s)


def cq_sdisp(disp):
    if disp is None:
        return "SNone"
    if disp[0] == "num":
        return "(SNum %s)" % cq_str(disp[1])
    return "(SId %s %s %s)" % (cq_str(disp[1]), cq_opt_str(disp[2]), cq_opt_str(disp[3]))


def cq_disp(disp):
    if disp is None:
        return "DNone"
    if disp[0] == "int":
        return "(DInt %s)" % cq_z(disp[1])
    if disp[0] == "id":
        return "(DId %s)" % cq_str(disp[1])
    return "(DIdR %s %s %s)" % (cq_str(disp[1]), cq_str(disp[2]), cq_opt_str(disp[3]))


def cq_operand(o):
    k = o[0]
    if k == "reg":
        return "(OReg %s)" % cq_str(o[1])
    if k == "regk":
        return "(ORegK %s %s %s)" % (cq_str(o[1]), cq_str(o[2]), cq_bool(o[3]))
    if k == "memk":
        return "(OMemK %s %s %s %s %s)" % (cq_disp(o[1]), cq_opt_str(o[2]), cq_opt_str(o[3]), cq_z(o[4]), cq_str(o[5]))
    if k == "idr":
        return "(OIdR %s %s %s)" % (cq_str(o[1]), cq_str(o[2]), cq_opt_str(o[3]))
    if k == "numlbl":
        return "(ONumLbl %s (ascii_of_nat %d))" % (cq_str(o[1]), ord(o[2]))
    if k == "star":
        x = o[1]
        return "(OStar (StReg %s))" % cq_str(x[1]) if x[0] == "reg" else "(OStar (StDisp %s))" % cq_sdisp(x)
    if k == "imm":
        return "(OImm %s)" % cq_z(o[1])
    if k == "id":
        return "(OId %s)" % cq_str(o[1])
    if k == "seg":
        _, sg, disp, base, index, scale = o
        return "(OSeg %s %s %s %s %s)" % (cq_str(sg), cq_sdisp(disp), cq_opt_str(base), cq_opt_str(index), cq_z(scale))
    _, disp, base, index, scale = o
    return "(OMem %s %s %s %s)" % (cq_disp(disp), cq_opt_str(base), cq_opt_str(index), cq_z(scale))


def cq_oplay(lo):
    k = lo["k"]
    kl = "(mkKlay %s %s %s %s %s %s %s %s %s %s)" % (cq_bool(k["star"]), cq_str(k["w_st"]), cq_bool(k["kpct"]),
                                                    cq_str(k["wk1"]), cq_str(k["wk2"]), cq_str(k["wk3"]), cq_str(k["wk4"]),
                                                    cq_str(k["wk5"]), cq_str(k["wk6"]), cq_str(k["wk7"]))
    return "(mkOplay %s %s %s %s %s %s %s %s %s %s %s %s %s %s %s %s %s)" % (
        cq_bool(lo["hex"]), cq_bool(lo["upper"]), cq_bool(lo["omit1"]), cq_bool(lo["dollar"]), cq_str(lo["w_d"]), cq_str(lo["w_lp"]),
        cq_str(lo["w_b"]), cq_str(lo["w_c1"]), cq_str(lo["w_i"]), cq_str(lo["w_c2"]), cq_str(lo["w_s"]),
        cq_str(lo["w_sg1"]), cq_str(lo["w_sg2"]), cq_str(lo["w_at"]), cq_str(lo["w_pl1"]), cq_str(lo["w_pl2"]), kl)


def cq_layout(lay):
    ops = "[" + "; ".join("(%s, %s, %s)" % (cq_oplay(lo), cq_str(wb), cq_str(wa)) for lo, wb, wa in lay["ops"]) + "]"
    c = "None" if lay["comment"] is None else "(Some (%s, %s))" % (cq_bool(lay["comment"][0]), cq_str(lay["comment"][1]))
    pre = "[" + "; ".join("(%s, %s)" % (cq_bool(p), cq_str(w)) for p, w in lay.get("prefixes", [])) + "]"
    return "(mkLayout %s %s %s %s %s %s)" % (cq_str(lay["lead"]), cq_str(lay["gap"]), ops, cq_str(lay["trail"]), c, pre)


def cq_ast(ast):
    return "(%s, [%s])" % (cq_str(ast[0]), "; ".join(cq_operand(o) for o in ast[1]))
