"""C09 harness: AST / layout generator, Python mirror of the Coq `render`, canonical serialisation
of the implementation's parse results, Gallina term emitters.

AST (mirrors coq/Model/ParseX86.v):
  operand := ("reg", name) | ("imm", z) | ("id", name) | ("mem", disp, base, index, scale)
  disp    := None | ("int", z) | ("id", name);  base/index := None | name;  scale in 1,2,4,8
  instruction := (mnemonic, [operand])
Layout (mirrors Model `layout` / `oplay`):
  oplay  := dict(hex, upper, omit1, w_d, w_lp, w_b, w_c1, w_i, w_c2, w_s)   (w_* = whitespace strings)
  layout := dict(lead, gap, ops=[(oplay, w_before_comma, w_after_comma)], trail, comment=None|(slashes, text))
"""

WS = " \t\r"
PRINTABLE = "".join(chr(c) for c in range(33, 127))
ALNUM = "0123456789abcdefghijklmnopqrstuvwxyzABCDEFGHIJKLMNOPQRSTUVWXYZ"
ALPHA = ALNUM[10:]
ID_FIRST = ALPHA + "_."
ID_REST = ALNUM + "$_.+-"

GPR = []
for b in "abcd":
    GPR += ["r%sx" % b, "e%sx" % b, "%sx" % b, "%sl" % b, "%sh" % b]
for b in ("bp", "sp", "si", "di"):
    GPR += ["r" + b, "e" + b, b, b + "l"]
for n in range(8, 16):
    GPR += ["r%d" % n, "r%dd" % n, "r%dw" % n, "r%db" % n]
GPR += ["rip", "eip"]
VEC = ["%smm%d" % (p, n) for p in "xyz" for n in range(32)]
MNEMONICS = ["mov", "movq", "movl", "addq", "vaddpd", "vfmadd231pd", "lea", "leaq", "cmp", "jne", "jmp", "call",
             "ret", "nop", "vmovapd", "imul", "shl", "xor", "push", "pop", "vpinsrq", "vextractf128", "prefetcht0",
             "incq", "testb", "cmova", "movzbl", "vgatherdpd", "pshufd", "j", "a1", "x87op", "data1", "data3x"]


# ------------------------------------------------------------------------------------------ generators
def gen_ws(rng, allow_empty=True):
    r = rng.random()
    if allow_empty and r < 0.35:
        return ""
    if r < 0.75:
        return rng.choice([" ", "\t"])
    return "".join(rng.choice(WS if rng.random() < 0.15 else " \t") for _ in range(rng.randint(1, 4)))


def gen_reg(rng):
    r = rng.random()
    if r < 0.5:
        n = rng.choice(GPR)
    elif r < 0.92:
        n = rng.choice(VEC)
    else:
        n = "".join(rng.choice(ALNUM) for _ in range(rng.randint(1, 6)))   # any alphanumeric word is a register name
    if rng.random() < 0.1:
        n = n.upper()
    return n


def gen_int(rng, signed=True):
    r = rng.random()
    if r < 0.3:
        v = rng.randint(0, 16)
    elif r < 0.55:
        v = rng.randint(0, 4096)
    elif r < 0.75:
        v = rng.getrandbits(rng.randint(1, 64))
    elif r < 0.9:
        v = rng.choice([2 ** 31 - 1, 2 ** 31, 2 ** 32 - 1, 2 ** 32, 2 ** 63 - 1, 2 ** 63, 2 ** 64 - 1, 255, 256, 10, 100, 0xabcdef, 0x10, 9, 0])
    else:
        v = rng.getrandbits(64)
    if signed and rng.random() < 0.4:
        v = -v
    return v


def gen_ident(rng):
    r = rng.random()
    if r < 0.3:
        return ".L%d" % rng.randint(0, 999)
    if r < 0.5:
        return rng.choice(["foo", "main", "_start", ".LBB0_3", "__kernel.1", "a", "x", "printf", "table+8", "tab-4",
                           "sym$1", "_Z3fooPdS_", "..B1.4", "L_B", "e", "b", "f", "x0", "A0x1"])
    n = rng.choice(ID_FIRST) + "".join(rng.choice(ID_REST) for _ in range(rng.randint(0, 8)))
    return n


def gen_mem(rng, pos):
    while True:
        has_d, has_b, has_i = rng.random() < 0.55, rng.random() < 0.7, rng.random() < 0.5
        if has_d or has_b or has_i:
            break
    disp = None
    if has_d:
        if (has_b or has_i) and rng.random() < 0.2:
            disp = ("id", gen_ident(rng))
        else:
            disp = ("int", gen_int(rng, signed=(has_b or has_i)))
    base = gen_reg(rng) if has_b else None
    index = gen_reg(rng) if has_i else None
    scale = rng.choice([1, 2, 4, 8]) if has_i else 1
    return ("mem", disp, base, index, scale)


def gen_operand(rng, pos):
    r = rng.random()
    if r < 0.3:
        return ("reg", gen_reg(rng))
    if r < 0.5:
        return ("imm", gen_int(rng))
    if r < 0.58:
        return ("id", gen_ident(rng))
    return gen_mem(rng, pos)


def gen_mnemonic(rng):
    if rng.random() < 0.8:
        return rng.choice(MNEMONICS)
    while True:
        m = rng.choice(ALPHA) + "".join(rng.choice(ALNUM) for _ in range(rng.randint(0, 9)))
        if not (m.startswith("data16") or m.startswith("data32")):
            return m


def gen_ast(rng):
    n = rng.choice([0, 1, 1, 2, 2, 2, 3, 3, 4, 4])
    return (gen_mnemonic(rng), [gen_operand(rng, i) for i in range(n)])


def gen_oplay(rng):
    return dict(hex=rng.random() < 0.5, upper=rng.random() < 0.4, omit1=rng.random() < 0.6, dollar=rng.random() < 0.5,
                w_d=gen_ws(rng) if rng.random() < 0.2 else "",
                w_lp=gen_ws(rng), w_b=gen_ws(rng), w_c1=gen_ws(rng), w_i=gen_ws(rng), w_c2=gen_ws(rng), w_s=gen_ws(rng))


def gen_comment_text(rng):
    r = rng.random()
    if r < 0.2:
        return ""
    if r < 0.5:
        return rng.choice([" comment", " LLVM-MCA-BEGIN", "x:", " a # b // c", "\tfoo: bar, baz", " %rax, $5 (,)", ":"])
    return "".join(rng.choice(PRINTABLE + "   \t") for _ in range(rng.randint(1, 20)))


def gen_layout(rng, nops):
    c = None
    if rng.random() < 0.4:
        c = (rng.random() < 0.4, gen_comment_text(rng))
    return dict(lead=gen_ws(rng), gap=gen_ws(rng, allow_empty=False),
                ops=[(gen_oplay(rng), gen_ws(rng), gen_ws(rng)) for _ in range(nops)],
                trail=gen_ws(rng), comment=c)


# ------------------------------------------------------------------------------------------ render (mirror of Coq)
def render_int(lo, z):
    sign = "-" if z < 0 else ""
    a = abs(z)
    if lo["hex"]:
        h = "%x" % a
        return sign + "0x" + (h.upper() if lo["upper"] else h)
    return sign + "%d" % a


def render_op(first, lo, o):
    k = o[0]
    if k == "reg":
        return "%" + o[1]
    if k == "imm":
        return "$" + render_int(lo, o[1])
    if k == "id":
        return ("$" if (lo["dollar"] or not first) else "") + o[1]
    _, disp, base, index, scale = o
    d = "" if disp is None else (render_int(lo, disp[1]) if disp[0] == "int" else disp[1])
    if base is None and index is None:
        return d
    s = d + (lo["w_d"] if disp is not None else "") + "(" + lo["w_lp"]
    if base is not None:
        s += "%" + base + lo["w_b"]
    if index is not None:
        s += "," + lo["w_c1"] + "%" + index + lo["w_i"]
        if not (scale == 1 and lo["omit1"]):
            s += "," + lo["w_c2"] + str(scale) + lo["w_s"]
    return s + ")"


def render_comment(c):
    if c is None:
        return ""
    return ("//" if c[0] else "#") + c[1]


DEFAULT_OPLAY = dict(hex=False, upper=False, omit1=False, dollar=False, w_d="", w_lp="", w_b="", w_c1="", w_i="", w_c2="", w_s="")


def render_line(lay, ast):
    m, ops = ast
    s = lay["lead"] + m
    lays = list(lay["ops"])
    for i, o in enumerate(ops):
        lo, wb, wa = lays[i] if i < len(lays) else (DEFAULT_OPLAY, "", "")
        if i == 0:
            s += lay["gap"] + render_op(True, lo, o)
        else:
            s += "," + wa + render_op(False, lo, o)
        s += wb
    return s + lay["trail"] + render_comment(lay["comment"])


# ------------------------------------------------------------------------------------------ canonical strings
def canon_op(o):
    k = o[0]
    if k == "reg":
        return "R(" + o[1] + ")"
    if k == "imm":
        return "I(%d)" % o[1]
    if k == "id":
        return "L(" + o[1] + ")"
    _, disp, base, index, scale = o
    d = "-" if disp is None else ("%d" % disp[1] if disp[0] == "int" else "L(" + disp[1] + ")")
    return "M(%s;%s;%s;%d)" % (d, "-" if base is None else base, "-" if index is None else index, scale)


def canon_instr(ast):
    return "I:" + ast[0] + ":" + ",".join(canon_op(o) for o in ast[1])


def impl_operand(o):
    """Operand object of the implementation -> AST tuple (or ('other', repr))."""
    from osaca.parser.register import RegisterOperand
    from osaca.parser.memory import MemoryOperand
    from osaca.parser.immediate import ImmediateOperand
    from osaca.parser.identifier import IdentifierOperand
    if isinstance(o, RegisterOperand):
        extra = [o.prefix, o.shape, o.lanes, o.index, o.predication]
        if any(x is not None for x in extra) or o.mask or o.zeroing:
            return ("other", "register with extras %r" % (o,))
        return ("reg", o.name)
    if isinstance(o, ImmediateOperand):
        if not isinstance(o.value, int) or isinstance(o.value, bool) or o.identifier is not None:
            return ("other", "immediate %r" % (o,))
        return ("imm", o.value)
    if isinstance(o, IdentifierOperand):
        if o.offset is not None or o.relocation is not None:
            return ("other", "identifier with extras %r" % (o,))
        return ("id", o.name)
    if isinstance(o, MemoryOperand):
        if o.segment_ext is not None or o.mask is not None or o.pre_indexed or o.post_indexed or o.indexed_val is not None:
            return ("other", "memory with extras %r" % (o,))
        d = o.offset
        if d is None:
            disp = None
        elif isinstance(d, ImmediateOperand) and isinstance(d.value, int):
            disp = ("int", d.value)
        elif isinstance(d, IdentifierOperand):
            disp = ("id", d.name)
        else:
            return ("other", "memory offset %r" % (d,))
        regs = []
        for r in (o.base, o.index):
            if r is None:
                regs.append(None)
            elif isinstance(r, RegisterOperand) and r.prefix is None:
                regs.append(r.name)
            else:
                return ("other", "memory register %r" % (r,))
        if not isinstance(o.scale, int):
            return ("other", "scale %r" % (o.scale,))
        return ("mem", disp, regs[0], regs[1], o.scale)
    return ("other", repr(o))


def impl_line(parser, line, number=None):
    """Canonical string of what the implementation makes of one line:
       'E' (ValueError) | 'X:<exc>' (other exception) | 'C' | 'L:<name>' | 'D:<name>' | 'I:...' | 'K:<kinds>' (not exactly one kind)"""
    try:
        r = parser.parse_line(line, number)
    except ValueError:
        return "E", None
    except Exception as e:  # noqa
        return "X:" + type(e).__name__, None
    kinds = []
    if r.label is not None:
        kinds.append("L")
    if r.directive is not None:
        kinds.append("D")
    if r.mnemonic is not None:
        kinds.append("I")
    if not kinds and r.comment is not None:
        kinds.append("C")
    if len(kinds) != 1:
        return "K:" + "".join(kinds), r
    k = kinds[0]
    if k == "C":
        return "C", r
    if k == "L":
        return "L:" + str(r.label), r
    if k == "D":
        return "D:" + str(r.directive.name), r
    ops = [impl_operand(o) for o in r.operands]
    if any(o[0] == "other" for o in ops):
        return "I?:" + r.mnemonic + ":" + ";".join(o[1] for o in ops if o[0] == "other"), r
    return canon_instr((r.mnemonic, ops)), r


# ------------------------------------------------------------------------------------------ Gallina emitters
def cq_str(s):
    """Gallina string literal for a Latin-1 Python string (each char one byte); non-printing bytes
    are emitted with String (ascii_of_nat n)."""
    parts, cur = [], ""
    for ch in s:
        c = ord(ch)
        assert c < 256
        if 32 <= c < 127:
            cur += '""' if ch == '"' else ch
        else:
            if cur:
                parts.append('"' + cur + '"')
                cur = ""
            parts.append("(c %d)" % c)
    if cur or not parts:
        parts.append('"' + cur + '"')
    if len(parts) == 1 and parts[0].startswith('"'):
        return parts[0]
    return "(" + " ++ ".join(parts) + ")"


def cq_bool(b):
    return "true" if b else "false"


def cq_z(z):
    return "(%d)%%Z" % z


def cq_opt_str(s):
    return "None" if s is None else "(Some %s)" % cq_str(s)


def cq_operand(o):
    k = o[0]
    if k == "reg":
        return "(OReg %s)" % cq_str(o[1])
    if k == "imm":
        return "(OImm %s)" % cq_z(o[1])
    if k == "id":
        return "(OId %s)" % cq_str(o[1])
    _, disp, base, index, scale = o
    d = "DNone" if disp is None else ("(DInt %s)" % cq_z(disp[1]) if disp[0] == "int" else "(DId %s)" % cq_str(disp[1]))
    return "(OMem %s %s %s %s)" % (d, cq_opt_str(base), cq_opt_str(index), cq_z(scale))


def cq_oplay(lo):
    return "(mkOplay %s %s %s %s %s %s %s %s %s %s %s)" % (
        cq_bool(lo["hex"]), cq_bool(lo["upper"]), cq_bool(lo["omit1"]), cq_bool(lo["dollar"]), cq_str(lo["w_d"]), cq_str(lo["w_lp"]),
        cq_str(lo["w_b"]), cq_str(lo["w_c1"]), cq_str(lo["w_i"]), cq_str(lo["w_c2"]), cq_str(lo["w_s"]))


def cq_layout(lay):
    ops = "[" + "; ".join("(%s, %s, %s)" % (cq_oplay(lo), cq_str(wb), cq_str(wa)) for lo, wb, wa in lay["ops"]) + "]"
    c = "None" if lay["comment"] is None else "(Some (%s, %s))" % (cq_bool(lay["comment"][0]), cq_str(lay["comment"][1]))
    return "(mkLayout %s %s %s %s %s)" % (cq_str(lay["lead"]), cq_str(lay["gap"]), ops, cq_str(lay["trail"]), c)


def cq_ast(ast):
    return "(%s, [%s])" % (cq_str(ast[0]), "; ".join(cq_operand(o) for o in ast[1]))
