"""C01, translation tie (T): regenerate -> compile -> obligations -> cross-check of the translator.

  1. tools/gen_c01.py translates the CURRENT source of MachineModel.average_port_pressure,
     ArchSemantics.get_throughput_sum, ._to_list, ._itemsetter into coq/Gen/PressureGen.v (fail closed);
  2. coq/PropsGen/C01gen.v re-proves, against that text, that the regenerated definitions are the hand model's
     (Model/Pressure.v) for every NumOps instance and every input, and restates the C01 theorems for them;
  3. the regenerated Gallina, instantiated with binary64, is evaluated on random inputs and compared bit for bit
     (values and exception classes) with the Python functions themselves -- this checks the translator.

One call from checks/c01.py: c01_gen.run(ctx).  coq/Gen and coq/PropsGen are shared between concurrent runs of
the check (e.g. a mutant tree under VERIF_REPO next to the unchanged tree): the whole stage holds a file lock."""
import fcntl
import operator
import os
import random
import time
from fractions import Fraction as F

import vlib
import gen_c01
import pressure
from pressure import flit
from vlib import coq_string as cs

GEN = "PressureGen.v"
PROPS = "PropsGen/C01gen.v"
ERR = {"KeyError": "EKey", "IndexError": "EIndex", "ValueError": "EValue"}


def classify(e):
    n = type(e).__name__
    if n == "TypeError":
        return "EEmptyGetter" if "itemgetter" in str(e) else "EType"
    return ERR.get(n, "EFuel")          # EFuel is never produced by the translated text: any other exception is a mismatch


def res_list(r):
    if r[0] == "err":
        return "(Err %s)" % r[1]
    return "(Ok [%s])" % "; ".join(flit(x) for x in r[1])


def call(f):
    try:
        return ("ok", [float(x) for x in f()])
    except Exception as e:  # noqa
        return ("err", classify(e), repr(e))


# ------------------------------------------------------------------ case generators (inputs for BOTH sides)
VALS = [0.0, 0.25, 0.5, 1.0, 1 / 3, 0.33, 0.165, 0.005, 0.015, 0.025, 0.125, 0.135, 2.675, 1.0049999999999999, 0.1, 0.2, 0.3,
        1.5, 2.0, 3.0, 0.01, 0.99, 1e-17, -0.01, -0.005, 0.045, 0.055, 7.0, 1e15 + 0.5, 0.07, 0.14, 0.21]


def gen_num(rng, ints=True):
    r = rng.random()
    if r < 0.45:
        return rng.choice(pressure.CYCLES)
    if r < 0.6 and ints:
        return rng.choice([0, 1, 2, 3, 4, 7])
    if r < 0.85:
        x = rng.choice([0.25, 0.5, 1, 2, 3, 0.33, 1.5]) / rng.choice([1, 2, 3, 4, 5, 6])
        for _ in range(rng.randrange(0, 40)):
            x += rng.choice([-0.01, 0.01])
        return x
    return rng.choice(VALS)


def gen_collection(rng, ports):
    """a port collection: subset / with repetition / with a foreign name / empty; str form for 1-character names"""
    r = rng.random()
    if r < 0.06:
        ps = []
    elif r < 0.16:
        ps = [rng.choice(ports) for _ in range(rng.randint(1, 4))]                    # repetition allowed
    else:
        ps = rng.sample(ports, rng.randint(1, len(ports)))
    if rng.random() < 0.07:
        ps.insert(rng.randrange(len(ps) + 1), rng.choice(["X", "9", "P9", ports[0] + "x"]))   # -> KeyError
    if ps and all(len(p) == 1 for p in ps) and rng.random() < 0.4:
        return "".join(ps)
    return ps


def gen_uoplist(rng, ports):
    return [[gen_num(rng), gen_collection(rng, ports)] for _ in range(rng.choice([0, 1, 1, 2, 2, 3, 4]))]


def avg_cases(rng, n):
    from osaca.semantics import MachineModel
    out = []
    for _ in range(n):
        ports = pressure.gen_ports(rng)
        if rng.random() < 0.05:
            ports = ports + [ports[0]]                                               # duplicate port name: index() finds the first
        if rng.random() < 0.25:
            uops = {i: gen_uoplist(rng, ports) for i in range(rng.choice([0, 1, 2, 3]))}
        else:
            uops = gen_uoplist(rng, ports)
        option = rng.choice([None, None, 0, 0, 1, 2, 5, -1])
        mm = MachineModel.__new__(MachineModel)
        mm._data = {"ports": list(ports)}
        if option is None:
            r = call(lambda: mm.average_port_pressure(uops))
        else:
            r = call(lambda: mm.average_port_pressure(uops, option))
        out.append((ports, uops, 0 if option is None else option, r))
    return out


def tps_cases(rng, n):
    from osaca.semantics import ArchSemantics
    from osaca.parser.instruction_form import InstructionForm
    out = []
    for _ in range(n):
        w = rng.choice([0, 1, 2, 3, 4, 6])
        kern = []
        for ln in range(rng.choice([0, 1, 2, 3, 5, 8, 12])):
            ww = w if rng.random() < 0.9 else max(0, w + rng.choice([-1, 1, 2]))      # ragged rows: zip stops at the shortest
            row = [float(gen_num(rng, ints=False)) for _ in range(ww)]
            tp = rng.choice([0.0, 0.0, -0.0, 0, 1.0, 1.0, 0.5, 0.25, 2.0, 1, None, 1e-300])
            kern.append((tp, row))
        forms = []
        for ln, (tp, row) in enumerate(kern):
            f = InstructionForm(mnemonic="i", line_number=ln + 1)
            f.port_pressure = list(row)
            f.throughput = tp
            forms.append(f)
        r = call(lambda: ArchSemantics.get_throughput_sum(forms))
        out.append((kern, r))
    return out


def list_cases(rng, n):
    """_to_list(itemgetter(*idx)(l)) and _itemsetter(*idx)(l, *vals)"""
    from osaca.semantics import ArchSemantics
    getc, setc = [], []
    for _ in range(n):
        l = [float(gen_num(rng, ints=False)) for _ in range(rng.randint(0, 6))]
        k = rng.choice([0, 1, 1, 2, 2, 3, 4])
        idx = [rng.randrange(0, max(1, len(l) + (1 if rng.random() < 0.15 else 0))) for _ in range(k)]
        r = call(lambda: ArchSemantics._to_list(None, operator.itemgetter(*idx)(l)))
        getc.append((l, idx, r))
        nv = k if rng.random() < 0.7 else rng.randint(0, 4)
        vals = [float(gen_num(rng, ints=False)) for _ in range(nv)]

        def setter():
            obj = list(l)
            ArchSemantics._itemsetter(None, *idx)(obj, *vals)
            return obj
        setc.append((l, idx, vals, call(setter)))
    return getc, setc


# ------------------------------------------------------------------ independent oracle (property text, exact fractions)
def _fr(x):
    return F(x) if isinstance(x, int) else F(float(x))


def avg_oracle(ports, uops, option, r):
    """uniform split: every micro-op's cycles are spread over the ports it names (total), nothing lands on a port no
    micro-op of the chosen alternative names (support).  Only judged when the implementation returned a vector."""
    if r[0] != "ok":
        return []
    us = uops.get(option) if isinstance(uops, dict) else uops
    if us is None:
        return []
    bad = []
    v = [F(x) for x in r[1]]
    named = set(p for _, ps in us for p in ps)
    total = sum(_fr(c) for c, ps in us if len(ps))
    scale = max(F(1), sum(abs(_fr(c)) for c, ps in us))
    if len(v) != len(ports):
        bad.append(("length", "vector of length %d for %d ports" % (len(v), len(ports))))
    if abs(sum(v) - total) > scale / 10 ** 9:
        bad.append(("total", "pressure adds up to %s, micro-op cycles to %s" % (float(sum(v)), float(total))))
    for p, x in zip(ports, v):
        if p not in named and x != 0:
            bad.append(("support", "port %s carries %s but no micro-op names it" % (p, float(x))))
            break
    return bad


def tps_oracle(kern, r):
    """totals = column sums over the lines whose throughput is not 0, to the rounding of two decimals"""
    if r[0] != "ok":
        return [("crash", "get_throughput_sum raises %s" % r[2])]
    rows = [row for tp, row in kern if tp is None or tp != 0.0]
    width = min((len(x) for x in rows), default=0)
    if len(r[1]) != width:
        return [("colsum", "%d totals for %d columns" % (len(r[1]), width))]
    for j in range(width):
        col = sum(F(x[j]) for x in rows)
        tol = F(5, 1000) + sum(abs(F(x[j])) for x in rows) / 10 ** 12 + F(1, 10 ** 9)
        if abs(F(r[1][j]) - col) > tol:
            return [("colsum", "column %d total %s but the counted lines add up to %s" % (j, r[1][j], float(col)))]
    return []


def judge(ctx, avg, tps):
    for ports, uops, option, r in avg:
        for kind, text in avg_oracle(ports, uops, option, r):
            ctx.violation("uniform:" + kind, "average_port_pressure(%r, option=%r) on ports %r: %s" % (uops, option, ports, text),
                          {"c01gen": "avg", "ports": ports, "uops": uops, "option": option})
    for kern, r in tps:
        for kind, text in tps_oracle(kern, r):
            ctx.violation("uniform:" + kind, "get_throughput_sum on (throughput, pressure) lines %r: %s" % (kern, text),
                          {"c01gen": "tps", "kernel": kern})


def replay(ctx, obj):
    """re-run a failing input of this stage on the implementation"""
    from osaca.semantics import MachineModel, ArchSemantics
    from osaca.parser.instruction_form import InstructionForm
    r = obj["replay"]
    if r["c01gen"] == "avg":
        uops = r["uops"]
        if isinstance(uops, dict):
            uops = {int(k): v for k, v in uops.items()}
        mm = MachineModel.__new__(MachineModel)
        mm._data = {"ports": list(r["ports"])}
        out = call(lambda: mm.average_port_pressure(uops, r["option"]))
        ctx.log("replay: average_port_pressure returned %s" % (out[:2],))
        judge(ctx, [(r["ports"], uops, r["option"], out)], [])
    else:
        forms = []
        for ln, (tp, row) in enumerate(r["kernel"]):
            f = InstructionForm(mnemonic="i", line_number=ln + 1)
            f.port_pressure = list(row)
            f.throughput = tp
            forms.append(f)
        out = call(lambda: ArchSemantics.get_throughput_sum(forms))
        ctx.log("replay: get_throughput_sum returned %s" % (out[:2],))
        judge(ctx, [], [(r["kernel"], out)])
    ctx.count()


# ------------------------------------------------------------------ rendering
def coq_uops(us):
    if isinstance(us, dict):
        if list(us.keys()) != list(range(len(us))):
            raise AssertionError("dict form with keys other than 0..n-1")
        return "UDict [%s]" % "; ".join("[" + "; ".join(pressure.coq_uop(u, flit) for u in a) + "]" for a in us.values())
    return "UList [%s]" % "; ".join(pressure.coq_uop(u, flit) for u in us)


CASE = """From Coq Require Import ZArith List String Bool PrimFloat.
From OV Require Import Model.Num Model.Pressure Model.PyString Gen.PressureGen.
Import ListNotations.
Open Scope string_scope.
Set Printing Width 100000. Set Printing Depth 100000.
Definition lres_eq (a b : res (list float)) : bool :=
  match a, b with Ok x, Ok y => f_list_biteq x y | Err e, Err f => err_eqb e f | _, _ => false end.
Definition bad {A} (f : A -> bool) (l : list A) : string :=
  String.concat "," (map (fun p => string_of_nat (fst p)) (filter (fun p => negb (f (snd p))) (combine (seq 0 (List.length l)) l))).
Definition itemgetter (l : list float) (idx : list nat) : res (pyitems float) :=
  match idx with
  | [] => Err EEmptyGetter
  | [i] => x <- nth_res l i ;; Ok (POne x)
  | _ => xs <- getmany_go l idx ;; Ok (PTuple xs)
  end.
Definition avg : list (list string * uops (T:=float) * Z * res (list float)) := [
%s].
Definition tps : list (list (instr (T:=float)) * res (list float)) := [
%s].
Definition getc : list (list float * list nat * res (list float)) := [
%s].
Definition setc : list (list float * list nat * list float * res (list float)) := [
%s].
Definition show : string :=
  bad (fun c => let '(ports, u, k, e) := c in lres_eq (g_average_port_pressure FNum ports u k) e) avg ++ "|" ++
  bad (fun c => let '(k, e) := c in lres_eq (g_get_throughput_sum FNum k) e) tps ++ "|" ++
  bad (fun c => let '(l, idx, e) := c in lres_eq (o <- itemgetter l idx ;; g_to_list o) e) getc ++ "|" ++
  bad (fun c => let '(l, idx, vals, e) := c in lres_eq (g_itemsetter idx l vals) e) setc ++ "|" ++
  string_of_nat (List.length avg + List.length tps + List.length getc + List.length setc).
Eval vm_compute in show.
"""


def fl(l):
    return "[" + "; ".join(flit(x) for x in l) + "]"


def nl(l):
    return "[" + "; ".join("%d%%nat" % i for i in l) + "]"


def shard(avg, tps, getc, setc):
    a = ";\n".join("([%s], %s, (%d)%%Z, %s)" % ("; ".join(cs(p) for p in ports), coq_uops(u), k, res_list(r)) for ports, u, k, r in avg)
    t = ";\n".join("([%s], %s)" % ("; ".join("mkinstr %s %s (UList [])" % (flit(1.0 if tp is None else tp), fl(row)) for tp, row in kern),
                                   res_list(r)) for kern, r in tps)
    g = ";\n".join("(%s, %s, %s)" % (fl(l), nl(idx), res_list(r)) for l, idx, r in getc)
    s = ";\n".join("(%s, %s, %s, %s)" % (fl(l), nl(idx), fl(vals), res_list(r)) for l, idx, vals, r in setc)
    return CASE % (a, t, g, s)


def cross_check(ctx):
    """the translator itself: regenerated Gallina (binary64) = the Python functions, bit for bit"""
    rng = random.Random("C01gen/%s" % ctx.seed)      # own stream (seeded by VERIF_SEED): the other stages of C01 keep theirs
    nsh = ctx.n(2, 8)
    per = ctx.n(60, 150)
    groups = []
    for _ in range(nsh):
        g, s = list_cases(rng, per)
        groups.append((avg_cases(rng, per), tps_cases(rng, per), g, s))
        judge(ctx, groups[-1][0], groups[-1][1])          # search: the property text on the implementation's own outputs
    shards = [("c01gen_%02d" % i, shard(*g)) for i, g in enumerate(groups)]
    res = ctx.coq_eval_many(shards, timeout=600)
    total = 0
    details = []
    hist = {"avg_ok": 0, "avg_err": 0, "tps_nonempty": 0, "get_err": 0, "set_err": 0}
    for (avg, tps, getc, setc), (ok, out) in zip(groups, res):
        hist["avg_ok"] += sum(1 for c in avg if c[3][0] == "ok")
        hist["avg_err"] += sum(1 for c in avg if c[3][0] == "err")
        hist["tps_nonempty"] += sum(1 for c in tps if c[1][0] == "ok" and c[1][1])
        hist["get_err"] += sum(1 for c in getc if c[2][0] == "err")
        hist["set_err"] += sum(1 for c in setc if c[3][0] == "err")
        n = len(avg) + len(tps) + len(getc) + len(setc)
        if not ok or not out:
            details.append("shard failed to evaluate: %s" % (out[0][-1500:] if out else "no output"))
            continue
        parts = out[0].split("|")
        if len(parts) != 5 or parts[4] != str(n):
            details.append("shard output malformed: %r" % out[0][:300])
            continue
        total += n
        for name, lst, b in (("average_port_pressure", avg, parts[0]), ("get_throughput_sum", tps, parts[1]),
                             ("_to_list", getc, parts[2]), ("_itemsetter", setc, parts[3])):
            for i in [int(x) for x in b.split(",") if x]:
                details.append("%s: translated Gallina (binary64) != Python on %r" % (name, lst[i]))
    ctx.count(total)
    for c in groups[0][0][:1]:
        ctx.sample({"translator cross-check, average_port_pressure": {"ports": c[0], "uops": c[1], "option": c[2], "python": c[3][:2]}})
    ctx.coverage["c01gen_crosscheck"] = dict(hist, cases=total)
    ctx.obligation("translator cross-check: regenerated Gallina (binary64) = Python average_port_pressure / get_throughput_sum / "
                   "_to_list / _itemsetter bit for bit on %d random inputs (exceptions included)" % total,
                   "correspondence", not details and total > 0, "\n".join(details[:6]))


def run(ctx):
    t0 = time.time()
    ctx.trusted += ["translator tools/gen_c01.py + tools/py2coq.py (fail-closed subset; its prelude py_for / py_catch / py_index / "
                    "py_zip_star / py_dict_get in the header of Gen/PressureGen.v is proved equal to the hand model's list "
                    "operations in PropsGen/C01gen.v and cross-checked against CPython on random inputs every run)",
                    "data representation shared by the translated text and Model/Pressure.v: a port collection is the list of its "
                    "items (a str collection = its characters), dict-form port_uops has keys 0..n-1 in order, throughput None is a "
                    "non-zero number, an int and the equal float are one number"]
    gendir = os.path.join(vlib.COQ, "Gen")
    os.makedirs(gendir, exist_ok=True)
    with open(os.path.join(gendir, ".c01gen.lock"), "w") as lf:
        fcntl.flock(lf, fcntl.LOCK_EX)
        gen = gen_c01.generate(vlib.REPO, gendir)
        ok, text = gen[GEN]
        ctx.obligation("translate average_port_pressure, get_throughput_sum, _to_list, _itemsetter from the current source (Gen/%s)" % GEN,
                       "translation", ok, "" if ok else text)
        compiled = False
        if ok:
            compiled, out, dt = ctx.coqc(os.path.join(gendir, GEN))
            ctx.obligation("generated Gen/%s type-checks" % GEN, "translation", compiled, out)
            ctx.log("coqc Gen/%s: %s in %.1fs" % (GEN, "ok" if compiled else "FAILED", dt))
        if ok and compiled:
            ctx.compile_theorems(PROPS)
            cross_check(ctx)
        else:
            ctx.obligation("theorems of %s (regenerated definitions = hand model)" % PROPS, "theorem", False,
                           "generated definitions unavailable")
    ctx.log("translation tie (regenerate, compile, re-prove, cross-check): %.1fs" % (time.time() - t0))
