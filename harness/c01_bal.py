"""C01/C02, translation tie (T) for the BALANCER: regenerate -> compile -> obligations -> cross-check of the translator.

  1. tools/gen_c01bal.py translates the CURRENT source of ArchSemantics.assign_optimal_throughput into
     coq/Gen/BalanceGen.v (fail closed: anything outside the subset is a broken `translation` obligation);
  2. coq/PropsGen/C01bal.v re-proves, against that text, that the regenerated definitions are the hand model's
     (Model/Pressure.v: bstep, bloop, balance_uop, balance_uops, balance_from) for every NumOps instance, every state and
     every input, error outcomes included, and restates C01/C02 theorems for them;
  3. the regenerated Gallina, instantiated with binary64, is run on random kernels and compared bit for bit (rows and
     exception classes) with assign_optimal_throughput itself -- this checks the translator.

One call from checks/c01.py: c01_bal.run(ctx), right after c01_gen.run(ctx) (Gen/BalanceGen.v calls the definitions of
Gen/PressureGen.v and PropsGen/C01bal.v uses the equalities of PropsGen/C01gen.v).  coq/Gen and coq/PropsGen are
shared between concurrent runs of the check: the whole stage holds c01_gen's file lock and first makes sure that
Gen/PressureGen.vo and PropsGen/C01gen.vo belong to THIS tree."""
import fcntl
import os
import random
import time

import vlib
import gen_c01
import gen_c01bal
import pressure
from pressure import flit

GEN = "BalanceGen.v"
PROPS = "PropsGen/C01bal.v"


def _mtime(p):
    try:
        return os.path.getmtime(p)
    except OSError:
        return -1.0


def ensure_pressure_gen(ctx, gendir):
    """Gen/PressureGen.vo and PropsGen/C01gen.vo of the tree under test (another run may have replaced them)"""
    gen = gen_c01.generate(vlib.REPO, gendir)
    ok, text = gen["PressureGen.v"]
    if not ok:
        return False, "Gen/PressureGen.v does not translate: %s" % text
    pv = os.path.join(gendir, "PressureGen.v")
    if _mtime(pv[:-2] + ".vo") < _mtime(pv):
        good, out, _ = ctx.coqc(pv)
        if not good:
            return False, out
    cv = os.path.join(vlib.COQ, "PropsGen", "C01gen.v")
    if _mtime(cv[:-2] + ".vo") < max(_mtime(pv[:-2] + ".vo"), _mtime(cv)):
        good, out, _ = ctx.coqc(cv)
        if not good:
            return False, out
    return True, ""


# ------------------------------------------------------------------ cross-check of the translator
CASE_HEADER = pressure.CASE_HEADER.replace("Model.PyString.", "Model.PyString Gen.PressureGen Gen.BalanceGen.") + """
(* the GENERATED balancer on the kernel in program order *)
@RUNGEN@
Definition agrees_gen (r : res (list (instr (T:=float)))) (e : exp) : bool :=
  match r, e with
  | Ok k, Ok (rows, sums) => andb (rows_eq (map i_pp k) rows) (f_list_biteq (tp_sum FNum k) sums)
  | Err a, Err b => err_eqb a b
  | _, _ => false
  end.
"""

RUNGEN = """Definition run_gen (ports : list string) (k : list (instr (T:=float))) : res (list (instr (T:=float))) :=
  g_assign_optimal_throughput FNum (S (List.length k)) ports k 0.
"""

CASE_FOOTER = """
Definition results := map (fun c => let '(p, k, e) := c in agrees_gen (run_gen p k) e) cases.
Definition summary :=
  let bad := map fst (filter (fun p => negb (snd p)) (combine (seq 0 (List.length results)) results)) in
  String.concat "," (map string_of_nat bad) ++ "|" ++ string_of_nat (List.length results).
Eval vm_compute in summary.
"""


def has_alternatives(case):
    return any(isinstance(case["forms"][fi]["uops"], dict) for fi in case["kernel"])


def shard_text(cases_outs, rungen):
    items = []
    for case, out in cases_outs:
        items.append("([%s],\n  %s,\n  %s)" % ("; ".join(vlib.coq_string(p) for p in case["ports"]),
                                              pressure.coq_kernel(case, case["init_pp"], flit), pressure.coq_expected(out)))
    return CASE_HEADER.replace("@RUNGEN@", rungen) \
        + "Definition cases : list (list string * list (instr (T:=float)) * exp) := [\n" + ";\n".join(items) + "]." + CASE_FOOTER


def run_direct(case):
    """assign_optimal_throughput on instruction forms built directly from (throughput, row, micro-ops): rows need not be the
    uniform split, may have the wrong length; micro-ops may name no port or a foreign port -- the exception paths"""
    import copy
    from osaca.parser.instruction_form import InstructionForm
    mm, sem = pressure.semantics_for(case["ports"])
    kernel = []
    try:
        for ln, fi in enumerate(case["kernel"]):
            f = case["forms"][fi]
            inst = InstructionForm(mnemonic="i%d" % fi, line_number=ln + 1)
            inst.port_uops = copy.deepcopy(f["uops"])
            inst.port_pressure = list(case["init_pp"][ln])
            inst.throughput = f["tp"]
            inst.latency = 1.0
            kernel.append(inst)
        sem.assign_optimal_throughput(kernel)
        tps = sem.get_throughput_sum(kernel)
    except Exception as e:  # noqa
        return ("err", pressure.classify_exc(e), repr(e))
    return ("ok", [[float(x) for x in i.port_pressure] for i in kernel], [float(x) for x in tps], [i.port_uops for i in kernel])


def perturb(rng, case):
    """malformed / unusual inputs: what the balancer does with them (which exception, which rows) must be reproduced too"""
    r = rng.random()
    ports = case["ports"]
    ln = rng.randrange(len(case["kernel"]))
    form = dict(case["forms"][case["kernel"][ln]])
    uops = form["uops"]
    first = list(uops.values())[0] if isinstance(uops, dict) else uops
    if r < 0.2:
        case["init_pp"][ln] = case["init_pp"][ln][:-1]                              # short row: IndexError
    elif r < 0.35 and first:
        first[rng.randrange(len(first))][1] = []                                   # micro-op without ports: itemgetter() TypeError
    elif r < 0.5 and first:
        u = first[rng.randrange(len(first))]
        u[1] = list(u[1]) + [rng.choice(["X", "P9", "77"])]                        # foreign port: ValueError from list.index
    elif r < 0.6:
        form["uops"] = {}                                                          # dict form without any alternative: IndexError
    elif r < 0.7 and isinstance(uops, dict):
        form["uops"] = {0: list(uops.values())[0]}                                 # a single alternative
    elif r < 0.85:
        case["init_pp"][ln] = [rng.choice([0.0, 0.25, 0.5, 1.0, 0.33, 0.01, 0.02]) for _ in ports]   # not the uniform split
    else:
        form["tp"] = 0.0
    if form["uops"] is not uops or form["tp"] != case["forms"][case["kernel"][ln]]["tp"]:
        case["forms"] = case["forms"] + [form]
        case["kernel"] = list(case["kernel"])
        case["kernel"][ln] = len(case["forms"]) - 1
    return case


def gen_cases(rng, n, alternatives):
    import copy
    out = []
    tries = 0
    while len(out) < n and tries < 50 * n:
        tries += 1
        case = pressure.gen_case(rng, mode="once", tiny=rng.random() < 0.4, maxlen=8)
        if has_alternatives(case) and not alternatives:
            continue
        case["forms"] = copy.deepcopy(case["forms"])
        case["init_pp"] = [[float(x) for x in row] for row in pressure.initial_pressures(case)]
        if rng.random() < 0.3:
            case = perturb(rng, case)
            out.append((case, run_direct(case)))
        else:
            out.append((case, pressure.run_impl(case)))
    return out


def cross_check(ctx, rungen, alternatives):
    """the translator itself: regenerated Gallina (binary64) = assign_optimal_throughput, bit for bit"""
    rng = random.Random("C01bal/%s" % ctx.seed)       # own stream: the other stages of C01 keep theirs
    nsh, per = ctx.n(6, 40), ctx.n(16, 20)
    groups = []
    for _ in range(nsh):
        try:
            groups.append(gen_cases(rng, per, alternatives))
        except KeyError:
            raise
    shards = [("c01bal_%02d" % i, shard_text(g, rungen)) for i, g in enumerate(groups)]
    res = ctx.coq_eval_many(shards, timeout=900)
    total, details = 0, []
    hist = {"ok": 0, "raises": {}, "changed_rows": 0, "with_alternatives": 0}
    for g, (ok, out) in zip(groups, res):
        for case, o in g:
            if o[0] == "ok":
                hist["ok"] += 1
                hist["changed_rows"] += 1 if o[1] != case["init_pp"] else 0
            else:
                hist["raises"][o[1]] = hist["raises"].get(o[1], 0) + 1
            hist["with_alternatives"] += 1 if has_alternatives(case) else 0
        if not ok or not out:
            details.append("shard failed to evaluate: %s" % (out[0][-1500:] if out else "no output"))
            continue
        parts = out[0].split("|")
        if len(parts) != 2 or parts[1] != str(len(g)):
            details.append("shard output malformed: %r" % out[0][:300])
            continue
        total += len(g)
        for i in [int(x) for x in parts[0].split(",") if x]:
            case, o = g[i]
            details.append("translated balancer (binary64) != Python on ports %r forms %r kernel %r -> impl %s" % (
                case["ports"], case["forms"], case["kernel"], str(o[:3])[:400]))
    ctx.count(total)
    if groups and groups[0]:
        c, o = groups[0][0]
        ctx.sample({"translator cross-check, assign_optimal_throughput": {"ports": c["ports"], "forms": c["forms"], "kernel": c["kernel"],
                                                                          "python": str(o[:2])[:300]}})
    ctx.coverage["c01bal_crosscheck"] = dict(hist, cases=total)
    ctx.obligation("translator cross-check: regenerated Gallina of the balancer (binary64) = Python assign_optimal_throughput bit for "
                   "bit on %d random kernels (rows, port sums, exception classes)" % total,
                   "correspondence", not details and total > 0, "\n".join(details[:6]))


def run(ctx):
    t0 = time.time()
    ctx.trusted += ["translator tools/gen_c01bal.py (on top of gen_c01.py / py2coq.py; fail-closed subset; its prelude py_max / py_min / "
                    "py_index_num / py_set / py_del / py_filter_res / py_map_res / py_loop / py_itemgetter in the header of "
                    "Gen/BalanceGen.v is proved equal to the hand model's list operations in PropsGen/C01bal.v and the whole "
                    "translation is cross-checked against CPython on random kernels every run)",
                    "aliasing fact of the balancer's translation: inside the instruction loop `instruction_form` IS `kernel[idx]`, so the "
                    "kernel that get_throughput_sum(kernel) sees is `set_pp kernel idx <row being balanced>` (syntactic side checked "
                    "by the translator: kernel / idx / instruction_form are not re-bound in the loop); the instruction forms of a "
                    "kernel are distinct objects with distinct port_pressure lists (lists are values in the translation)",
                    "balancer translation, conventions shared with the hand model: sys.maxsize exceeds every port sum (it is `None` of "
                    "`option T`); int(x) of an infinite / NaN product and UnboundLocalError are not modelled; recursion depth of the "
                    "alternative search <= number of instructions + 1 (fuel; running out is the distinct error EFuel, which the "
                    "cross-check would show as a mismatch)"]
    gendir = os.path.join(vlib.COQ, "Gen")
    os.makedirs(gendir, exist_ok=True)
    with open(os.path.join(gendir, ".c01gen.lock"), "w") as lf:
        fcntl.flock(lf, fcntl.LOCK_EX)
        base_ok, base_out = ensure_pressure_gen(ctx, gendir)
        gen = gen_c01bal.generate(vlib.REPO, gendir)
        ok, text = gen[GEN]
        ctx.obligation("translate assign_optimal_throughput from the current source (Gen/%s)" % GEN, "translation", ok, "" if ok else text)
        if ok:
            ctx.trusted += ["balancer translation, modelling convention: " + a for a in gen_c01bal.ASSUMPTIONS]
        compiled = False
        if ok and base_ok:
            compiled, out, dt = ctx.coqc(os.path.join(gendir, GEN))
            ctx.obligation("generated Gen/%s type-checks" % GEN, "translation", compiled, out)
            ctx.log("coqc Gen/%s: %s in %.1fs" % (GEN, "ok" if compiled else "FAILED", dt))
        elif ok:
            ctx.obligation("generated Gen/%s type-checks" % GEN, "translation", False, "Gen/PressureGen.v / PropsGen/C01gen.v unavailable: " + base_out)
        if ok and compiled:
            ctx.compile_theorems(PROPS)
            cross_check(ctx, RUNGEN, alternatives=True)
        else:
            ctx.obligation("theorems of %s (regenerated balancer = hand model)" % PROPS, "theorem", False, "generated definitions unavailable")
    ctx.log("balancer translation tie (regenerate, compile, re-prove, cross-check): %.1fs" % (time.time() - t0))
