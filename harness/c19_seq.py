"""Driver for C19's sequential branch (kernels below KernelDG.INSTRUCTION_THRESHOLD).

Runs KernelDG of the implementation under test (vlib.REPO) on a short kernel and observes, from
outside (nothing in the repository changes):
  * every reading of time.time() made by kernel_dg (real clock, or a synthetic one that advances a
    fixed amount per reading, which puts the cut at a chosen path),
  * every call of all_simple_paths and how many paths each generator yielded (kd.nx is replaced by a
    delegating proxy),
  * the list that is handed to the post-processing, in order (the paths passed to nx.utils.pairwise),
and computes an independent reference: the complete enumeration in networkx's own order on the
UNRESTRICTED doubled graph (networkx itself where that is feasible, otherwise a DFS of this file that
skips nodes the target cannot be reached from, cross-checked against networkx on small kernels).

Module use: kernel generators / oracles.  Script use:  python c19_seq.py <jobs.json> <out.json>
"""
import json
import os
import sys
import time

SCALE = 1 << 20
KEEP_READINGS = 6000


# ------------------------------------------------------------------ reference enumeration
def reach_set(dg, t):
    """nodes from which t is reached (own reverse BFS), plus t"""
    seen = {t}
    todo = [t]
    while todo:
        x = todo.pop()
        for p in dg.pred[x]:
            if p not in seen:
                seen.add(p)
                todo.append(p)
    return seen


def ref_paths(dg, s, t, cap=None):
    """all paths s -> t of the DAG in the order networkx's all_simple_paths yields them (children in
    adjacency order, depth first); nodes that cannot reach t are skipped (they yield nothing)."""
    ok = reach_set(dg, t)
    out = []
    if s not in ok:
        return out
    path = [s]
    stack = [iter(dg[s])]
    while stack:
        child = next(stack[-1], None)
        if child is None:
            stack.pop()
            path.pop()
            continue
        if child == t:
            out.append(path + [t])
            if cap is not None and len(out) >= cap:
                return out
        elif child in ok and child not in path:
            path.append(child)
            stack.append(iter(dg[child]))
    return out


def ref_all(dg, lines, off, cap=None):
    out = []
    for ln in lines:
        out.extend(ref_paths(dg, ln, ln + off, None if cap is None else cap - len(out)))
        if cap is not None and len(out) >= cap:
            break
    return out


def nx_all(dg, lines, off):
    """the enumeration of the code as shipped: unrestricted networkx, root by root"""
    import networkx as nx
    out = []
    for ln in lines:
        out.extend(nx.algorithms.simple_paths.all_simple_paths(dg, ln, ln + off))
    return out


def lat_paths(dg, paths):
    """node paths -> [[source, latency scaled to an integer]...] as Model.Parallel wants them; exact?"""
    ap, exact = [], True
    for p in paths:
        q = []
        for s, d in zip(p, p[1:]):
            z = float(dg.edges[s, d]["latency"]) * SCALE
            if z != int(z) or abs(z) >= 2 ** 52 or not isinstance(s, int):
                exact = False
            q.append([s, int(z)])
        ap.append(q)
    return ap, exact


def genuine_cycle(entry, edges, off):
    """entry = [key, root, [[line, lat.hex]...], lat.hex] of the report; edges = {(s, d): lat} of the doubled
    graph.  The member lines (sorted) must form the cycle l1 -> l2 -> ... -> lk -> l1 + off with exactly
    these edge latencies, and the latency must be their sum in this order of addition or any other."""
    key, root, deps, lat = entry
    ls = [d[0] for d in deps]
    if not ls or root != ls[0] or key != "-".join(str(x) for x in ls) or ls != sorted(ls) or len(set(ls)) != len(ls):
        return "malformed entry"
    for i, (ln, h) in enumerate(deps):
        nxt = ls[i + 1] if i + 1 < len(ls) else ls[0] + off
        e = edges.get((ln, nxt))
        if e is None:
            return "no edge %s -> %s" % (ln, nxt)
        if float.fromhex(h) != e:
            return "edge %s -> %s has latency %s, reported %s" % (ln, nxt, e, float.fromhex(h))
    tot = sum(float.fromhex(d[1]) for d in deps)
    if abs(tot - float.fromhex(lat)) > 1e-9 * max(1.0, abs(tot)):
        return "latency %s is not the sum %s" % (float.fromhex(lat), tot)
    return None


# ------------------------------------------------------------------ instrumentation
class _Proxy:
    def __init__(self, real, over):
        self.__dict__["_real"] = real
        self.__dict__["_over"] = over

    def __getattr__(self, name):
        over = self.__dict__["_over"]
        if name in over:
            return over[name]
        return getattr(self.__dict__["_real"], name)


def analyse(spec, timeout=10, clock=None, want="small", report=False, ref_cap=200000):
    """clock: None (real time) | {"synthetic_us": d} (reading i returns start + i*d microseconds).
    want: "small" (reference by networkx and by ref_paths, delivered paths returned), "medium" (ref_paths only),
    "none" (no reference: large kernels)."""
    import networkx as real_nx
    import lcd_par
    import osaca.semantics.kernel_dg as kd
    from osaca.semantics import KernelDG
    kernel, parser, mm, sem = lcd_par.build_kernel(spec)
    res = {"klen": len(kernel), "timeout": timeout, "clock": clock, "threshold": int(KernelDG.INSTRUCTION_THRESHOLD)}
    if len(kernel) >= KernelDG.INSTRUCTION_THRESHOLD:
        raise ValueError("c19_seq drives the sequential branch only")
    state = {"on": False}
    delivered = []
    gens = []
    reads = {"n": 0, "first": None, "last": None, "max_gap": 0, "kept": []}

    def spy_pairwise(path, *a, **kw):
        if state["on"]:
            delivered.append(list(path))
        return real_nx.utils.pairwise(path, *a, **kw)

    def spy_asp(G, source, target, *a, **kw):
        rec = {"s": source, "t": target, "nodes": G.number_of_nodes(), "yields": 0, "done": False}
        if state["on"]:
            gens.append(rec)

        def gen():
            for p in real_nx.algorithms.simple_paths.all_simple_paths(G, source, target, *a, **kw):
                rec["yields"] += 1
                yield p
            rec["done"] = True
        return gen()

    class Clock:
        def time(self):
            t = time.time()
            if not state["on"]:
                return t
            i = reads["n"]
            reads["n"] += 1
            if clock and clock.get("synthetic_us") is not None:
                if reads["first"] is None:
                    reads["base"] = t
                t = reads["base"] + i * clock["synthetic_us"] / 1e6
            us = int(round((t - (reads.get("base") if clock else state["t0"])) * 1e6))
            if reads["first"] is None:
                reads["first"] = us
            else:
                reads["max_gap"] = max(reads["max_gap"], us - reads["last"])
            reads["last"] = us
            if len(reads["kept"]) < KEEP_READINGS:
                reads["kept"].append(us)
            return t

        def sleep(self, s):
            return time.sleep(s)

    class SpyDG(KernelDG):
        _dgs = []

        def create_DG(self, kernel, flag_dependencies=False):
            dg = super().create_DG(kernel, flag_dependencies)
            SpyDG._dgs.append(dg)
            return dg
    SpyDG._dgs = []

    proxy = _Proxy(real_nx, {
        "utils": _Proxy(real_nx.utils, {"pairwise": spy_pairwise}),
        "algorithms": _Proxy(real_nx.algorithms, {
            "simple_paths": _Proxy(real_nx.algorithms.simple_paths, {"all_simple_paths": spy_asp})}),
        "all_simple_paths": spy_asp,
    })
    saved = (kd.nx, kd.time)
    kd.nx, kd.time = proxy, Clock()
    state["t0"] = time.time()
    state["on"] = True
    try:
        dg = SpyDG(kernel, parser, mm, sem, timeout=timeout)
        res["wall"] = time.time() - state["t0"]
    finally:
        state["on"] = False
        kd.nx, kd.time = saved
    res["children_after"] = lcd_par.children_of(os.getpid())
    res["timed_out"] = bool(dg.timed_out)
    res["lcd"] = lcd_par.canon_lcd(dg.loopcarried_deps)
    res["n_readings"] = reads["n"]
    res["readings"] = reads["kept"]
    res["max_gap_us"] = reads["max_gap"]
    res["search_us"] = (reads["last"] - reads["first"]) if reads["n"] else None
    res["gens"] = [[g["s"], g["t"], g["nodes"], g["yields"], g["done"]] for g in gens]
    res["n_delivered"] = len(delivered)
    dg2 = SpyDG._dgs[1]
    lines = [i.line_number for i in kernel]
    off = max(n for n in dg2.nodes if isinstance(n, int)) - max(lines)
    res["offset"] = off
    res["lines"] = lines
    res["graph_nodes"] = dg2.number_of_nodes()
    res["edges"] = [[s, d, float(l).hex()] for s, d, l in dg2.edges(data="latency")]
    res["dag"] = bool(real_nx.is_directed_acyclic_graph(dg2))
    if want in ("small", "medium"):
        t1 = time.time()
        ref = ref_all(dg2, lines, off, cap=ref_cap)
        res["ref_s"] = time.time() - t1
        res["ref_total"] = len(ref)
        res["ref_capped"] = len(ref) >= ref_cap
        k = len(delivered)
        m = min(k, len(ref)) if res["ref_capped"] else k      # a capped reference vouches for its own length only
        res["is_prefix"] = delivered[:m] == ref[:m] and (res["ref_capped"] or k <= len(ref))
        if not res["is_prefix"]:
            bad = next((i for i, (a, b) in enumerate(zip(delivered, ref)) if a != b), min(k, len(ref)))
            res["first_diff"] = [bad, delivered[bad] if bad < k else None, ref[bad] if bad < len(ref) else None]
        if want == "small":
            t1 = time.time()
            nxr = nx_all(dg2, lines, off)
            res["nx_s"] = time.time() - t1
            res["ref_is_nx"] = nxr == ref
            lp, exact = lat_paths(dg2, delivered)
            res["paths"] = lp
            lpa, exact_a = lat_paths(dg2, ref)
            res["all_paths"] = lpa
            res["lat_exact"] = exact and exact_a
    if report:
        try:
            res["cp"] = [[i.line_number, float(i.latency_cp).hex()] for i in dg.get_critical_path()]
        except Exception as e:
            res["cp_error"] = repr(e)
        try:
            res["tp"] = [float(x).hex() for x in sem.get_throughput_sum(kernel)]
        except Exception as e:
            res["tp_error"] = repr(e)
        try:
            import models
            from osaca.frontend import Frontend
            fe = Frontend(path_to_yaml=models.yaml_path(spec["arch"]))
            txt = fe.full_analysis(kernel, dg, ignore_unknown=True, arch_warning=False, length_warning=False,
                                   lcd_warning=dg.timed_out, verbose=False)
            res["report_has_warning"] = "WARNING: LCD analysis timed out" in txt
        except Exception as e:
            res["report_error"] = repr(e)
    return res


# ------------------------------------------------------------------ kernels for the sequential branch
def gen_deadend_x86(n, pool=14):
    """line 1 loads a register from memory and reads nothing the kernel writes, lines 2..n are the
    Fibonacci chain fed by it: NO path leads from line 1 to its copy in the next iteration, but an
    unrestricted search from line 1 walks through all Fibonacci(2n)-many dead ends before it says so."""
    import lcd_par
    regs = lcd_par.X86_REGS[:pool]
    out = ["vmovapd (%%rax), %s\n" % regs[0], "vaddpd %s, %s, %s\n" % (regs[0], regs[0], regs[1])]
    for i in range(2, n):
        out.append("vaddpd %s, %s, %s\n" % (regs[(i - 1) % pool], regs[(i - 2) % pool], regs[i % pool]))
    return "".join(out)


def main():
    here = os.path.dirname(os.path.abspath(__file__))
    sys.path.insert(0, os.path.join(here, "..", "lib"))
    import vlib
    sys.path.insert(0, vlib.REPO)
    os.environ[vlib.GUARD] = "1"
    jobs = json.load(open(sys.argv[1]))
    out = []
    for j in jobs:
        try:
            kw = {k: j[k] for k in ("timeout", "clock", "want", "report", "ref_cap") if k in j}
            out.append(analyse(j["spec"], **kw))
        except Exception as e:
            import traceback
            out.append({"error": repr(e), "trace": traceback.format_exc()})
        with open(sys.argv[2] + ".tmp", "w") as f:
            json.dump(out, f)
        os.replace(sys.argv[2] + ".tmp", sys.argv[2])


if __name__ == "__main__":
    main()
