"""C13 case generator: shipped kernels and generated kernels (unknown mnemonics, zero-pressure lines, port sums >= 10 and
>= 100 cycles, marked / unmarked / --lines, more than 100 parsed lines) x models x {--fixed, optimal} x {--ignore-unknown}.
The survey (which pool line is known / heavy / latency-less under which model) uses the implementation's own
semantics objects; it only steers the generator and is not part of any judgement."""
import copy
import math
import os

import c13_lib as L
import models

X86_QUICK = ["zen1", "zen4", "spr", "zen3"]
A64_QUICK = ["n1", "tx2", "a72", "a64fx"]
CMT = {"x86": "#", "aarch64": "//"}
UNKNOWN = {"x86": ["fooquux %xmm1, %xmm2", "vfrobnicate %ymm3, %ymm4, %ymm5", "xyzzyq $1, %rax"],
           "aarch64": ["fooquux x1, x2", "frobnicate v1.2d, v2.2d, v3.2d", "xyzzy d1, d2"]}
NOISE = {"x86": [".L%d:", "# just a comment %d", ".p2align 4,,10 # %d", ".LBB0_%d:"],
         "aarch64": [".L%d:", "// just a comment %d", ".p2align 3 // %d", ".LBB0_%d:"]}
ZERO_INSTR = {"x86": ["jne .L1", "jmp .L2", "nop"], "aarch64": ["b.ne .L1", "b .L2", "nop"]}


def archs_for(isa, tier):
    if tier == "quick":
        return X86_QUICK if isa == "x86" else A64_QUICK
    have = set(models.nonempty_archs())
    return [a for a in (models.X86 if isa == "x86" else models.A64) if a in have]


_pool = {}


def pool(isa):
    """Instruction lines (text, stripped) of the shipped kernels of one ISA, de-duplicated, in file order."""
    if isa in _pool:
        return _pool[isa]
    from osaca.parser import get_parser
    p = get_parser(isa)
    seen, out = set(), []
    for f in L.shipped_kernels():
        text = open(f).read()
        if L.isa_of_file(f, text) != isa:
            continue
        for line in text.split("\n"):
            s = line.strip()
            if not s or s in seen or L.MARKER_RX.search(s) or ".byte" in s:
                continue
            try:
                r = p.parse_line(line, 1)
            except Exception:
                continue
            if r.mnemonic is None or r.mnemonic.startswith("j") or r.mnemonic.startswith("b.") or r.mnemonic in ("b", "bne", "ret", "call", "bl", "cbz", "cbnz", "tbz", "tbnz"):
                continue
            seen.add(s)
            out.append(s.replace("\t", " "))
    _pool[isa] = out
    return out


_survey = {}


def survey(arch, isa):
    """per pool line under one model: (max port pressure, tp_unknown, lt_unknown) -- uniform split, no balancing"""
    if arch in _survey:
        return _survey[arch]
    from osaca.parser import get_parser
    mm, sem = models.load(arch)
    p = get_parser(isa)
    res = []
    for s in pool(isa):
        try:
            form = p.parse_line(s, 1)
            sem.assign_src_dst(form)
            sem.assign_tp_lt(form)
            res.append((max([float(v) for v in form.port_pressure] or [0.0]), "tp_unknown" in form.flags, "lt_unknown" in form.flags))
        except Exception:
            res.append((0.0, True, True))
    _survey[arch] = res
    return res


_tponly = {}


def tponly_lines(arch, isa):
    """Lines built from the model's own entries that have a latency but no throughput (register operands only): they
    carry tp_unknown without lt_unknown.  Checked with the implementation's semantics objects, steering only."""
    if arch in _tponly:
        return _tponly[arch]
    from osaca.parser import get_parser
    mm, sem = models.load(arch)
    p = get_parser(isa)
    out = []
    for e in (mm._data.get("instruction_forms") or []):
        try:
            if e["throughput"] is not None or e["latency"] is None:
                continue
            ops = []
            for k, o in enumerate(e["operands"]):
                name = getattr(o, "name", None) or getattr(o, "prefix", None)
                if type(o).__name__ != "RegisterOperand" or name is None:
                    raise ValueError
                if isa == "x86":
                    ops.append("%%%s%d" % (name, k + 1) if name in ("xmm", "ymm", "zmm") else None)
                else:
                    ops.append("%s%d" % (name, k + 1) if name in ("x", "w", "d", "s", "q") else None)
            if None in ops or not ops:
                continue
            line = "%s %s" % (e["name"].lower(), ", ".join(ops))
            form = p.parse_line(line, 1)
            sem.assign_src_dst(form)
            sem.assign_tp_lt(form)
            if "tp_unknown" in form.flags and "lt_unknown" not in form.flags:
                out.append(line)
        except Exception:
            continue
    _tponly[arch] = out
    return out


def mk(name, text, arch, isa, fixed, ign, lines=None, marked=None, lcd_timeout=10, kind=""):
    must_x = []
    if kind == "tponly" and arch:
        # instruction texts that the MODEL FILE (read here as plain YAML, not through OSACA's loader) gives no throughput:
        # they lack performance data whatever the loader makes of a `throughput: ~`, so the report must mark them X
        ylines = set(yaml_tponly_lines(arch, isa))
        must_x = sorted(set(l.strip() for l in text.split("\n") if l.strip() in ylines))
    return dict(name=name, text=text, arch=arch, isa=isa, fixed=fixed, ignore_unknown=ign, lines=lines, marked=marked,
                lcd_timeout=lcd_timeout, kind=kind, must_x=must_x)


_ytponly = {}


def yaml_tponly_lines(arch, isa):
    """like tponly_lines, but from the YAML text of the model file alone (ruamel safe loader): entries with an explicit
    `throughput: ~`, a latency, and register operands only -- no object of the implementation is involved"""
    if arch in _ytponly:
        return _ytponly[arch]
    import ruamel.yaml
    out = []
    try:
        data = ruamel.yaml.YAML(typ="safe").load(open(models.yaml_path(arch)))
    except Exception:
        data = {}
    for e in (data.get("instruction_forms") or []):
        try:
            if "throughput" not in e or e["throughput"] is not None or e.get("latency") is None:
                continue
            ops = []
            for k, o in enumerate(e.get("operands") or []):
                if o.get("class") != "register":
                    raise ValueError
                name = o.get("name") if isa == "x86" else o.get("prefix")
                if isa == "x86":
                    ops.append("%%%s%d" % (name, k + 1) if name in ("xmm", "ymm", "zmm") else None)
                else:
                    ops.append("%s%d" % (name, k + 1) if name in ("x", "w", "d", "s", "q") else None)
            if None in ops or not ops:
                continue
            names = e["name"] if isinstance(e["name"], list) else [e["name"]]
            for nm in names:
                out.append("%s %s" % (str(nm).lower(), ", ".join(ops)))
        except Exception:
            continue
    _ytponly[arch] = out
    return out


def shipped_cases(rng, tier, per_file):
    out = []
    for f in L.shipped_kernels():
        text = open(f).read()
        if sum(1 for l in text.split("\n") if l.strip()) > (140 if tier == "quick" else 700):
            continue
        isa = L.isa_of_file(f, text)
        archs = archs_for(isa, tier)
        for arch in rng.sample(archs, min(per_file, len(archs))):
            fixed, ign = rng.random() < 0.5, rng.random() < 0.5
            use_arch = arch if rng.random() < 0.8 else None
            out.append(mk("shipped:" + os.path.relpath(f, L.vlib.REPO), text, use_arch, isa, fixed, ign, kind="shipped"))
    return out


def gen_body(rng, isa, arch, kind):
    """-> list of kernel text lines"""
    P = pool(isa)
    S = survey(arch, isa)
    known = [i for i, s in enumerate(S) if not s[1]]
    uid = rng.randrange(10, 99)
    if kind == "mix":
        body = [P[rng.choice(known)] if rng.random() < 0.9 else P[rng.randrange(len(P))] for _ in range(rng.randrange(3, 26))]
    elif kind == "unknown":
        body = [P[rng.choice(known)] for _ in range(rng.randrange(2, 14))]
        for _ in range(rng.randrange(1, 4)):
            body.insert(rng.randrange(len(body) + 1), rng.choice(UNKNOWN[isa]))
    elif kind == "allunknown":
        body = [rng.choice(UNKNOWN[isa]) for _ in range(rng.randrange(1, 5))]
    elif kind == "zero":
        body = [rng.choice(ZERO_INSTR[isa]) for _ in range(rng.randrange(1, 4))]
    elif kind in ("sum10", "sum100"):
        heavy = sorted(known, key=lambda i: -S[i][0])[:6]
        i = rng.choice(heavy[:3] if kind == "sum100" else heavy)
        target = (100.5 if kind == "sum100" else 10.5) + rng.random() * (30 if kind == "sum100" else 8)
        reps = min(int(math.ceil(target / max(S[i][0], 0.25))), 190 if kind == "sum100" else 48)
        body = [P[i]] * reps
        for _ in range(rng.randrange(0, 3)):
            body.insert(rng.randrange(len(body) + 1), P[rng.choice(known)])
    elif kind == "ltonly":
        lt = [i for i, s in enumerate(S) if s[2] and not s[1]]
        body = [P[rng.choice(known)] for _ in range(rng.randrange(2, 8))]
        for _ in range(rng.randrange(1, 3)):
            body.insert(rng.randrange(len(body) + 1), P[rng.choice(lt)] if lt else rng.choice(UNKNOWN[isa]))
    elif kind == "tponly":
        tp = yaml_tponly_lines(arch, isa) or tponly_lines(arch, isa)
        body = [P[rng.choice(known)] for _ in range(rng.randrange(2, 8))]
        for _ in range(rng.randrange(1, 3)):
            body.insert(rng.randrange(len(body) + 1), rng.choice(tp) if tp else rng.choice(UNKNOWN[isa]))
        if rng.random() < 0.4:
            body.insert(rng.randrange(len(body) + 1), rng.choice(UNKNOWN[isa]))
    elif kind == "long":
        body = [P[rng.choice(known)] for _ in range(rng.choice([100, 101, 101, 104, 110]))]   # 100: no warning yet
    elif kind == "fallback":
        # AArch64 lines without any register spelling detect_ISA counts: detected as x86 (0 : 0), the x86 parser rejects
        # them, inspect falls back to the other ISA's default model
        quiet = [l for l in P if L.isa_counts(l) == (0, 0)] or ["fadd d1, d2, d3", "fmul d5, d4, d1", "ldr d4, [sp]"]
        return [rng.choice(quiet) for _ in range(rng.randrange(2, 7))]
    else:
        raise ValueError(kind)
    # zero-pressure noise lines
    for _ in range(rng.randrange(0, 3)):
        body.insert(rng.randrange(len(body) + 1), rng.choice(NOISE[isa]) % uid)
        uid += 1
    if rng.random() < 0.3:
        body.append(rng.choice(ZERO_INSTR[isa]))
    return body


KINDS = ["mix", "tponly", "unknown", "unknown", "allunknown", "zero", "sum10", "sum10", "sum100", "ltonly", "mix"]


def wrap(rng, isa, body, mode):
    """-> (file text, lines argument or None, marked?)"""
    c = CMT[isa]
    P = pool(isa)
    if mode == "marked":
        pro = [P[rng.randrange(len(P))] for _ in range(rng.randrange(0, 4))]
        epi = [P[rng.randrange(len(P))] for _ in range(rng.randrange(0, 4))]
        text = "\n".join(pro + ["%s OSACA-BEGIN" % c] + body + ["%s OSACA-END" % c] + epi) + "\n"
        return text, None, True
    if mode == "lines":
        pro = [P[rng.randrange(len(P))] for _ in range(rng.randrange(1, 4))]
        epi = [P[rng.randrange(len(P))] for _ in range(rng.randrange(1, 4))]
        text = "\n".join(pro + body + epi) + "\n"
        a, b = len(pro) + 1, len(pro) + len(body)
        spec = "%d-%d" % (a, b) if rng.random() < 0.5 or b - a < 2 else "%d,%d:%d" % (a, a + 1, b)
        return text, spec, False
    return "\n".join(body) + "\n", None, False


def generated_cases(rng, tier, n):
    out = []
    for c in range(n):
        isa = "x86" if c % 2 == 0 else "aarch64"
        arch = rng.choice(archs_for(isa, tier))
        kind = KINDS[c % len(KINDS)] if c >= 4 else ["long", "long", "long", "fallback"][c]
        if kind == "tponly":                         # a model that has latency-only entries, whenever one exists
            isa = "x86" if (c // len(KINDS)) % 4 != 3 else "aarch64"
            cand = [a for a in archs_for(isa, tier) if yaml_tponly_lines(a, isa)]
            arch = rng.choice(cand or archs_for(isa, tier))
        if kind == "fallback":
            isa = "aarch64"
        body = gen_body(rng, isa, arch, kind)
        if kind == "long" and c < 2:
            body = [l for l in body if not (l.startswith(".") or l.startswith("#") or l.startswith("//"))][:100 + c]
            body += [body[0]] * (100 + c - len(body))       # exactly 100 / 101 parsed lines
        mode = rng.choice(["plain", "plain", "marked", "lines"])
        if kind == "long":
            mode = ["plain", "plain", "marked", "plain"][c % 4]
        if kind == "fallback":
            out.append(mk("gen:fallback/plain/default/%d" % c, "\n".join(body) + "\n", None, isa, rng.random() < 0.5, True, kind=kind))
            continue
        text, lines, marked = wrap(rng, isa, body, mode)
        fixed = rng.random() < 0.5
        use_arch = arch if (rng.random() < 0.85 or kind in ("sum10", "sum100", "ltonly", "tponly")) else None
        name = "gen:%s/%s/%s/%d" % (kind, mode, arch, c)
        if kind in ("unknown", "allunknown", "ltonly", "tponly"):
            for ign in (False, True):               # the pair that differs only in --ignore-unknown
                out.append(mk(name + ("/ign" if ign else ""), text, use_arch, isa, fixed, ign, lines, marked, kind=kind))
        else:
            out.append(mk(name, text, use_arch, isa, fixed, rng.random() < 0.3, lines, marked,
                          lcd_timeout=((0 if c == 2 else 2) if len(body) > 60 else 10), kind=kind))
    return out


# ------------------------------------------------------------------------------------------- critical-path ties
# Kernels in which the longest chain of dependent instructions takes EXACTLY as long as one independent instruction: whichever
# the analysis reports as critical path, the text report and the YAML must tell the same story (CP cells vs LatencyCP of EVERY
# line, totals).  The vocabulary below only proposes candidates; latencies are read off the model through the implementation's
# own semantics objects (steering only, like `survey`).
CP_VOC = {
    "x86": dict(
        chain=dict(g=["%rax", "%rbx", "%rcx", "%rdx", "%rsi", "%rdi"], v=["%ymm0", "%ymm1", "%ymm2", "%ymm3", "%ymm4", "%ymm5"]),
        free=dict(g=["%r8", "%r9", "%r10", "%r11"], v=["%ymm8", "%ymm9", "%ymm10", "%ymm11"]),
        ops=dict(g=["addq $8, {d}", "subq $1, {d}", "imulq {s}, {d}", "leaq 8({s}), {d}", "addq {s}, {d}", "shlq $3, {d}"],
                 v=["vaddpd {s}, {c}, {d}", "vmulpd {s}, {c}, {d}", "vsubpd {s}, {c}, {d}", "vfmadd231pd {s}, {c}, {d}",
                    "vdivpd {s}, {c}, {d}", "vsqrtpd {s}, {d}"]),
        tail=["cmpq %r12, %r13", "jne .L1"]),
    "aarch64": dict(
        chain=dict(g=["x1", "x2", "x3", "x4", "x5", "x6"], v=["d1", "d2", "d3", "d4", "d5", "d6"]),
        free=dict(g=["x9", "x10", "x11", "x12"], v=["d9", "d10", "d11", "d12"]),
        ops=dict(g=["add {d}, {s}, #8", "sub {d}, {s}, #1", "mul {d}, {s}, {c}", "lsl {d}, {s}, #2", "madd {d}, {s}, {c}, {c}"],
                 v=["fadd {d}, {s}, {c}", "fmul {d}, {s}, {c}", "fsub {d}, {s}, {c}", "fmadd {d}, {s}, {c}, {c}", "fdiv {d}, {s}, {c}",
                    "fsqrt {d}, {s}"]),
        tail=["cmp x13, x14", "b.ne .L1"]),
}
_cp_lat = {}


def cp_latencies(arch, isa):
    """{(class, op template): latency} for the vocabulary under one model (known throughput and latency only)"""
    if arch in _cp_lat:
        return _cp_lat[arch]
    from osaca.parser import get_parser
    mm, sem = models.load(arch)
    p = get_parser(isa)
    voc = CP_VOC[isa]
    out = {}
    for cls, ops in voc["ops"].items():
        r = voc["free"][cls]
        for op in ops:
            try:
                form = p.parse_line(op.format(s=r[0], d=r[1], c=r[2]), 1)
                sem.assign_src_dst(form)
                sem.assign_tp_lt(form)
                lat = float(form.latency)
                if "tp_unknown" in form.flags or "lt_unknown" in form.flags or not lat > 0 or lat != int(lat):
                    continue
                out[(cls, op)] = lat
            except Exception:
                continue
    _cp_lat[arch] = out
    return out


def cp_tie_bodies(rng, arch, isa, limit):
    """-> [(order, body lines)]: a dependent chain of 2..3 instructions whose latencies add up to the latency of one independent
    instruction, which follows ('chain-first') or precedes ('single-first') the chain"""
    lat = cp_latencies(arch, isa)
    voc = CP_VOC[isa]
    cands = []
    keys = sorted(lat)
    for cls in ("g", "v"):
        ops = [k for k in keys if k[0] == cls]
        chains = [[a, b] for a in ops for b in ops] + [[a, b, c] for a in ops for b in ops for c in ops]
        for ch in chains:
            total = sum(lat[k] for k in ch)
            for single in keys:
                if lat[single] == total:
                    cands.append((ch, single))
    rng.shuffle(cands)
    out = []
    for ch, single in cands[:limit]:
        regs = list(voc["chain"][ch[0][0]])
        cur = regs.pop(0)
        lines = []
        for k, (_, op) in enumerate(ch):
            if "{s}" in op:
                d = regs.pop(0)
                lines.append(op.format(s=cur, d=d, c=voc["free"][ch[0][0]][3]))
                cur = d
            else:
                lines.append(op.format(d=cur))
        f = voc["free"][single[0]]
        one = single[1].format(s=f[0], d=f[1], c=f[2])
        for order in ("chain-first", "single-first"):
            body = [".L1:"] + (lines + [one] if order == "chain-first" else [one] + lines) + list(voc["tail"])
            out.append((order, body))
    return out


def cp_tie_cases(rng, tier):
    out = []
    for isa in ("x86", "aarch64"):
        archs = archs_for(isa, tier)
        if isa == "x86" and "icx" in models.nonempty_archs() and "icx" not in archs:
            archs = archs + ["icx"]
        for arch in archs:
            for j, (order, body) in enumerate(cp_tie_bodies(rng, arch, isa, 2 if tier == "quick" else 8)):
                out.append(mk("gen:cp-tie/%s/%s/%d" % (order, arch, j), "\n".join(body) + "\n", arch, isa, rng.random() < 0.5, True,
                              kind="cp-tie"))
    return out
