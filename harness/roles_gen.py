"""C03, translation tie (T) for the glue around the dependency scan: role assignment (isa_semantics.py) and graph construction
(KernelDG.create_DG):  regenerate -> compile -> re-prove -> cross-check of the translator.

  1. tools/gen_roles.py translates the CURRENT source of ISASemantics.assign_src_dst / _apply_found_ISA_data / _get_regular_*_operands /
     substitute_mem_address / _create_reg_wildcard / _has_load / _has_store into coq/Gen/RolesGen.v and KernelDG.create_DG into
     coq/Gen/DgGen.v (fail closed);
  2. coq/PropsGen/C03roles.v and C03dg.v re-prove, against that text, that the regenerated functions are the hand model's
     (Model/Roles.v, Model/RolesSel.v, create_dg of Model/Deps.v) on every input of the model's types and restate the role / edge
     weight theorems of Props/C03.v for them;
  3. the regenerated Gallina is evaluated (vm_compute) on DUMPS OF THE REAL OBJECTS of the check's kernels -- the untouched parse of
     every line with Python's object identities, the answers of get_instruction / find_depending as tables -- and compared with what
     the Python methods do to those objects (semantic_operands, flags, the operands' write-back marks; nodes, edges and weights of
     the graph in networkx' insertion order; exception classes).  The decoded result of the regenerated assign_src_dst is also
     compared with the hand model on the harness' own serialisation (embedding / decoding check).

One call from checks/c03.py: roles_gen.run(ctx, items).  coq/Gen and coq/PropsGen are shared between concurrent runs: the whole stage
holds a file lock."""
import copy
import fcntl
import os
import random
import time

import vlib
import deps
import gen_roles
from pressure import flit
from vlib import coq_string as cs

TRANSIENT = ("inconsistent assumptions", "bad magic number", "is corrupted", "truncated", "End_of_file", "Unable to locate library",
             "Cannot find a physical path")
ERR = {"AttributeError": "EAttribute", "KeyError": "EKey", "TypeError": "EType", "ValueError": "EValue", "IndexError": "EIndex"}
# theorem files per generated file, compiled in this order (C03roles2 requires C03roles, C03roles3 requires both): small files so
# that a broken proof names the step it belongs to
PROPS = {"RolesGen.v": ["PropsGen/C03roles.v", "PropsGen/C03roles2.v", "PropsGen/C03roles3.v"], "DgGen.v": ["PropsGen/C03dg.v"]}


def transient(out):
    return any(t in out for t in TRANSIENT)


# ------------------------------------------------------------------ dump of real objects as Model/RolesDyn.pv terms
class Dumper:
    """one per instruction form / kernel: object identities are Python's (renumbered), ==-classes are computed with the
    implementation's own == among all operand objects seen"""

    def __init__(self):
        self.ids = {}
        self.keep = []          # keeps the dumped objects alive (id() is only unique among live objects)
        self.eqs = []
        self.eqkey_of = {}
        self.bad = None

    def oid(self, o):
        if id(o) not in self.ids:
            self.ids[id(o)] = len(self.ids) + 1
            self.keep.append(o)
        return self.ids[id(o)]

    def eqkey(self, o):
        if id(o) in self.eqkey_of:
            return self.eqkey_of[id(o)]
        self.keep.append(o)
        k = None
        for i, p in enumerate(self.eqs):
            try:
                if p == o:
                    k = i
                    break
            except Exception as e:  # noqa
                self.bad = "== raises %r" % e
        if k is None:
            self.eqs.append(o)
            k = len(self.eqs) - 1
        self.eqkey_of[id(o)] = k
        return k

    def val(self, v):
        from osaca.parser.operand import Operand
        from osaca.parser.instruction_form import InstructionForm
        if v is None:
            return "VNone"
        if isinstance(v, bool):
            return "(VBool %s)" % ("true" if v else "false")
        if isinstance(v, int):
            return "(VInt (%d)%%Z)" % v
        if isinstance(v, float):
            return "(VNum %s)" % flit(v)
        if isinstance(v, str):
            if not all(32 <= ord(c) < 127 for c in v):
                self.bad = "non-ASCII string"
                return "VNone"
            return "(VStr %s)" % cs(v)
        if isinstance(v, Operand):
            return self.opnd(v)
        if isinstance(v, InstructionForm):
            return self.entry(v)
        if isinstance(v, dict):
            items = []
            for k in v.keys():
                if not isinstance(k, str):
                    self.bad = "dict with a non-str key"
                    continue
                items.append("(%s, %s)" % (cs(k), self.val(v[k])))
            return "(VDict [%s])" % "; ".join(items)
        if isinstance(v, list):
            return "(VList [%s])" % "; ".join(self.val(x) for x in v)
        if isinstance(v, tuple):
            return "(VTuple [%s])" % "; ".join(self.val(x) for x in v)
        self.bad = "value of type %s" % type(v).__name__
        return "(VObj C_Other [])"

    def opnd(self, o):
        from osaca.parser.register import RegisterOperand
        from osaca.parser.memory import MemoryOperand
        from osaca.parser.flag import FlagOperand
        from osaca.parser.immediate import ImmediateOperand
        from osaca.parser.identifier import IdentifierOperand
        if o is None:
            return "VNone"
        common = "(A_oid, (VInt (%d)%%Z)); (A_eqkey, (VInt (%d)%%Z)); (A_source, %s); (A_destination, %s)" % (
            self.oid(o), self.eqkey(o), self.val(o.source if isinstance(o.source, bool) or o.source is None else bool(o.source)),
            self.val(o.destination if isinstance(o.destination, bool) or o.destination is None else bool(o.destination)))
        if type(o) is RegisterOperand:
            return "(VObj C_RegisterOperand [%s; (A_name, %s); (A_prefix, %s); (A_pre_indexed, %s); (A_post_indexed, %s)])" % (
                common, self.val(o.name), self.val(o.prefix), self.val(o.pre_indexed), self.val(o.post_indexed))
        if type(o) is FlagOperand:
            return "(VObj C_FlagOperand [%s; (A_name, %s)])" % (common, self.val(o.name))
        if type(o) is MemoryOperand:
            return ("(VObj C_MemoryOperand [%s; (A_offset, %s); (A_base, %s); (A_index, %s); (A_scale, %s); (A_pre_indexed, %s); "
                    "(A_post_indexed, %s)])") % (common, self.val(o.offset), self.val(o.base), self.val(o.index), self.val(o.scale),
                                                 self.val(o.pre_indexed), self.val(o.post_indexed))
        if type(o) is ImmediateOperand:
            v = o.value
            return "(VObj C_ImmediateOperand [%s; (A_value, %s)])" % (common, self.val(v if isinstance(v, int) else None))
        if type(o) is IdentifierOperand:
            return "(VObj C_IdentifierOperand [%s; (A_name, %s)])" % (common, self.val(o.name if isinstance(o.name, str) else None))
        return "(VObj C_OtherOperand [%s])" % common

    def entry(self, e):
        """an ISA database entry"""
        return ("(VObj C_InstructionForm [(A_oid, (VInt (%d)%%Z)); (A_operands, %s); (A_hidden_operands, %s); "
                "(A_breaks_dependency_on_equal_operands, %s)])") % (
            self.oid(e), self.val(e.operands), self.val(e.hidden_operands), self.val(e.breaks_dependency_on_equal_operands))

    def iform(self, i):
        """a kernel line as assign_src_dst sees it"""
        return ("(VObj C_InstructionForm [(A_oid, (VInt (%d)%%Z)); (A_operands, %s); (A_mnemonic, %s); (A_semantic_operands, %s); "
                "(A_flags, %s)])") % (self.oid(i), self.val(i.operands), self.val(i.mnemonic), self.val(i.semantic_operands), self.val(i.flags))

    def result(self, i):
        return "(VTuple [%s; %s; %s])" % (self.val(i.semantic_operands), self.val(i.flags), self.val(i.operands))


def role_case(sem, iform0):
    """(definitions, computed, expected) for one untouched instruction form, or None"""
    D = Dumper()
    iform = copy.deepcopy(iform0)
    pre = D.iform(iform)
    table = []
    model = sem._isa_model
    orig = model.get_instruction

    def wrapped(name, operands):
        a = (D.val(name), D.val(operands))
        r = orig(name, operands)
        table.append((a[0], a[1], D.val(r)))
        return r
    model.get_instruction = wrapped
    try:
        try:
            ret = sem.assign_src_dst(iform)
            if ret is not None:
                return None
            exp = "(DOk %s)" % D.result(iform)
        except Exception as e:  # noqa
            exp = "(DErr %s)" % ERR.get(type(e).__name__, "EUnmodelled (* %s *)" % type(e).__name__)
    finally:
        del model.get_instruction
    if D.bad:
        return None
    tab = "[%s]" % ";\n   ".join("(%s, %s, %s)" % t for t in table)
    return pre, tab, exp, iform


ROLE_SHARD = """From Coq Require Import ZArith List Bool String PrimFloat.
From OV Require Import Model.Num Model.Pressure Model.PyString Model.PyLcd Model.Deps Model.Roles Model.RolesDyn Gen.RolesGen.
Import ListNotations.
Open Scope string_scope.
Set Printing Width 100000. Set Printing Depth 100000.
Notation pv := (RolesDyn.pv float).
Definition peq := pv_eqb f_biteq.
Definition table (t : list (pv * pv * pv)) (m ops : pv) : dres pv :=
  match find (fun e => andb (peq (fst (fst e)) m) (peq (snd (fst e)) ops)) t with
  | Some e => DOk (snd e)
  | None => DErr EUnmodelled
  end.
(* what assign_src_dst leaves behind: semantic_operands, flags, operands (with the write-back marks) of the instruction form *)
Definition proj (r : dres (pv * pv)) : dres pv :=
  dbind r (fun p => match fst p with
                    | VNone => dbind (py_getattr (snd p) A_semantic_operands) (fun s => dbind (py_getattr (snd p) A_flags) (fun f =>
                               dbind (py_getattr (snd p) A_operands) (fun o => DOk (VTuple [s; f; o]))))
                    | _ => DErr EUnmodelled end).
Definition run (isa : string) (c : pv * list (pv * pv * pv) * dres pv) : bool :=
  let '(i, t, e) := c in dres_eqb f_biteq (proj (g_assign_src_dst FNum (VStr isa) (table t) i)) e.
Definition bad (isa : string) (l : list (pv * list (pv * pv * pv) * dres pv)) : string :=
  String.concat "," (map (fun p => string_of_nat (fst p)) (filter (fun p => negb (run isa (snd p))) (combine (seq 0 (List.length l)) l))).
"""


def roles_cross_check(ctx, items):
    rng = random.Random("rolesgen/%s/%s" % (ctx.prop, ctx.seed))
    items = list(items)
    rng.shuffle(items)
    maxn = ctx.n(900, 9000)
    groups = {"x86": [], "aarch64": []}
    hist = {"lines": 0, "raises": 0, "with_entry": 0, "write_back": 0, "idiom": 0, "default": 0, "no_operands": 0}
    skipped = 0
    for pipe, kernel, dg, isa, origin in items:
        if hist["lines"] >= maxn:
            break
        k0 = getattr(pipe, "last_roles_inputs", (None, None))[0]
        if not k0 or len(k0) > 60:
            continue
        for i0 in k0:
            try:
                rc = role_case(pipe.sem, i0)
            except Exception as e:  # noqa
                ctx.obligation("translator cross-check (roles): the harness could not drive assign_src_dst (%s)" % origin, "correspondence", False, repr(e))
                rc = None
            if rc is None:
                skipped += 1
                continue
            pre, tab, exp, after = rc
            hist["lines"] += 1
            hist["raises"] += exp.startswith("(DErr")
            so = after.semantic_operands
            if isinstance(so, dict):
                from osaca.parser.register import RegisterOperand
                hist["write_back"] += any(isinstance(o, RegisterOperand) and (o.pre_indexed or o.post_indexed) for o in so.get("src_dst", []))
                hist["no_operands"] += not (so["source"] or so["destination"] or so["src_dst"])
            groups[isa].append(("(%s,\n  %s,\n  %s)" % (pre, tab, exp), origin, i0))
    shards = []
    meta = []
    per = 60
    for isa, cases in groups.items():
        for gi in range(0, len(cases), per):
            chunk = cases[gi:gi + per]
            text = ROLE_SHARD + "Definition cases : list (pv * list (pv * pv * pv) * dres pv) := [\n%s].\n" % ";\n".join(c[0] for c in chunk)
            text += "Eval vm_compute in (bad %s cases ++ \"/\" ++ string_of_nat (List.length cases))." % cs(isa)
            shards.append(("rolesgen_%s_%s_%03d" % (ctx.prop, isa, gi // per), text))
            meta.append(chunk)
    if not shards:
        ctx.obligation("translator cross-check (roles): no instruction form available", "correspondence", False, "")
        return
    res = ctx.coq_eval_many(shards, timeout=600)
    details, total = [], 0
    for chunk, (ok, out) in zip(meta, res):
        if not ok or not out:
            details.append("shard failed to evaluate: %s" % (out[0][-1500:] if out else "no output"))
            continue
        b, n = out[0].split("/")
        if n != str(len(chunk)):
            details.append("case count differs")
            continue
        total += len(chunk)
        for i in [int(x) for x in b.split(",") if x]:
            details.append("%s: translated assign_src_dst != Python on line %r" % (chunk[i][1], getattr(chunk[i][2], "line", "?")))
    ctx.count(total)
    ctx.coverage["rolesgen_crosscheck"] = dict(hist, cases=total, skipped=skipped)
    ctx.obligation("translator cross-check: regenerated assign_src_dst (vm_compute on dumps of the untouched parse with object identities, "
                   "get_instruction as the table of the real answers) = Python on %d instruction forms: semantic_operands, flags, write-back "
                   "marks on the operands, exception classes" % total, "correspondence", not details and total > 0, "\n".join(details[:6]))
    return [(c[1], c[2]) for chunk in meta for c in chunk]


# ------------------------------------------------------------------ create_DG
DG_SHARD = """From Coq Require Import ZArith List Bool String PrimFloat.
From OV Require Import Model.Num Model.Pressure Model.PyString Model.PyLcd Model.RolesDyn Gen.DgGen.
Import ListNotations.
Open Scope string_scope.
Set Printing Width 100000. Set Printing Depth 100000.
Notation pv := (RolesDyn.pv float).
Definition lineno (x : pv) : Z := match py_getattr x A_line_number with DOk (VInt n) => n | _ => (-1)%Z end.
(* find_depending as the table of what the real generator yielded: (line number of the producer) -> reports *)
Definition fdtable (t : list (Z * pv)) (i rest fd : pv) : dres pv :=
  match find (fun e => Z.eqb (fst e) (lineno i)) t with Some e => DOk (snd e) | None => DErr EUnmodelled end.
Definition run (c : pv * pv * list (Z * pv) * pv * dres pv) : bool :=
  let '(model, kernel, t, fd, e) := c in dres_eqb f_biteq (g_create_DG FNum model (fdtable t) kernel fd) e.
Definition bad (l : list (pv * pv * list (Z * pv) * pv * dres pv)) : string :=
  String.concat "," (map (fun p => string_of_nat (fst p)) (filter (fun p => negb (run (snd p))) (combine (seq 0 (List.length l)) l))).
"""


def node_lit(u):
    if isinstance(u, int):
        return "(Line (%d)%%Z)" % u
    n = int(u)
    if u != n + 0.1:
        raise ValueError("node %r is neither an int nor an int + 0.1" % (u,))
    return "(Load (%d)%%Z)" % n


def dg_case(kernel, dgobj, fd):
    """create_DG(kernel, fd) once more on the real objects with find_depending recorded"""
    D = Dumper()
    names = {}
    defs = []
    for j, inst in enumerate(kernel):
        if not isinstance(inst.line_number, int) or isinstance(inst.line_number, bool):
            return None
        names[id(inst)] = "l%d" % j
        defs.append("(VObj C_InstructionForm [(A_line_number, %s); (A_flags, %s); (A_latency, %s); (A_latency_wo_load, %s)])" % (
            D.val(inst.line_number), D.val(list(inst.flags)), D.val(inst.latency), D.val(inst.latency_wo_load)))
    if len(set(i.line_number for i in kernel)) != len(kernel):
        return None
    table = []
    orig = dgobj.find_depending

    def wrapped(iform, rest, flag_dependencies=False):
        reps = list(orig(iform, rest, flag_dependencies))
        table.append("((%d)%%Z, (VList [%s]))" % (iform.line_number, "; ".join(
            "(VTuple [%s; %s])" % (names[id(r)], D.val(list(f))) for r, f in reps)))
        return iter(reps)
    dgobj.find_depending = wrapped
    try:
        try:
            g = dgobj.create_DG(kernel, fd)
            exp = "(DOk (VGraph [%s]))" % "; ".join("(%s, [%s])" % (node_lit(u), "; ".join(
                "(%s, %s)" % (node_lit(v), flit(float(a["latency"]))) for v, a in g.adj[u].items())) for u in g.nodes)
        except Exception as e:  # noqa
            exp = "(DErr %s)" % ERR.get(type(e).__name__, "EUnmodelled (* %s *)" % type(e).__name__)
    finally:
        del dgobj.find_depending
    if D.bad:
        return None
    m = dgobj.model
    if m is None:
        model = "VNone"
    else:
        model = "(VDict [%s])" % "; ".join("(%s, %s)" % (cs(k), D.val(m.get(k))) for k in ("store_to_load_forward_latency", "p_index_latency")
                                           if m.get(k, None) is not None or k in getattr(m, "_data", {}))
    lets = "".join("let l%d : pv := %s in\n" % (j, d) for j, d in enumerate(defs))
    kern = "(VList [%s])" % "; ".join("l%d" % j for j in range(len(defs)))
    edges = exp.count("Line") + exp.count("Load")
    return "(%s(%s, %s, [%s], (VBool %s), %s))" % (lets, model, kern, "; ".join(table), "true" if fd else "false", exp), edges


def dg_cross_check(ctx, items):
    rng = random.Random("dggen/%s/%s" % (ctx.prop, ctx.seed))
    items = list(items)
    rng.shuffle(items)
    maxk = ctx.n(150, 1500)
    cases = []
    hist = {"kernels": 0, "raises": 0, "load_nodes": 0, "storeload": 0, "p_indexed": 0}
    for pipe, kernel, dg, isa, origin in items:
        if len(cases) >= 2 * maxk:
            break
        if len(kernel) > 40 or len(kernel) < 1:
            continue
        for fd in (False, True):
            try:
                r = dg_case(kernel, dg, fd)
            except Exception as e:  # noqa
                ctx.obligation("translator cross-check (create_DG): the harness could not drive create_DG (%s)" % origin, "correspondence", False, repr(e))
                r = None
            if r is None:
                continue
            text, _ = r
            hist["kernels"] += 1
            hist["raises"] += "(DErr" in text.rsplit(",", 1)[-1]
            hist["load_nodes"] += "(Load" in text
            hist["storeload"] += "storeload_dep" in text
            hist["p_indexed"] += "p_indexed" in text
            cases.append((text, origin, fd))
    if not cases:
        ctx.obligation("translator cross-check (create_DG): no kernel available", "correspondence", False, "")
        return
    per = 12
    shards, meta = [], []
    for gi in range(0, len(cases), per):
        chunk = cases[gi:gi + per]
        text = DG_SHARD + "Definition cases : list (pv * pv * list (Z * pv) * pv * dres pv) := [\n%s].\n" % ";\n".join(c[0] for c in chunk)
        text += "Eval vm_compute in (bad cases ++ \"/\" ++ string_of_nat (List.length cases))."
        shards.append(("dggen_%s_%03d" % (ctx.prop, gi // per), text))
        meta.append(chunk)
    res = ctx.coq_eval_many(shards, timeout=600)
    details, total = [], 0
    for chunk, (ok, out) in zip(meta, res):
        if not ok or not out:
            details.append("shard failed to evaluate: %s" % (out[0][-1500:] if out else "no output"))
            continue
        b, n = out[0].split("/")
        if n != str(len(chunk)):
            details.append("case count differs")
            continue
        total += len(chunk)
        for i in [int(x) for x in b.split(",") if x]:
            details.append("%s (flag deps %s): translated create_DG != Python (nodes / edges / weights in insertion order)" % (chunk[i][1], chunk[i][2]))
    ctx.count(total)
    ctx.coverage["dggen_crosscheck"] = dict(hist, cases=total)
    ctx.obligation("translator cross-check: regenerated create_DG (vm_compute on dumps of the real instruction forms, find_depending as the table of "
                   "what the real generator yields) = Python on %d graphs: nodes, edges and weights in networkx' insertion order, exception classes"
                   % total, "correspondence", not details and total > 0, "\n".join(details[:6]))


# ------------------------------------------------------------------ stage
def stage(ctx, gendir, fn, what):
    """regenerate + compile one generated file and its theorem file; returns ok"""
    gen = gen_roles.generate(vlib.REPO, gendir, only=[fn])
    ok, text = gen[fn]
    ctx.obligation("translate %s from the current source (Gen/%s)" % (what, fn), "translation", ok, "" if ok else text)
    compiled = False
    if ok:
        for attempt in range(3):
            compiled, out, dt = ctx.coqc(os.path.join(gendir, fn))
            if compiled or not transient(out):
                break
            time.sleep(5)
            ctx.ensure_static()
        ctx.obligation("generated Gen/%s type-checks" % fn, "translation", compiled, out)
        ctx.log("coqc Gen/%s: %s in %.1fs" % (fn, "ok" if compiled else "FAILED", dt))
    import re
    for p in PROPS[fn]:
        if not os.path.exists(os.path.join(vlib.COQ, p)):
            continue
        # the theorems are stated inside a Section (indented); `Print Assumptions` for each follows the section
        names = re.findall(r"^\s*(?:Theorem|Corollary)\s+([A-Za-z0-9_']+)", open(os.path.join(vlib.COQ, p)).read(), re.M)
        if ok and compiled:
            okp, outp = ctx.compile_theorems(p, theorems=names)
            if not okp and transient(outp):
                ctx.obligations = [o for o in ctx.obligations if not (o["kind"] == "theorem" and ("(%s)" % p) in o["name"])]
                ctx.ensure_static()
                ctx.coqc(os.path.join(gendir, fn))
                for q in PROPS[fn]:
                    if q == p:
                        break
                    ctx.coqc(os.path.join(vlib.COQ, q))
                ctx.compile_theorems(p, theorems=names)
        else:
            for n in names:
                ctx.obligation("theorem %s (%s)" % (n, p), "theorem", False, "generated definitions unavailable (translator failed closed or Gen/%s does not type-check)" % fn)
    return ok and compiled


def run(ctx, items, roles=True, dg=True):
    """items: [(pipe, kernel, dg, isa, origin)] -- the check's own kernels; pipe.last_roles_inputs holds the untouched parse"""
    t0 = time.time()
    ctx.trusted += ["translator tools/gen_roles.py (fail-closed, syntax-directed, dynamically typed; value universe, prelude and embedding in "
                    "Model/RolesDyn.v; object identity through the attribute oid, attribute stores reach every live reference; lists and dicts "
                    "are values under the aliasing discipline stated in the translator's header); validated every run against CPython on dumps "
                    "of the real objects",
                    "get_instruction (the ISA look-up: property C07), find_depending (regenerated and tied by PropsGen/C03deps.v), networkx' "
                    "DiGraph as the insertion-ordered container of Model/PyLcd.v are parameters / prelude of the regenerated definitions"]
    gendir = os.path.join(vlib.COQ, "Gen")
    os.makedirs(gendir, exist_ok=True)
    with open(os.path.join(gendir, ".rolesgen.lock"), "w") as lf:
        fcntl.flock(lf, fcntl.LOCK_EX)
        if roles:
            if stage(ctx, gendir, "RolesGen.v", "assign_src_dst, _apply_found_ISA_data, _get_regular_source/destination_operands, substitute_mem_address, "
                                                "_create_reg_wildcard, _has_load, _has_store (isa_semantics.py)"):
                roles_cross_check(ctx, items)
        if dg:
            if stage(ctx, gendir, "DgGen.v", "create_DG (kernel_dg.py)"):
                dg_cross_check(ctx, items)
    ctx.log("translation tie for role assignment and graph construction (regenerate, compile, re-prove, cross-check): %.1fs" % (time.time() - t0))
