"""C10: random written syntax trees of AArch64 lines (mirror of coq/Model/SyntaxA64.v):
tokens, rendering under a random layout, the meaning the property demands (canonical string),
and the Gallina term of the tree."""
from c10_lib import coq_str

SCALAR = "xwbhsdq"
SHIFT_OPS = ["lsl", "lsr", "asr", "ror", "sxtw", "uxtw", "uxtb"]          # + "sxtx" with the repair cfg["sxtx"]
ALL_SHIFT_OPS = SHIFT_OPS + ["sxtx"]
NO_FIX = dict(word=False, cond=False, sxtx=False, dir=False)               # the parser as found
ALL_FIX = dict(word=True, cond=True, sxtx=True, dir=True)
CONDS = ["eq", "ne", "cs", "hs", "cc", "lo", "mi", "pl", "vs", "vc", "hi", "ls", "ge", "lt", "gt", "le", "al"]
SP_WORDS = ["sp", "SP", "wsp", "wSP", "Wsp", "WSP", "xsp", "xSP", "Xsp", "XSP"]
ZR_WORDS = ["wzr", "wZR", "Wzr", "WZR", "xzr", "xZR", "Xzr", "XZR"]
LANES = ["", "1", "2", "4", "8", "16"]
SHAPES = "bhsdqBHSDQ"
MNEMONICS = ["add", "ldr", "str", "ld1", "st1", "fmla", "b.ne", "b.eq", "cbz", "tbnz", "mov", "fmov", "csel", "ldp",
             "stp", "ld1d", "whilelo", "b", "bl", "ret", "fadd", "ADD", "Ldr", "b.LT", "fcvtzs", "ld1rqd", "sqdmlal2",
             "mov.x", "a", "x1"]


def cb(b):
    return "true" if b else "false"


def cchar(c):
    return '"%s"%%char' % c


def copt(x, f):
    return "None" if x is None else "(Some %s)" % f(x)


# ------------------------------------------------------------------ numerals
class Num:
    def __init__(s, neg, hex_, digits):
        s.neg, s.hex, s.digits = neg, hex_, digits

    def word(s):
        return ("-" if s.neg else "") + ("0x" if s.hex else "") + s.digits

    def value(s):
        v = int(s.digits, 16 if s.hex else 10)
        return -v if s.neg else v

    def coq(s):
        return "(mknum %s %s %s)" % (cb(s.neg), cb(s.hex), coq_str(s.digits))


def gen_num(rng, small=False, nonneg=False, dec_only=False):
    hex_ = (not dec_only) and rng.random() < 0.35
    if hex_:
        n = rng.choice([1, 1, 2, 4, 8, 16])
        digits = "".join(rng.choice("0123456789abcdefABCDEF") for _ in range(n))
    else:
        if small:
            digits = str(rng.randrange(0, 7))
        else:
            r = rng.random()
            digits = str(rng.randrange(0, 10) if r < 0.3 else rng.randrange(0, 4096) if r < 0.8 else rng.randrange(0, 2 ** 64))
            if r < 0.03:
                digits = "000"
    return Num((not nonneg) and rng.random() < 0.25, hex_, digits)


# ------------------------------------------------------------------ registers
class WReg:
    def __init__(s, pre, num, arr=None):
        s.pre, s.num, s.arr = pre, num, arr

    def word(s):
        return s.pre + str(s.num) + ("" if s.arr is None else "." + s.arr[0] + s.arr[1])

    def den(s, index="-", pred="-"):
        shape = "-" if s.arr is None else s.arr[1].lower()
        lanes = "-" if s.arr is None or s.arr[0] == "" else s.arr[0]
        return "R:%s,%d,%s,%s,%s,%s" % (s.pre.lower(), s.num, shape, lanes, index, pred)

    def coq(s):
        return "(mkwreg %s %d %s)" % (cchar(s.pre), s.num,
                                      copt(s.arr, lambda a: "(%s, %s)" % (coq_str(a[0]), cchar(a[1]))))


def gen_wreg(rng, kinds="svp"):
    k = rng.choice(kinds)
    up = rng.random() < 0.15
    if k == "s":
        pre = rng.choice(SCALAR)
        return WReg(pre.upper() if up else pre, rng.randrange(32))
    pre = rng.choice("vz") if k == "v" else "p"
    arr = None
    if rng.random() < 0.7:
        arr = (rng.choice(LANES), rng.choice(SHAPES))
    return WReg(pre.upper() if up else pre, rng.randrange(32), arr)


def W(s):
    return ("W", s)


def P(c):
    return ("P", c)


# ------------------------------------------------------------------ operands: (kind, toks, den list, coq, flags)
class Op:
    def __init__(s, kind, toks, den, coq, **kw):
        s.kind, s.toks, s.den, s.coq = kind, toks, den, coq
        s.swallows = kw.get("swallows", False)
        s.shiftword = kw.get("shiftword", None)     # the word of an un-hashed identifier / condition code
        s.sxtx = kw.get("sxtx", False)


def has_shift_prefix(w, cfg=None):
    """mirror of SyntaxA64.has_shift_prefix; without cfg: under some configuration (the widest reading)"""
    lw = w.lower()
    if cfg is None:
        return any(lw.startswith(o) for o in ALL_SHIFT_OPS) or lw == "mul"
    ops = SHIFT_OPS + (["sxtx"] if cfg["sxtx"] else [])
    if cfg["word"]:
        return lw in ops or lw == "mul"
    return any(lw.startswith(o) for o in ops) or lw == "mul"


def gen_ident(rng, shifty=False):
    first = "abcdefghijklmnopqrstuvwxyzABCDEFGHIJKLMNOPQRSTUVWXYZ_."
    rest = first + "0123456789"
    while True:
        r = rng.random()
        if shifty:
            w = rng.choice(ALL_SHIFT_OPS) + rng.choice(["_loop", "1", ".L2", "x", "_", "Loop9"])
            if rng.random() < 0.3:
                w = w.upper()
        elif r < 0.3:
            w = rng.choice([".L", ".LBB0_", "loop", "foo", "_Z3", "main.", "x1b", "v0.4sx", "spill", "next", "e3"]) + str(rng.randrange(100))
        else:
            w = rng.choice(first) + "".join(rng.choice(rest) for _ in range(rng.randrange(0, 8)))
        if plain_ident(w) and (shifty or not has_shift_prefix(w)):
            return w


def plain_ident(w):
    """mirror of classify w = CIdent"""
    import re
    if not re.fullmatch(r"[A-Za-z_.][A-Za-z0-9_.]*", w):
        return False
    if re.fullmatch(r"[A-Za-z]?(sp|SP|zr|ZR)", w):
        return False
    if re.fullmatch(r"[xwbhsdqXWBHSDQ][0-9]+", w):
        return False
    if re.fullmatch(r"[vzpVZP][0-9]+(\.[12468]*[A-Za-z])?", w):
        return False
    if w.lower() in CONDS:
        return False
    if re.match(r"(pld|pst)", w.lower()):
        return False
    return True


def gen_regop(rng):
    r = rng.random()
    if r < 0.08:
        w = rng.choice(SP_WORDS)
        return Op("sp", [W(w)], ["R:x,sp,-,-,-,-"], "(WReg (RSp %s))" % coq_str(w), swallows=True)
    if r < 0.16:
        w = rng.choice(ZR_WORDS)
        return Op("zr", [W(w)], ["R:%s,%s,-,-,-,-" % (w[0].lower(), w[1:])], "(WReg (RZr %s))" % coq_str(w), swallows=True)
    if r < 0.30:
        g = gen_wreg(rng, "v")
        i = str(rng.randrange(16)) if rng.random() < 0.8 else "0" + str(rng.randrange(10))
        return Op("vindex", [W(g.word()), P("["), W(i), P("]")], [g.den(index="s" + i)],
                  "(WReg (RIndexed %s %s))" % (g.coq(), coq_str(i)), swallows=True)
    if r < 0.42:
        g = WReg(rng.choice("pP"), rng.randrange(32))
        m = rng.choice("zmZM")
        return Op("pred", [W(g.word()), P("/"), W(m)],
                  ["R:p,%d,-,-,-,%s" % (g.num, m.lower())], "(WReg (RPredicated %s %s))" % (g.coq(), cchar(m)), swallows=True)
    g = gen_wreg(rng)
    return Op("reg", [W(g.word())], [g.den()], "(WReg (RPlain %s))" % g.coq(), swallows=True)


def idx_part(rng):
    if rng.random() < 0.3:
        d = str(rng.randrange(16))
        return d, [P("["), W(d), P("]")], "i%d" % int(d)
    return None, [], "-"


def gen_list(rng):
    d, itoks, iden = idx_part(rng)
    if rng.random() < 0.5:
        els = [gen_wreg(rng, "vvvs") for _ in range(rng.randrange(1, 5))]
        toks = [P("{")]
        for k, e in enumerate(els):
            if k:
                toks.append(P(","))
            toks.append(W(e.word()))
        toks += [P("}")] + itoks
        return Op("list", toks, [e.den(index=iden) for e in els],
                  "(WList [%s] %s)" % ("; ".join(e.coq() for e in els), copt(d, coq_str)), swallows=True)
    a, b = gen_wreg(rng, "vvvs"), gen_wreg(rng, "vvvs")
    if rng.random() < 0.85:
        lo = rng.randrange(0, 30)
        a.num, b.num = lo, min(31, lo + rng.randrange(0, 5))
    toks = [P("{"), W(a.word()), P("-"), W(b.word()), P("}")] + itoks
    den = [WReg(a.pre, k, a.arr).den(index=iden) for k in range(a.num, b.num + 1)]
    return Op("range", toks, den, "(WRange %s %s %s)" % (a.coq(), b.coq(), copt(d, coq_str)), swallows=True)


def num_toks(h, n):
    return ([P("#")] if h else []) + [W(n.word())]


def gen_imm(rng):
    h = rng.random() < 0.6
    if rng.random() < 0.7:
        n = gen_num(rng)
        return Op("int", num_toks(h, n), ["I:int,%d" % n.value()], "(WInt %s %s)" % (cb(h), n.coq()), swallows=True)
    neg = rng.random() < 0.3
    ip, fp = str(rng.randrange(0, 40)), rng.choice(["0", "5", "25", "125", "00", "75"])
    ex = None
    if rng.random() < 0.5:
        ex = (rng.choice("eE"), rng.choice("+-"), str(rng.randrange(0, 20)))
    suf = rng.choice("fF") if rng.random() < 0.4 else None
    mant = ("-" if neg else "") + ip + "." + fp
    word = mant + ("" if ex is None else "".join(ex)) + (suf or "")
    den = "I:%s,%s" % ("float" if suf else "double", mant) + ("" if ex is None else ",%s,%s" % (ex[1], ex[2]))
    coq = "(WFlt %s (mkwfloat %s %s %s %s %s))" % (
        cb(h), cb(neg), coq_str(ip), coq_str(fp),
        copt(ex, lambda e: "(%s, %s, %s)" % (cchar(e[0]), cchar(e[1]), coq_str(e[2]))), copt(suf, cchar))
    return Op("float", ([P("#")] if h else []) + [W(word)], [den], coq, swallows=True)


def gen_identop(rng, shifty=False):
    h = (not shifty) and rng.random() < 0.1
    w = gen_ident(rng, shifty)
    return Op("ident", ([P("#")] if h else []) + [W(w)], ["L:" + w], "(WIdent %s %s)" % (cb(h), coq_str(w)),
              swallows=True, shiftword=None if h else w)


def gen_cond(rng):
    w = rng.choice(CONDS)
    if rng.random() < 0.4:
        w = w.upper()
    elif rng.random() < 0.1:
        w = w[0].upper() + w[1]
    return Op("cond", [W(w)], ["C:" + w.upper()], "(WCond %s)" % coq_str(w), swallows=True, shiftword=w)


def gen_mem(rng, full):
    if rng.random() < 0.25:
        w = rng.choice(SP_WORDS)
        bw, bname, bcoq = w, (w if w in ("sp", "SP") else w[1:]), "(BSp %s)" % coq_str(w)
    else:
        up, n = rng.random() < 0.1, rng.randrange(32)
        bw, bname, bcoq = ("X" if up else "x") + str(n), str(n), "(BX %s %d)" % (cb(up), n)
    toks = [P("["), W(bw)]
    off, ix, scale, sxtx = "-", "-", 1, False
    r = rng.random()
    if r < 0.2:
        tcoq = "MTNone"
    elif r < 0.55:
        h, n = rng.random() < 0.7, gen_num(rng)
        toks += [P(",")] + num_toks(h, n)
        off, tcoq = "i%d" % n.value(), "(MTOff %s %s)" % (cb(h), n.coq())
    else:
        p, k = rng.choice("xxxwwXW"), rng.randrange(32)
        toks += [P(","), W(p + str(k))]
        ecoq, sop, sval = "None", "-", "-"
        if rng.random() < 0.7:
            ops = ["lsl", "uxtw", "sxtw", "uxtb"] + (["sxtx"] if full else [])
            op = rng.choice(ops)
            sxtx = op == "sxtx"
            opw = op.upper() if rng.random() < 0.2 else op
            toks += [P(","), W(opw)]
            sop = op
            am = None
            if rng.random() < 0.8:
                h, n = rng.random() < 0.7, gen_num(rng, small=True, nonneg=True, dec_only=True)
                toks += num_toks(h, n)
                am, sval, scale = (h, n), n.word(), 2 ** n.value()
            ecoq = "(Some (mkwext %s %s))" % (coq_str(opw), copt(am, lambda a: "(%s, %s)" % (cb(a[0]), a[1].coq())))
        ix = "%s~%d~%s~%s" % (p.lower(), k, sop, sval)
        tcoq = "(MTIdx %s %d %s)" % (cchar(p), k, ecoq)
    toks.append(P("]"))
    pre, post, ccoq = "0", "-", "MCNone"
    r = rng.random()
    if r < 0.2:
        toks.append(P("!"))
        pre, ccoq = "1", "MCPre"
    elif r < 0.45:
        h, n = rng.random() < 0.7, gen_num(rng)
        toks += [P(",")] + num_toks(h, n)
        post, ccoq = "%d" % n.value(), "(MCPost %s %s)" % (cb(h), n.coq())
    den = "M:%s,x,%s,%s,%d,%s,%s" % (off, bname, ix, scale, pre, post)
    return Op("mem", toks, [den], "(WMem %s %s %s)" % (bcoq, tcoq, ccoq), sxtx=sxtx)


def gen_ops(rng, full):
    n = rng.choice([0, 1, 1, 2, 2, 2, 3, 3, 3, 4, 4, 5])
    ops = []
    for i in range(n):
        last = i == n - 1
        r = rng.random()
        if last and r < 0.35:
            ops.append(gen_mem(rng, full))
        elif r < 0.65:
            ops.append(gen_regop(rng))
        elif r < 0.72:
            ops.append(gen_list(rng))
        elif r < 0.85:
            ops.append(gen_imm(rng))
        elif r < 0.93 or i == 0:
            ops.append(gen_identop(rng, shifty=full and i > 0 and rng.random() < 0.25))
        else:
            ops.append(gen_cond(rng))
    return ops


COMMENT_CH = "abcdefghijklmnopqrstuvwxyzABCXYZ0123456789 \t#!$%&'()*+,-./:;<=>?@[]^_`{|}~\"\\"


def gen_comment(rng, p=0.3):
    if rng.random() >= p:
        return None
    return "".join(rng.choice(COMMENT_CH) for _ in range(rng.randrange(0, 25)))


def comment_text(raw):
    return " ".join(x for x in raw.replace("\t", " ").replace("\r", " ").split(" ") if x)


class Line:
    """kind, toks, expected canonical string, coq term, wf under the partial / full predicate, tags"""


def gen_line(rng, full=False, kind=None, cfg=NO_FIX):
    """full: draw from the whole language of the property (wline_okb fx_all); partial_ok: the line is in the
    sub-language of configuration cfg (wline_okb cfg) -- the tags name the defect that excludes it"""
    L = Line()
    k = kind or rng.choice(["instr"] * 14 + ["label", "directive", "comment"])
    L.kind = k
    L.tags = set()
    if k == "instr":
        mn = rng.choice(MNEMONICS)
        ops = gen_ops(rng, full)
        c = gen_comment(rng)
        toks = [W(mn)]
        for i, o in enumerate(ops):
            if i:
                toks.append(P(","))
            toks += o.toks
        den = [d for o in ops for d in o.den]
        L.toks = toks + ([("C", c)] if c is not None else [])
        L.expected = "m=S%s|l=N|d=N|o=%s|c=%s" % (mn, ";".join(den), "N" if c is None else "S" + comment_text(c))
        L.coq = "(WLInstr %s [%s] %s)" % (coq_str(mn), "; ".join(o.coq for o in ops), copt(c, coq_str))
        swallow = any(ops[i].swallows and ops[i + 1].shiftword is not None and has_shift_prefix(ops[i + 1].shiftword, cfg)
                      for i in range(len(ops) - 1))
        sxtx = any(o.sxtx for o in ops) and not cfg["sxtx"]
        if swallow:
            L.tags.add("label-with-shift-prefix-after-operand")
        if sxtx:
            L.tags.add("sxtx-extend")
        L.partial_ok = not swallow and not sxtx
        L.opkinds = [o.kind for o in ops]
    elif k == "label":
        n = gen_ident(rng) if rng.random() < 0.8 else rng.choice(["x1", "sp", "ne", "v0.4s", "lsl", "pldl1keep"])
        c = gen_comment(rng)
        L.toks = [W(n), P(":")] + ([("C", c)] if c is not None else [])
        L.expected = "m=N|l=S%s|d=N|o=|c=%s" % (n, "N" if c is None else "S" + comment_text(c))
        L.coq = "(WLLabel %s %s)" % (coq_str(n), copt(c, coq_str))
        L.partial_ok, L.opkinds = True, []
    elif k == "directive":
        n = rng.choice(["text", "align", "p2align", "word", "globl", "type", "size", "cfi_startproc", "L1", "arch", "file"])
        ps = []
        for _ in range(rng.choice([0, 1, 1, 2, 3])):
            r = rng.random()
            ps.append(str(rng.randrange(100)) if r < 0.4 else "0x%x" % rng.randrange(4096) if r < 0.5 else gen_ident(rng))
        c = gen_comment(rng, 0.2)
        toks = [W("." + n)]
        for i, p in enumerate(ps):
            if i:
                toks.append(P(","))
            toks.append(W(p))
        L.toks = toks + ([("C", c)] if c is not None else [])
        L.expected = "m=N|l=N|d=S%s|o=|c=N" % n
        L.coq = "(WLDirective %s [%s] %s)" % (coq_str(n), "; ".join(coq_str(p) for p in ps), copt(c, coq_str))
        L.partial_ok, L.opkinds = True, []
        if c is not None and "," in c and ps and (ps[-1][0].isalpha() or ps[-1][0] == ".") and not cfg["dir"]:
            L.tags.add("directive-comment-with-comma")
            L.partial_ok = False
    else:
        c = gen_comment(rng, 1.0)
        L.toks = [("C", c)]
        L.expected = "m=N|l=N|d=N|o=|c=S%s" % comment_text(c)
        L.coq = "(WLComment %s)" % coq_str(c)
        L.partial_ok, L.opkinds = True, []
    return L


# ------------------------------------------------------------------ layout
WS = ["", "", "", " ", " ", " ", "  ", "\t", " \t ", "\r"]


def tok_str(t):
    return t[1] if t[0] != "C" else "//" + t[1]


def sign_ctx(w):
    return bool(w) and (w[0].isdigit() or w[0] == "-") and w[-1] in "eE"


def clash(prev, t):
    if prev is None:
        return False
    if prev[0] == "W" and t[0] == "W":
        return True
    if prev[0] == "W" and t == ("P", "-"):
        return sign_ctx(prev[1])
    if prev == ("P", "-") and t[0] == "W":
        return t[1][:1].isdigit()
    if prev == ("P", "/") and (t == ("P", "/") or t[0] == "C"):
        return True
    return False


def is_cond_tok(t):
    return t is not None and t[0] == "W" and t[1].lower() in CONDS


def gen_layout(rng, toks, tight=None, cond_tight=None):
    lay, prev = [], None
    style = tight if tight is not None else rng.random()
    if cond_tight is None:
        cond_tight = rng.random() < 0.8
    for t in toks:
        ws = rng.choice(WS) if style < 0.6 else ("" if style < 0.8 else " ")
        if is_cond_tok(prev) and cond_tight:
            ws = ""
        if ws == "" and clash(prev, t):
            ws = rng.choice([" ", "\t", "  "])
        lay.append(ws)
        prev = t
    trail = rng.choice(["", "", " ", "\t ", "\r"])
    if is_cond_tok(prev) and cond_tight:
        trail = ""
    return lay, trail


def cond_spaced(toks, lay, trail):
    """a condition-code word directly followed by white space (the implementation returns an identifier)"""
    for i, t in enumerate(toks):
        if is_cond_tok(t):
            nxt = lay[i + 1] if i + 1 < len(toks) else trail
            if nxt != "":
                return True
    return False


def render(toks, lay, trail):
    s = "".join(w + tok_str(t) for w, t in zip(lay, toks))
    if not (toks and toks[-1][0] == "C"):
        s += trail
    return s


def lay_coq(lay):
    return "[" + "; ".join(coq_str(w) for w in lay) + "]"
