"""C07 helpers: serialisation of operands / entry patterns for Model/Match.v, the independent
Python oracle (kind / admits, written from the property text -- mirrors coq/Model/MatchSpec.v, NOT
the matcher), generators for synthetic models and instructions, and drivers of the real lookup."""
import io
import os
import warnings

W = "*"
X86_CLASSES = ["gpr", "xmm", "ymm", "zmm", "mm", "k"]
A64_PREFIXES = list("xwbhsdqvzp")
A64_SHAPES = list("bhsd")
CCODES = ["EQ", "NE", "CS", "HS", "CC", "LO", "MI", "PL", "VS", "VC", "HI", "LS", "GE", "LT", "GT", "LE", "AL"]


def _cls():
    from osaca.parser.register import RegisterOperand
    from osaca.parser.memory import MemoryOperand
    from osaca.parser.immediate import ImmediateOperand
    from osaca.parser.identifier import IdentifierOperand
    from osaca.parser.condition import ConditionOperand
    from osaca.parser.prefetch import PrefetchOperand
    from osaca.parser.flag import FlagOperand
    return RegisterOperand, MemoryOperand, ImmediateOperand, IdentifierOperand, ConditionOperand, PrefetchOperand, FlagOperand


class Unmodelled(Exception):
    pass


# ------------------------------------------------------------------ Gallina terms
def cs(s):
    if not isinstance(s, str) or any(ord(c) > 126 or ord(c) < 32 for c in s):
        raise Unmodelled("string %r" % (s,))
    return '"' + s.replace('"', '""') + '"'


def copt(s):
    if s is None:
        return "None"
    return "(Some %s)" % cs(s)


def cz(n):
    return "(%d)%%Z" % n


def ser_reg(r):
    for a in (r.name, r.prefix, r.shape, r.lanes):
        if a is not None and not isinstance(a, str):
            raise Unmodelled("register attribute %r" % (a,))
    return "(R %s %s %s %s)" % (copt(r.name), copt(r.prefix), copt(r.shape), copt(r.lanes))


def ser_val(v):
    if v is None:
        return "IVNone"
    if isinstance(v, bool):
        return "IVOther"
    if isinstance(v, int):
        return "(IVInt %s)" % cz(v)
    if isinstance(v, str):
        return "(IVStr %s)" % cs(v)
    return "IVOther"


def ser_operand(o):
    R, M, I, Id, C, P, F = _cls()
    if isinstance(o, R):
        return "(OReg %s)" % ser_reg(o)
    if isinstance(o, M):
        def reg(x):
            if x is None:
                return "None"
            if isinstance(x, R):
                return "(Some %s)" % ser_reg(x)
            raise Unmodelled("operand base/index %r" % (x,))
        if o.offset is None:
            off = "ONone"
        elif isinstance(o.offset, I):
            off = "(OImm %s)" % ser_val(o.offset.value)
        elif isinstance(o.offset, Id):
            off = "OIdent"
        else:
            raise Unmodelled("operand offset %r" % (o.offset,))
        if isinstance(o.scale, bool) or not isinstance(o.scale, int):
            raise Unmodelled("operand scale %r" % (o.scale,))
        if not isinstance(o.pre_indexed, bool):
            raise Unmodelled("operand pre_indexed %r" % (o.pre_indexed,))
        if o.post_indexed is True:
            post = "PostTrue"
        elif o.post_indexed is False:
            post = "PostFalse"
        elif isinstance(o.post_indexed, dict):
            post = "PostDict"
        else:
            raise Unmodelled("operand post_indexed %r" % (o.post_indexed,))
        return "(OMem (M %s %s %s %s %s %s))" % (reg(o.base), off, reg(o.index), cz(o.scale),
                                                 "true" if o.pre_indexed else "false", post)
    if isinstance(o, I):
        if o.imd_type is not None and not isinstance(o.imd_type, str):
            raise Unmodelled("imd_type %r" % (o.imd_type,))
        return "(OImmediate %s %s %s)" % (copt(o.imd_type), ser_val(o.value), "true" if o.identifier is not None else "false")
    if isinstance(o, Id):
        return "OIdentifier"
    if isinstance(o, C):
        if not isinstance(o.ccode, str):
            raise Unmodelled("ccode %r" % (o.ccode,))
        return "(OCond %s)" % cs(o.ccode)
    if isinstance(o, P):
        return "OPrefetch"
    if isinstance(o, dict):
        if W in o:
            return "OWild"
        # the same canonical text as ser_pattern writes for a dict pattern (PRaw): the model compares the two texts
        return "(ODict %s)" % cs(repr(sorted((k, repr(v)) for k, v in o.items())))
    if isinstance(o, (str, int, float, list, tuple)) or o is None:
        raise Unmodelled("operand %r" % (o,))
    return "OOther"


def ser_pattern(p):
    R, M, I, Id, C, P, F = _cls()
    if isinstance(p, R):
        return "(PReg %s)" % ser_reg(p)
    if isinstance(p, M):
        def reg(x):
            if x is None:
                return "MNone"
            if isinstance(x, str):
                return "(MStr %s)" % cs(x)
            if isinstance(x, R):
                return "(MReg %s)" % ser_reg(x)
            raise Unmodelled("entry base/index %r" % (x,))
        if p.offset is None:
            off = "FNone"
        elif isinstance(p.offset, str):
            off = "(FStr %s)" % cs(p.offset)
        elif isinstance(p.offset, Id):
            off = "FIdent"
        else:
            raise Unmodelled("entry offset %r" % (p.offset,))
        if p.scale is None:
            sc = "SNone"
        elif isinstance(p.scale, str):
            sc = "(SStr %s)" % cs(p.scale)
        elif isinstance(p.scale, int) and not isinstance(p.scale, bool):
            sc = "(SInt %s)" % cz(p.scale)
        else:
            raise Unmodelled("entry scale %r" % (p.scale,))

        def flag(x):
            if isinstance(x, bool):
                return "(GBool %s)" % ("true" if x else "false")
            if isinstance(x, str):
                return "(GStr %s)" % cs(x)
            raise Unmodelled("entry pre/post %r" % (x,))
        return "(PMem (MP %s %s %s %s %s %s))" % (reg(p.base), off, reg(p.index), sc, flag(p.pre_indexed), flag(p.post_indexed))
    if isinstance(p, I):
        if p.imd_type is not None and not isinstance(p.imd_type, str):
            raise Unmodelled("entry imd_type %r" % (p.imd_type,))
        return "(PImm %s)" % copt(p.imd_type)
    if isinstance(p, Id):
        return "PIdent"
    if isinstance(p, C):
        if not isinstance(p.ccode, str):
            raise Unmodelled("entry ccode %r" % (p.ccode,))
        return "(PCond %s)" % cs(p.ccode)
    if isinstance(p, P):
        return "PPrefetch"
    if isinstance(p, F):
        return "PFlag"
    if isinstance(p, dict):
        return "(PRaw %s)" % cs(repr(sorted((k, repr(v)) for k, v in p.items())) if W not in p else "{'*': '*'}")
    raise Unmodelled("entry operand %r" % (p,))


def ser_list(items):
    return "[" + "; ".join(items) + "]"


def ser_entry(key, form):
    return "(E %s %s)" % (cs(key), ser_list([ser_pattern(p) for p in form.operands]))


def coq_isa(isa):
    return "X86" if isa == "x86" else "A64"


# ------------------------------------------------------------------ the table the real lookup searches
def flat_table(mm):
    """[(key, InstructionForm)] : every list of instruction_forms_dict, keys in insertion order.
    Forms of one key keep their (file) order, which is all get_instruction depends on."""
    out = []
    for key, forms in mm["instruction_forms_dict"].items():
        for f in forms:
            out.append((key, f))
    return out


def index_of(table, form):
    for i, (_, f) in enumerate(table):
        if f is form:
            return i
    return None


# ------------------------------------------------------------------ independent oracle (property text)
# kind: the classification a user sees.  Tuples, first component = the operand kind.
def x86_class(name):
    if not isinstance(name, str):
        return None
    base = name.rstrip("0123456789").lower()
    if base in ("xmm", "ymm", "zmm", "mm"):
        return base
    if base == "k":
        return "k"
    return "gpr"


def spec_kind(isa, o):
    R, M, I, Id, C, P, F = _cls()
    if isinstance(o, dict) and W in o:
        return ("anyreg",)
    if isinstance(o, R):
        if isa == "x86":
            return ("reg", x86_class(o.name))
        return ("reg", o.prefix, o.shape)
    if isinstance(o, M):
        def rc(r):
            if r is None:
                return None
            return x86_class(r.name) if isa == "x86" else r.prefix
        off = None if o.offset is None else ("imd" if isinstance(o.offset, I) else "id")
        pre = bool(o.pre_indexed) if isa != "x86" else False
        post = bool(o.post_indexed) if isa != "x86" else False
        return ("mem", rc(o.base), off, rc(o.index), o.scale != 1, pre, post)
    if isinstance(o, I):
        if o.identifier is not None and o.value is None:
            return ("label",)
        return ("imd", "int" if isa == "x86" else o.imd_type)
    if isinstance(o, Id):
        return ("label",)
    if isinstance(o, C):
        return ("cond", o.ccode)
    if isinstance(o, P):
        return ("prefetch",)
    return ("foreign",)


def spec_admits(isa, p, k):
    R, M, I, Id, C, P, F = _cls()
    if isinstance(p, R):
        if k[0] == "anyreg":
            return True
        if k[0] != "reg":
            return False
        if isa == "x86":
            return p.name == W or p.name == k[1]
        if not (p.prefix == W or p.prefix == k[1]):
            return False
        if p.shape == W:
            return True
        return p.shape == k[2]
    if isinstance(p, M):
        if k[0] != "mem":
            return False
        _, base, off, index, scaled, pre, post = k

        def regf(pat, have):
            if isinstance(pat, R):
                pat = pat.name if isa == "x86" else pat.prefix
            return pat == W or pat == have
        if not regf(p.base, base):
            return False
        if not (p.offset == W or (p.offset is None and off is None) or (p.offset == "imd" and off == "imd")
                or ((p.offset == "id" or isinstance(p.offset, Id)) and off == "id")):
            return False
        if not regf(p.index, index):
            return False
        if not (p.scale == W or ((p.scale not in (1, None)) == scaled)):      # no scale declared = unscaled
            return False
        if isa != "x86":
            if not (p.pre_indexed == W or p.pre_indexed == pre):
                return False
            if not (p.post_indexed == W or p.post_indexed == post):
                return False
        return True
    if isinstance(p, I):
        if k[0] != "imd":
            return False
        return p.imd_type == k[1] or (isa != "x86" and p.imd_type == W)
    if isinstance(p, Id):
        return k[0] == "label"
    if isinstance(p, C):
        return k[0] == "cond" and (p.ccode == W or p.ccode == k[1])
    if isinstance(p, P):
        return k[0] == "prefetch"
    return False


def wf_pattern(isa, p):
    """the documented vocabulary (DESIGN section 25); everything else is C15's business"""
    R, M, I, Id, C, P, F = _cls()
    if isinstance(p, R):
        if isa == "x86":
            return p.name in X86_CLASSES + [W]
        return p.prefix in A64_PREFIXES + [W] and p.shape in A64_SHAPES + [W, None] and p.lanes is None
    if isinstance(p, M):
        if isa == "x86":
            return (p.base in ("gpr", W, None) and p.index in X86_CLASSES + [W, None]
                    and p.offset in ("imd", "id", W, None) and (p.scale == W or (isinstance(p.scale, int) and not isinstance(p.scale, bool) and p.scale >= 1)))
        return (p.base in A64_PREFIXES + [W] and p.index in A64_PREFIXES + [W, None] and p.offset in ("imd", W, None)
                and (p.scale == W or (isinstance(p.scale, int) and not isinstance(p.scale, bool) and p.scale >= 1))
                and p.pre_indexed in (True, False, W) and p.post_indexed in (True, False, W))
    if isinstance(p, I):
        return p.imd_type == "int" if isa == "x86" else p.imd_type in ("int", "float", "double", W)
    if isinstance(p, C):
        return isa != "x86" and isinstance(p.ccode, str)
    if isinstance(p, P):
        return isa != "x86"
    return isinstance(p, Id)


def wf_operand(isa, o):
    """what the parsers deliver (plus the composition wildcard)"""
    R, M, I, Id, C, P, F = _cls()
    if isinstance(o, dict):
        return W in o
    if isinstance(o, R):
        if isa == "x86":
            return isinstance(o.name, str) and o.name != W and o.name != ""
        return (isinstance(o.prefix, str) and o.prefix in A64_PREFIXES and (o.shape is None or o.shape in A64_SHAPES)
                and (o.lanes is None or (o.shape is not None and W not in o.lanes)))
    if isinstance(o, M):
        for r in (o.base, o.index):
            if r is not None and not wf_operand(isa, r):
                return False
        if isinstance(o.offset, I) and not isinstance(o.offset.value, int):
            return False
        if isa == "x86":
            return o.pre_indexed is False and o.post_indexed is False and o.scale >= 1
        return o.base is not None and o.scale >= 1
    if isinstance(o, I):
        if isa == "x86":
            return o.value is not None and o.identifier is None
        return o.value is not None and o.identifier is None and o.imd_type in ("int", "float", "double")
    if isinstance(o, C) or isinstance(o, P):
        return isa != "x86"
    return isinstance(o, Id)


def spec_entry_admits(isa, form, kinds):
    return len(form.operands) == len(kinds) and all(spec_admits(isa, p, k) for p, k in zip(form.operands, kinds))


def spec_names(isa, mnemonic):
    """the keys under which the documented rule looks, in order"""
    keys = [mnemonic.upper()]
    if isa == "x86" and mnemonic and mnemonic[-1] in "bswlqt":
        keys.append(mnemonic[:-1].upper())
    if isa == "aarch64" and "." in mnemonic:
        keys.append(mnemonic.split(".")[0].upper())
    return keys


def spec_lookup(isa, table, mnemonic, ops):
    """index the documented rule selects, or None"""
    kinds = [spec_kind(isa, o) for o in ops]
    for key in spec_names(isa, mnemonic):
        for i, (k, f) in enumerate(table):
            if k == key and spec_entry_admits(isa, f, kinds):
                return i
    return None


# ------------------------------------------------------------------ operands instantiating a pattern
def instantiate(isa, p, rng=None):
    """an operand object of exactly the kind the pattern declares (rng: vary the free choices)"""
    R, M, I, Id, C, P, F = _cls()
    pick = (lambda l: rng.choice(l)) if rng else (lambda l: l[0])
    if isinstance(p, R):
        if isa == "x86":
            c = p.name if p.name in X86_CLASSES else pick(["gpr", "xmm"]) if p.name == W else None
            if c is None:
                return None
            nm = {"gpr": pick(["rax", "ecx", "r10d", "r15", "bl", "rsp"]), "k": pick(["k1", "k7"]),
                  "mm": pick(["mm1", "mm7"])}.get(c) or c + pick(["0", "7", "15", "31"])
            return R(name=nm)
        if p.prefix is None or (p.prefix != W and p.prefix not in A64_PREFIXES):
            return None
        pre = pick(["x", "w", "d", "v", "z"]) if p.prefix == W else p.prefix
        if p.shape == W:
            sh = pick(A64_SHAPES) if pre in "vzp" else None
        else:
            sh = p.shape
        lanes = None
        if pre == "v" and sh is not None:
            lanes = {"b": "16", "h": "8", "s": "4", "d": "2"}.get(sh)
        return R(name=pick(["0", "1", "17", "30"]), prefix=pre, shape=sh, lanes=lanes)
    if isinstance(p, M):
        def mk(pat, names, default):
            if pat is None:
                return None
            if isinstance(pat, R):
                pat = pat.name if isa == "x86" else pat.prefix
            if isa == "x86":
                c = default if pat == W else pat
                if c == "gpr":
                    return R(name=pick(names))
                if c in X86_CLASSES:
                    return R(name=c + "2")
                return False
            pre = default if pat == W else pat
            if pre not in A64_PREFIXES:
                return False
            return R(name=pick(["1", "2", "29"]), prefix=pre)
        need_index = isinstance(p.scale, int) and not isinstance(p.scale, bool) and p.scale != 1
        if isa == "x86":
            base = mk(p.base, ["rax", "rbp", "r9", "rip"], "gpr")
            index = mk(p.index, ["rbx", "r11"], "gpr") if p.index != W or need_index or pick([0, 1]) else None
        else:
            base = mk(p.base, None, "x")
            index = mk(p.index, None, "x") if p.index != W or need_index or pick([0, 1]) else None
        if base is False or index is False:
            return None
        if p.offset == "imd" or (p.offset == W and pick([0, 1])):
            off = I(value=pick([8, 0, -16, 4096]))
        elif p.offset == "id" or isinstance(p.offset, Id):
            off = Id(name="lbl")
        elif p.offset is None or p.offset == W:
            off = None
        else:
            return None
        if p.scale == W:
            sc = pick([1, 2, 8]) if index is not None else 1
        elif isinstance(p.scale, int) and not isinstance(p.scale, bool):
            sc = p.scale
        elif p.scale is None:
            sc = 1                                  # no scale declared = unscaled
        else:
            return None
        if sc != 1 and index is None:
            return None                             # a scaled access has an index register
        if isa == "x86":
            return M(base=base, offset=off, index=index, scale=sc)

        def fl(x):
            return pick([True, False]) if x == W else x
        pre_i, post_i = fl(p.pre_indexed), fl(p.post_indexed)
        if not isinstance(pre_i, bool) or not isinstance(post_i, bool):
            return None
        if post_i and rng and rng.random() < 0.5:
            post_i = {"value": 16}
        return M(base=base, offset=off, index=index, scale=sc, pre_indexed=pre_i, post_indexed=post_i)
    if isinstance(p, I):
        if isa == "x86":
            return I(value=pick([1, 0, 255])) if p.imd_type == "int" else None
        t = pick(["int", "float", "double"]) if p.imd_type == W else p.imd_type
        if t not in ("int", "float", "double"):
            return None
        return I(imd_type=t, value=pick([1, 42]) if t == "int" else {"mantissa": "1.5", "e_sign": "+", "exponent": "0"})
    if isinstance(p, Id):
        return Id(name=pick(["lbl", ".L3"]))
    if isinstance(p, C):
        if isa == "x86" or not isinstance(p.ccode, str):
            return None
        return C(ccode=pick(CCODES) if p.ccode == W else p.ccode)
    if isinstance(p, P):
        return None if isa == "x86" else P(type_id="pld", target="l1", policy="keep")
    return None


def instantiate_all(isa, form, rng=None):
    ops = [instantiate(isa, p, rng) for p in form.operands]
    return None if any(o is None for o in ops) else ops


# ------------------------------------------------------------------ random operands / near misses
def random_operand(isa, rng, wild=0.03, odd=0.04):
    R, M, I, Id, C, P, F = _cls()
    r = rng.random()
    if r < wild:
        return {"*": "*"}
    if r < wild + odd:
        return rng.choice([F(name="CF"), {"class": "register", "name": "gpr"}, R(name=None, prefix=None),
                           I(identifier={"name": "x"}), I(imd_type=None, value=3), I(imd_type="int", value=None),
                           C(ccode="EQ"), P(type_id="pld", target="l1", policy="keep"), R(name=W, prefix=W)])
    if isa == "x86":
        def reg():
            return R(name=rng.choice(["rax", "eax", "ax", "al", "ah", "r8", "r9d", "r15w", "r11b", "rsp", "rip", "cl",
                                      "xmm0", "xmm15", "XMM3", "ymm5", "ymm31", "zmm0", "zmm31", "mm3", "MM0",
                                      "k1", "k7", "K2", "st", "cs", "RAX"]))
        kind = rng.choice(["reg"] * 5 + ["mem"] * 4 + ["imd"] * 2 + ["id"])
        if kind == "reg":
            return reg()
        if kind == "mem":
            base = rng.choice([None, R(name="rax"), R(name="rbp"), R(name="rip"), R(name="r12"), R(name="xmm1")])
            index = rng.choice([None, None, R(name="rbx"), R(name="r9"), R(name="xmm2"), R(name="ymm3"), R(name="zmm4")])
            off = rng.choice([None, I(value=8), I(value=0), I(value=-4), Id(name="lbl"), I(value="0"), I(value="sym+4")])
            sc = rng.choice([1, 1, 2, 4, 8]) if index is not None else rng.choice([1, 1, 1, 8])
            return M(base=base, offset=off, index=index, scale=sc)
        if kind == "imd":
            return I(value=rng.choice([0, 1, 255, -1]))
        return Id(name="lbl")
    kind = rng.choice(["reg"] * 6 + ["mem"] * 4 + ["imd"] * 2 + ["id", "cc", "prf"])
    if kind == "reg":
        pre = rng.choice(list("xxwwbhsdqvvzzp"))
        sh, lanes = None, None
        if pre in "vzp" and rng.random() < 0.8:
            sh = rng.choice(A64_SHAPES)
            if pre == "v" and rng.random() < 0.7:
                lanes = {"b": "16", "h": "8", "s": "4", "d": "2"}[sh]
        elif rng.random() < 0.03:
            lanes = "4"
        return R(name=rng.choice(["0", "1", "30", "sp"]), prefix=pre, shape=sh, lanes=lanes)
    if kind == "mem":
        base = R(name=rng.choice(["1", "sp", "29"]), prefix=rng.choice(["x", "x", "x", "w"]))
        index = rng.choice([None, None, R(name="2", prefix="x"), R(name="3", prefix="w"), R(name="4", prefix="z"), R(name="5", prefix=None)])
        off = rng.choice([None, I(value=8), I(value=0), Id(name="lbl")])
        sc = rng.choice([1, 1, 2, 4, 8, 16]) if index is not None else 1
        pre = rng.random() < 0.2
        post = False if pre else rng.choice([False, False, True, {"value": 16}, {"prefix": "x", "name": "3"}])
        return M(base=base, offset=off, index=index, scale=sc, pre_indexed=pre, post_indexed=post)
    if kind == "imd":
        t = rng.choice(["int", "int", "float", "double"])
        return I(imd_type=t, value=7 if t == "int" else {"mantissa": "1.0", "e_sign": "+", "exponent": "0"})
    if kind == "id":
        return Id(name="lbl")
    if kind == "cc":
        return C(ccode=rng.choice(CCODES))
    return P(type_id="pld", target="l1", policy="keep")


def flip_displacement_kind(ops):
    """the operand list with the first memory operand's displacement kind flipped (immediate <-> identifier); None if there is none"""
    R, M, I, Id, C, P, F = _cls()
    for i, o in enumerate(ops):
        if isinstance(o, M) and isinstance(o.offset, (I, Id)):
            off = Id(name="sym") if isinstance(o.offset, I) else I(value=8)
            out = list(ops)
            out[i] = M(base=o.base, offset=off, index=o.index, scale=o.scale, pre_indexed=o.pre_indexed, post_indexed=o.post_indexed)
            return out
    return None


def near_miss(isa, ops, rng):
    """one operand's kind / width / shape changed, or the count changed"""
    R, M, I, Id, C, P, F = _cls()
    ops = list(ops)
    r = rng.random()
    if not ops or r < 0.15:
        ops.insert(rng.randrange(len(ops) + 1), random_operand(isa, rng, wild=0, odd=0))
        return ops
    if r < 0.3:
        del ops[rng.randrange(len(ops))]
        return ops
    i = rng.randrange(len(ops))
    o = ops[i]
    if isinstance(o, R) and rng.random() < 0.8:
        if isa == "x86":
            ops[i] = R(name=rng.choice(["rax", "xmm1", "ymm1", "zmm1", "mm1", "k1", "r8d"]))
        else:
            ops[i] = R(name=o.name, prefix=rng.choice(A64_PREFIXES) if rng.random() < 0.5 else o.prefix,
                       shape=rng.choice(A64_SHAPES + [None]), lanes=o.lanes)
    elif isinstance(o, M) and rng.random() < 0.8:
        base, index, off, sc, pre, post = o.base, o.index, o.offset, o.scale, o.pre_indexed, o.post_indexed
        what = rng.choice(["base", "index", "off", "scale", "pre", "post"])
        if what == "base":
            base = rng.choice([None, R(name="xmm1")]) if isa == "x86" else R(name="1", prefix=rng.choice("xw"))
        elif what == "index":
            index = (None if index is not None else (R(name="rbx") if isa == "x86" else R(name="2", prefix=rng.choice("xwz"))))
        elif what == "off":
            off = rng.choice([None, I(value=8), Id(name="lbl")])
        elif what == "scale":
            sc = rng.choice([1, 2, 8])
        elif what == "pre" and isa != "x86":
            pre = not pre
        elif isa != "x86":
            post = rng.choice([False, True, {"value": 8}])
        ops[i] = M(base=base, offset=off, index=index, scale=sc, pre_indexed=pre, post_indexed=post)
    elif isinstance(o, I) and isa != "x86" and rng.random() < 0.6:
        t = rng.choice(["int", "float", "double"])
        ops[i] = I(imd_type=t, value=7 if t == "int" else {"mantissa": "1.0", "e_sign": "+", "exponent": "0"})
    elif isinstance(o, C) and rng.random() < 0.7:
        ops[i] = C(ccode=rng.choice(CCODES))
    else:
        ops[i] = random_operand(isa, rng, wild=0.05, odd=0.02)
    return ops


# ------------------------------------------------------------------ random entry patterns (YAML dict form)
def random_pattern_dict(isa, rng, odd=0.04):
    r = rng.random()
    if r < odd:
        return rng.choice([{"class": "flag", "name": "CF"}, {"class": "weird", "name": "x"},
                           {"class": "register", "name": "ximm"} if isa == "x86" else {"class": "register", "prefix": "have"},
                           {"class": "register"}, {"class": "immediate", "imd": "float" if isa == "x86" else "long"},
                           {"class": "condition", "ccode": "eq"}, {"class": "prfop", "type": "*", "target": "*", "policy": "*"}])
    if isa == "x86":
        kind = rng.choice(["reg"] * 5 + ["mem"] * 4 + ["imd"] * 2 + ["id"])
        if kind == "reg":
            d = {"class": "register", "name": rng.choice(X86_CLASSES + ["gpr", "xmm", W])}
            if rng.random() < 0.1:
                d["mask"] = True
            return d
        if kind == "mem":
            return {"class": "memory",
                    "base": rng.choice(["gpr", "gpr", W, W, None, {"name": "gpr"}]),
                    "offset": rng.choice(["imd", W, W, None, "id"]),
                    "index": rng.choice(["gpr", W, W, None, None, "xmm", {"name": "gpr"}]),
                    "scale": rng.choice([1, 1, W, W, 8, 2, None])}
        if kind == "imd":
            return {"class": "immediate", "imd": "int"}
        return {"class": "identifier"}
    kind = rng.choice(["reg"] * 6 + ["mem"] * 4 + ["imd"] * 2 + ["id", "cc", "prf"])
    if kind == "reg":
        pre = rng.choice(A64_PREFIXES + ["x", "w", "v", "z", W, W])
        d = {"class": "register", "prefix": pre}
        if pre in ("v", "z", "p", W) and rng.random() < 0.75:
            d["shape"] = rng.choice(A64_SHAPES + [W, W])
        elif rng.random() < 0.03:
            d["shape"] = rng.choice(A64_SHAPES)
        return d
    if kind == "mem":
        return {"class": "memory",
                "base": rng.choice(["x", "x", "x", "w", W]),
                "offset": rng.choice(["imd", W, W, None]),
                "index": rng.choice(["x", "z", "w", W, W, None, None]),
                "scale": rng.choice([1, 1, W, W, None, 2, 8]),
                "pre_indexed": rng.choice([True, False, False, W]),
                "post_indexed": rng.choice([True, False, False, W])}
    if kind == "imd":
        return {"class": "immediate", "imd": rng.choice(["int", "int", "float", "double", W])}
    if kind == "id":
        return {"class": "identifier"}
    if kind == "cc":
        return {"class": "condition", "ccode": rng.choice([c.lower() for c in CCODES] + CCODES + [W, W, W])}
    return {"class": "prfop", "type": "pld", "target": "l1", "policy": "keep"}


X86_NAMES = ["add", "addq", "vaddpd", "mov", "movq", "movl", "kmovw", "shl", "jne", "cmovs", "bt", "bts", "vfmadd231pd", "lea", "sub"]
A64_NAMES = ["add", "fadd", "ldr", "str", "ld1d", "b.ne", "b", "b.eq", "csel", "fmla", "fmla.s", "prfm", "whilelo", "mov", "ldp"]


def random_model_yaml(isa, rng):
    """YAML text of a synthetic machine model (goes through the repo's loader: upper-casing, alias
    expansion, operand_to_class) with duplicate and shadowing entries"""
    import ruamel.yaml
    names = rng.sample(X86_NAMES if isa == "x86" else A64_NAMES, rng.randint(3, 7))
    forms = []
    for nm in names:
        pats = []
        for _ in range(rng.randint(1, 6)):
            n_ops = rng.choice([0, 1, 2, 2, 2, 3, 3, 4])
            ops = [random_pattern_dict(isa, rng) for _ in range(n_ops)]
            pats.append(ops)
            r = rng.random()
            if r < 0.12:
                pats.append([dict(o) for o in ops])                         # duplicate
            elif r < 0.3 and ops:
                gen = [dict(o) for o in ops]                                  # a more general form that shadows / is shadowed
                j = rng.randrange(len(gen))
                if gen[j]["class"] == "register":
                    gen[j] = {"class": "register", "name": W} if isa == "x86" else {"class": "register", "prefix": W, "shape": W}
                elif gen[j]["class"] == "memory":
                    for k in ("base", "offset", "index", "scale"):
                        gen[j][k] = W
                    if isa != "x86":
                        gen[j]["pre_indexed"] = gen[j]["post_indexed"] = W
                pats.insert(rng.randrange(len(pats) + 1), gen)
        for ops in pats:
            spell = rng.choice([nm, nm.upper(), nm.capitalize()])
            name = spell
            if rng.random() < 0.08:
                other = rng.choice(names)
                name = [spell, other]                                          # alias list
            forms.append({"name": name, "operands": ops, "throughput": 1.0, "latency": 1.0, "port_pressure": [[1, "0"]]})
    rng.shuffle(forms) if rng.random() < 0.3 else None
    data = {"osaca_version": "0.0", "micro_architecture": "synthetic", "arch_code": "syn", "isa": rng.choice([isa, isa.upper()]) if isa == "x86" else rng.choice(["aarch64", "AArch64"]),
            "hidden_loads": False, "ports": ["0", "1"], "port_model_scheme": "", "load_latency": {},
            "load_throughput": [], "load_throughput_default": [], "store_throughput": [], "store_throughput_default": [],
            "instruction_forms": forms}
    y = ruamel.yaml.YAML()
    y.default_flow_style = None
    buf = io.StringIO()
    y.dump(data, buf)
    return buf.getvalue()


def add_inprocess_entries(mm, isa, rng):
    """entries as the importers / set_instruction create them: operand objects built directly
    (lanes, RegisterOperand base, IdentifierOperand offset ...); stored under an upper-case key"""
    from osaca.parser.instruction_form import InstructionForm
    R, M, I, Id, C, P, F = _cls()
    keys = list(mm["instruction_forms_dict"].keys())
    if not keys:
        return
    for _ in range(rng.randint(0, 3)):
        key = rng.choice(keys)
        if isa == "x86":
            ops = [rng.choice([R(name="xmm"), R(name="gpr"), M(base="gpr", offset=Id(name="l"), index=None, scale=1),
                               M(base=R(name="gpr"), offset=None, index=R(name="gpr"), scale=W), I(imd_type="int"),
                               {"class": "register", "name": "gpr"}, R(name=None)]) for _ in range(rng.randint(1, 3))]
        else:
            ops = [rng.choice([R(prefix="v", shape="s", lanes="4"), R(prefix="v", shape=None, lanes="2"), R(prefix="v", shape=W, lanes=W),
                               M(base="x", offset=Id(name="l"), index=None, scale=1, pre_indexed=False, post_indexed=False),
                               M(base="x", offset=W, index=R(name="2", prefix="x"), scale=W, pre_indexed=W, post_indexed="yes"),
                               I(imd_type=None), C(ccode="eq"), R(prefix="x")]) for _ in range(rng.randint(1, 3))]
        form = InstructionForm(mnemonic=key, operands=ops, throughput=1.0, latency=1.0, port_pressure=[[1, "0"]])
        lst = mm["instruction_forms_dict"][key]
        lst.insert(rng.randrange(len(lst) + 1), form)


def spellings(isa, key, rng):
    """mnemonics as an assembly file could spell them, around a table key"""
    low = key.lower()
    out = [low, key, low.capitalize()]
    if isa == "x86":
        out += [low + s for s in "bwlqst"] + [low + "x", key + "Q", low[:-1] if len(low) > 1 else low]
    else:
        out += [low + ".ne", low + ".4s", low.split(".")[0], low + ".", key + ".EQ"]
    return rng.choice(out)


# ------------------------------------------------------------------ the real lookup, through the real fall-back code
class Recorder:
    """wraps model.get_instruction on one model object and records (name, operands, result)"""

    def __init__(self, mm):
        self.calls = []
        self.mm = mm
        real = type(mm).get_instruction

        def rec(name, operands, _real=real, _mm=mm, _calls=self.calls):
            try:
                r = _real(_mm, name, operands)
            except Exception as e:
                _calls.append((name, operands, e))
                raise
            _calls.append((name, operands, r))
            return r
        mm.get_instruction = rec

    def reset(self):
        del self.calls[:]

    def remove(self):
        try:
            del self.mm.get_instruction
        except AttributeError:
            pass


def real_lookup_tp_lt(sem, rec, mnemonic, ops):
    """run ArchSemantics.assign_tp_lt on one instruction; returns (result, extra_calls)
    result: InstructionForm | None | Exception ; extra_calls: lookups of the composition path"""
    from osaca.parser.instruction_form import InstructionForm
    form = InstructionForm(mnemonic=mnemonic, operands=ops, line="synthetic", line_number=1)
    form.semantic_operands = {"source": [], "destination": [], "src_dst": []}
    rec.reset()
    err = None
    with warnings.catch_warnings():
        warnings.simplefilter("ignore")
        try:
            sem.assign_tp_lt(form)
        except Exception as e:
            err = e
    return _digest(rec.calls, ops, err), form


def real_lookup_src_dst(sem, rec, mnemonic, ops):
    from osaca.parser.instruction_form import InstructionForm
    form = InstructionForm(mnemonic=mnemonic, operands=ops, line="synthetic", line_number=1)
    rec.reset()
    err = None
    with warnings.catch_warnings():
        warnings.simplefilter("ignore")
        try:
            sem.assign_src_dst(form)
        except Exception as e:
            err = e
    return _digest(rec.calls, ops, err), form


def _digest(calls, ops, err):
    main = [c for c in calls if c[1] is ops]
    extra = [c for c in calls if c[1] is not ops]
    result = None
    for name, _, r in main:
        if isinstance(r, Exception):
            result = r
            break
        if r is not None:
            result = r
            break
    if result is None and err is not None and not main:
        result = err
    if result is None and err is not None and isinstance(err, IndexError) and len(main) == 1:
        result = err          # mnemonic[-1] on an empty mnemonic
    return result, main, extra, err


# ------------------------------------------------------------------ compact text (messages, replays)
def show(o):
    R, M, I, Id, C, P, F = _cls()
    if isinstance(o, R):
        s = "reg(" + ",".join("%s=%s" % (k, v) for k, v in (("name", o.name), ("prefix", o.prefix), ("shape", o.shape), ("lanes", o.lanes)) if v is not None) + ")"
        return s
    if isinstance(o, M):
        def f(x):
            return show(x) if not isinstance(x, (str, int, bool, type(None), dict)) else repr(x)
        return "mem(base=%s,offset=%s,index=%s,scale=%r,pre=%r,post=%r)" % (f(o.base), f(o.offset), f(o.index), o.scale, o.pre_indexed, o.post_indexed)
    if isinstance(o, I):
        return "imd(type=%r,value=%r%s)" % (o.imd_type, o.value, ",ident" if o.identifier is not None else "")
    if isinstance(o, Id):
        return "ident"
    if isinstance(o, C):
        return "cond(%s)" % o.ccode
    if isinstance(o, P):
        return "prfop"
    if isinstance(o, F):
        return "flag"
    return repr(o)


def show_ops(ops):
    return "[" + ", ".join(show(o) for o in ops) + "]"


# ------------------------------------------------------------------ JSON form of operands (replay files)
def op_to_json(o):
    R, M, I, Id, C, P, F = _cls()
    if isinstance(o, R):
        return {"c": "reg", "name": o.name, "prefix": o.prefix, "shape": o.shape, "lanes": o.lanes}
    if isinstance(o, M):
        def f(x):
            return op_to_json(x) if isinstance(x, (R, I, Id)) else x
        return {"c": "mem", "base": f(o.base), "offset": f(o.offset), "index": f(o.index), "scale": o.scale,
                "pre": o.pre_indexed, "post": o.post_indexed}
    if isinstance(o, I):
        return {"c": "imd", "type": o.imd_type, "value": o.value, "identifier": o.identifier}
    if isinstance(o, Id):
        return {"c": "id", "name": o.name}
    if isinstance(o, C):
        return {"c": "cc", "ccode": o.ccode}
    if isinstance(o, P):
        return {"c": "prf"}
    if isinstance(o, F):
        return {"c": "flag", "name": o.name}
    if isinstance(o, dict):
        return {"c": "dict", "d": o}
    return {"c": "other", "repr": repr(o)}


def op_from_json(d):
    R, M, I, Id, C, P, F = _cls()
    if not isinstance(d, dict) or "c" not in d:
        return d
    c = d["c"]
    if c == "reg":
        return R(name=d["name"], prefix=d["prefix"], shape=d["shape"], lanes=d["lanes"])
    if c == "mem":
        return M(base=op_from_json(d["base"]), offset=op_from_json(d["offset"]), index=op_from_json(d["index"]),
                 scale=d["scale"], pre_indexed=d["pre"], post_indexed=d["post"])
    if c == "imd":
        return I(imd_type=d["type"], value=d["value"], identifier=d["identifier"])
    if c == "id":
        return Id(name=d["name"])
    if c == "cc":
        return C(ccode=d["ccode"])
    if c == "prf":
        return P(type_id="pld", target="l1", policy="keep")
    if c == "flag":
        return F(name=d["name"])
    if c == "dict":
        return d["d"]
    return None
