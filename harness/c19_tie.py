"""Translator tie (T) of C19 / C16 for the CONTROL FLOW of KernelDG.check_for_loopcarried_dep (multi-process / timed search
and sequential timed search): tools/gen_c19.py regenerates coq/Gen/LcdCtl.v from the CURRENT kernel_dg.py with the operating
system / multiprocessing / clock / generator calls as an oracle (coq/Model/PyProc.v); this module

  (1) compiles it and the theorem files PropsGen/C19gen.v / PropsGen/C16ctl.v against it (regenerated = functional reading
      Model/ProcCtl.ref_search for every oracle, by conversion; Proofs/ProcCtl.v: = Model.Timeout.run_parallel / run_sequential
      in their worlds, = Model.Parallel.lcd_sequential in the world of sections and schedules; log theorems for every oracle);
  (2) cross-checks the translator against CPython: every recorded run of the real multi-process search (harness/lcd_par.py:
      start / time / is_alive / sleep / kill / join / read_shared events) is REPLAYED -- the regenerated function, run by Coq on
      the recorded oracle answers (clock readings, is_alive results, worker count), must reproduce the recorded event
      sequence, event by event, consume exactly the recorded answers and return the recorded flag; every recorded run of the
      sequential search (harness/c19_seq.py) must be reproduced by the regenerated function in the world of its clock readings.

coq/Gen/LcdCtl.v(o) is shared by the C16 and the C19 check (and by runs on other trees, VERIF_REPO): everything that writes or
reads it happens under one file lock.
"""
import contextlib
import fcntl
import os
import re
import time

import vlib
import gen_c19

GEN = os.path.join(vlib.COQ, "Gen")
PAR = []        # (name, job, result of lcd_par.analyse) of runs that took the multi-process branch
SEQ = []        # (name, job, result of c19_seq.analyse, rule)


def note_parallel(name, job, r):
    if isinstance(r, dict) and "error" not in r and r.get("parallel") and r.get("events"):
        PAR.append((name, job, r))


def note_sequential(name, job, r):
    if isinstance(r, dict) and "error" not in r and "readings" in r and "ref_total" in r:
        SEQ.append((name, job, r))


@contextlib.contextmanager
def locked():
    os.makedirs(os.path.join(vlib.VERIF, ".cache"), exist_ok=True)
    with open(os.path.join(vlib.VERIF, ".cache", "gen_c19.lock"), "w") as lf:
        fcntl.flock(lf, fcntl.LOCK_EX)
        try:
            yield
        finally:
            fcntl.flock(lf, fcntl.LOCK_UN)


def regenerate(ctx, quiet=False):
    ok, text, ex = gen_c19.generate(vlib.REPO, GEN)
    if not quiet:
        ctx.obligation("translate the control flow of check_for_loopcarried_dep (process creation, start, join-all, poll loop with "
                       "while...else, kill, read of the shared list; sequential deadline loop) from the current kernel_dg.py (tools/gen_c19.py)",
                       "translation", ok, "" if ok else text)
    if not ok:
        return False
    c, out, dt = ctx.coqc(os.path.join(GEN, "LcdCtl.v"))
    if not quiet:
        ctx.obligation("generated LcdCtl.v type-checks", "translation", c, out)
    return c


def theorems(ctx, gen_ok, relpath):
    names = re.findall(r"^(?:Theorem|Corollary)\s+([A-Za-z0-9_']+)", open(os.path.join(vlib.COQ, relpath)).read(), re.M)
    if not gen_ok:
        for n in names:
            ctx.obligation("theorem %s (%s)" % (n, relpath), "theorem", False, "generated definitions unavailable (translator failed closed)")
        return False
    vfile = os.path.join(vlib.COQ, relpath)
    good, out, dt = ctx.coqc(vfile, 600)
    if not good and "inconsistent assumptions" in out:
        regenerate(ctx, quiet=True)         # a library underneath was rebuilt after the generated file was compiled
        good, out, dt = ctx.coqc(vfile, 600)
    ctx.obligation("%s compiles against the regenerated control flow" % relpath, "theorem", good, "" if good else out)
    for n in names:
        ctx.obligation("theorem %s (%s)" % (n, relpath), "theorem", good, "" if good else out[-600:])
    if good:
        ctx.print_assumptions[relpath] = vlib.parse_assumptions(out)
    ctx.log("coqc %s: %s in %.1fs (%d theorems)" % (relpath, "ok" if good else "FAILED", dt, len(names)))
    return good


# ------------------------------------------------------------------ replay of recorded runs of the multi-process search
REPLAY_PRELUDE = """From Coq Require Import ZArith List Bool String.
From OV Require Import Model.PyString Model.Parallel Model.Timeout Model.PyProc Model.ProcCtl Gen.LcdCtl.
Import ListNotations.
Open Scope Z_scope.
Inductive rec := RS (i : nat) | RT (t : Z) | RA (i : nat) (b : bool) | RZ (d : Z) | RK (i : nat) | RJ (i : nat) | RR.
Definition rec_eqb (a b : rec) : bool :=
  match a, b with
  | RS i, RS j | RK i, RK j | RJ i, RJ j => Nat.eqb i j
  | RT t, RT u | RZ t, RZ u => t =? u
  | RA i x, RA j y => Nat.eqb i j && Bool.eqb x y
  | RR, RR => true
  | _, _ => false
  end.
Fixpoint recs_eqb (a b : list rec) : bool :=
  match a, b with [], [] => true | x :: a', y :: b' => rec_eqb x y && recs_eqb a' b' | _, _ => false end.
(* the calls the harness records (the creation of the manager, its list and the Process objects is not instrumented) *)
Definition conv (e : event nat nat nat) : list rec :=
  match e with
  | EvStart p => [RS p] | EvNow t => [RT t] | EvAlive p b => [RA p b] | EvSleep d => [RZ d]
  | EvKill p => [RK p] | EvJoin p => [RJ p] | EvRead _ => [RR] | _ => []
  end.
(* the regenerated search on the recorded answers: same calls in the same order, every recorded answer used, same flag *)
Definition replays (cpu : Z) (times : list Z) (alive : list bool) (T : Z) (klen : nat) (expected : list rec) (flag : bool) : bool :=
  match g_lcd_search (logged (@replay_oracle nat nat)) (S (S (List.length times))) (seq 0 klen) T false []
                     (mkanswers cpu times alive [] [] 0%nat, []) with
  | WOk (f, _) (a, log) =>
      recs_eqb (flat_map conv (rev log)) expected && Bool.eqb f flag &&
      match an_times a, an_alive a with [], [] => true | _, _ => false end
  | WStuck _ _ => false
  end.
Definition nonempty (l : list rec) : bool := match l with [] => false | _ => true end.
"""


def replay_case(r):
    """(Coq term, reason to skip) for one recorded run"""
    ev = r["events"]
    pids = [e["pid"] for e in ev if e["ev"] == "start"]
    idx = {p: i for i, p in enumerate(pids)}
    T = r["timeout"]
    T_us = -1 if T == -1 else int(round(T * 10 ** 6))
    recs, times, alive = [], [], []
    for e in ev:
        k = e["ev"]
        if k in ("is_alive", "kill", "join") and e["pid"] not in idx:
            return None, "event for a process that was never started"
        if k == "start":
            recs.append("RS %d" % idx[e["pid"]])
        elif k == "time":
            recs.append("RT (%d)" % e["us"])
            times.append(e["us"])
        elif k == "is_alive":
            recs.append("RA %d %s" % (idx[e["pid"]], "true" if e["alive"] else "false"))
            alive.append("true" if e["alive"] else "false")
        elif k == "sleep":
            if "d_us" not in e:
                return None, "sleep event without duration"
            recs.append("RZ (%d)" % e["d_us"])
        elif k == "kill":
            recs.append("RK %d" % idx[e["pid"]])
        elif k == "join":
            recs.append("RJ %d" % idx[e["pid"]])
        elif k == "read_shared":
            recs.append("RR")
    # a reading within the clock's resolution of the deadline: float and integer-microsecond comparison may differ
    if T_us >= 0 and times and any(abs((t - times[0]) - T_us) <= 2 for t in times[1:]):
        return None, "clock reading within 2 us of the deadline"
    term = "replays %d [%s] [%s] (%d) %d [%s] %s" % (
        len(pids), "; ".join("(%d)" % t for t in times), "; ".join(alive), T_us, r["klen"], "; ".join(recs), "true" if r["timed_out"] else "false")
    return term, None


def replay_shards(ctx, what):
    from osaca.semantics import KernelDG
    cases, meta, skipped = [], [], {}
    for name, job, r in PAR:
        if r.get("threshold") is not None or r["klen"] < int(KernelDG.INSTRUCTION_THRESHOLD):
            skipped["threshold patched by the harness"] = skipped.get("threshold patched by the harness", 0) + 1
            continue
        term, why = replay_case(r)
        if term is None:
            skipped[why] = skipped.get(why, 0) + 1
            continue
        cases.append(term)
        meta.append((name, job.get("timeout"), job.get("W"), job.get("shim"), job.get("delay")))
    ctx.coverage["control_flow_replay"] = {"runs": len(cases), "skipped": skipped,
                                           "cut_runs": sum(1 for n, j, r in PAR if any(e["ev"] == "kill" for e in r["events"]))}
    if not cases:
        ctx.log("control-flow replay (%s): no recorded multi-process run to replay (skipped: %s)" % (what, skipped))
        return
    body = REPLAY_PRELUDE + "Definition res : list bool := [\n %s ].\n" % ";\n ".join(cases)
    body += 'Definition show := String.concat "" (map (fun b : bool => if b then "1" else "0") res).\nEval vm_compute in show.\n'
    ok, out, dt = ctx.coq_eval("corr_c19_ctl_replay", body, timeout=600)
    good = ok and out and out[0] == "1" * len(cases)
    detail = ""
    if not good:
        detail = out[0][-1500:] if not ok else "runs whose recorded call sequence the regenerated code does not reproduce: %s" % \
            [meta[i] for i, c in enumerate(out[0]) if c != "1"][:8]
    ctx.count(len(cases))
    ctx.obligation("translated definition = CPython: g_lcd_search (regenerated control flow) replayed on the recorded clock readings / is_alive "
                   "answers of %d real multi-process runs reproduces the recorded sequence of start / time / is_alive / sleep / kill / join / "
                   "read events, uses every recorded answer and returns the recorded flag" % len(cases), "correspondence", good, detail)
    ctx.log("control-flow replay (%s): %d runs %s (%.1fs; skipped %s)" % (what, len(cases), "agree" if good else "DISAGREE", dt, skipped))


SEQ_PRELUDE = """From Coq Require Import ZArith List Bool String.
From OV Require Import Model.PyString Model.Parallel Model.Timeout Model.PyProc Model.ProcCtl Gen.LcdCtl.
Import ListNotations.
Open Scope Z_scope.
Fixpoint nl_eqb (a b : list nat) : bool :=
  match a, b with [], [] => true | x :: a', y :: b' => Nat.eqb x y && nl_eqb a' b' | _, _ => false end.
(* one run of the sequential search: the regenerated code in the world of the recorded readings and an enumeration of N paths
   (named 0..N-1) gives the flag, the delivered list = the first k names, and made nread readings after start_time *)
Definition gseq_case (readings : list Z) (T : Z) (N k : nat) (flag : bool) (nread klen : nat) : bool :=
  let clk := fun i : nat => nth i readings (last readings 0 + 1000000000) in
  match g_lcd_search (@soracle clk nat nat) (S (S N)) (seq 0 klen) T false [] (mksw 0 (seq 0 N)) with
  | WOk (f, res) w =>
      Bool.eqb f flag && nl_eqb res (seq 0 k) &&
      Nat.eqb nread (if T =? -1 then 0%nat else if f then sw_n w else (sw_n w - 1)%nat)
  | WStuck _ _ => false
  end.
"""


def seq_shards(ctx):
    cases, meta = [], []
    for name, job, r in SEQ:
        T = job["timeout"]
        T_us = -1 if T == -1 else int(round(T * 10 ** 6))
        reads = r["readings"] if r["readings"] else [0]
        if len(reads) < r["n_readings"]:      # the driver keeps only the first readings of a long run
            continue
        cases.append("gseq_case [%s] (%d) %d %d %s %d %d" % ("; ".join("(%d)" % x for x in reads), T_us, r["ref_total"], r["n_delivered"],
                                                             "true" if r["timed_out"] else "false", max(0, r["n_readings"] - 1), r["klen"]))
        meta.append((name, T, job.get("clock")))
    if not cases:
        return
    body = SEQ_PRELUDE + "Definition res : list bool := [\n %s ].\n" % ";\n ".join(cases)
    body += 'Definition show := String.concat "" (map (fun b : bool => if b then "1" else "0") res).\nEval vm_compute in show.\n'
    ok, out, dt = ctx.coq_eval("corr_c19_ctl_seq", body, timeout=600)
    good = ok and out and out[0] == "1" * len(cases)
    detail = ""
    if not good:
        detail = out[0][-1500:] if not ok else "disagreeing runs: %s" % [meta[i] for i, c in enumerate(out[0]) if c != "1"][:8]
    ctx.count(len(cases))
    ctx.obligation("translated definition = CPython: g_lcd_search (regenerated control flow, sequential branch) in the world of the recorded clock "
                   "readings reproduces timed_out, the delivered prefix and the number of readings of %d real runs below the threshold" % len(cases),
                   "correspondence", good, detail)
    ctx.log("control-flow replay (sequential): %d runs %s (%.1fs)" % (len(cases), "agree" if good else "DISAGREE", dt))
    ctx.coverage["control_flow_replay_sequential"] = len(cases)


# ------------------------------------------------------------------ entry points (one call in checks/c19.py, one in checks/c16.py)
def run(ctx, relpaths, what, sequential=False):
    """Regenerate + compile + theorem file + replay shards, all under the lock.  Returns True iff the source translates and the
    generated file compiles."""
    ctx.trusted += ["tools/gen_c19.py (fail-closed translator of the control flow of check_for_loopcarried_dep into a function over an "
                    "oracle; its output is proved equal to the hand-written functional reading Model/ProcCtl.v and replayed on the recorded "
                    "call sequences of real runs)",
                    "Model/PyProc.v: state monad over an abstract world, loop combinators (while-else with break, lazy for, any), the oracle "
                    "signature; the worlds of Model/ProcCtl.v (what is_alive / kill / join / list(proxy) / the clock mean) are hand-written"]
    t = time.time()
    with locked():
        waited = time.time() - t
        gen_ok = regenerate(ctx)
        for relpath in ([relpaths] if isinstance(relpaths, str) else relpaths):
            theorems(ctx, gen_ok, relpath)
        if gen_ok:
            replay_shards(ctx, what)
            if sequential:
                seq_shards(ctx)
    ctx.coverage["control_flow_tie_s"] = {"waited_for_lock": round(waited, 1), "total": round(time.time() - t, 1)}
    return gen_ok
