"""C15 (b): cost one synthesised instruction per shipped entry with the REAL analysis code.

For an entry of a micro-architecture model an instruction is synthesised from the entry's own operand
pattern (operand objects built directly), then
    ArchSemantics.assign_src_dst, assign_tp_lt, assign_optimal_throughput([form])
run on a one-line kernel.  Must not raise.  If the synthesised operands are matched by an EARLIER entry of
the same mnemonic (first match wins) the entry under test is shadowed; it is then costed through
ArchSemantics._handle_instruction_found(entry, ...) -- the code that consumes a found entry -- followed by
the same balancer call.

usage: python c15_cost.py <data_dir> <arch> <all|i,j,k,...>   -> one JSON line
"""
import json
import sys
import time
import warnings


BALANCE_LIMIT = 200     # cycles of one micro-op above which the (slow) balancer loop is not run


def synth_operand(isa, o):
    from osaca.parser.memory import MemoryOperand
    from osaca.parser.register import RegisterOperand
    from osaca.parser.immediate import ImmediateOperand
    from osaca.parser.identifier import IdentifierOperand
    from osaca.parser.condition import ConditionOperand
    from osaca.parser.prefetch import PrefetchOperand
    from osaca.parser.flag import FlagOperand
    W = "*"
    if isinstance(o, RegisterOperand):
        if isa == "x86":
            n = o.name
            if n in (None, W, "gpr"):
                nm = "rax"
            elif n in ("xmm", "ymm", "zmm", "mm", "k"):
                nm = n + "1"
            else:
                nm = str(n)
            return RegisterOperand(name=nm, mask=("k1" if o.mask is True else None) if o.mask else None)
        p = o.prefix if o.prefix not in (None, W) else "x"
        sh = o.shape if o.shape not in (None, W) else None
        if p in ("v", "z") and sh is None and o.shape == W:
            sh = "d"
        return RegisterOperand(name="1", prefix=p, shape=sh)
    if isinstance(o, MemoryOperand):
        imd = ImmediateOperand(imd_type="int", value=8)
        if isa == "x86":
            def reg(x, nm):
                if x is None:
                    return None
                if isinstance(x, RegisterOperand):
                    x = x.name
                return RegisterOperand(name=nm if x in (W, "gpr") else str(x) + "1")
            base = reg(o.base, "rax")
            index = None if o.index in (None, W) else reg(o.index, "rbx")
            offset = imd if o.offset == "imd" else (IdentifierOperand(name="lbl") if o.offset == "id" else None)
            scale = o.scale if isinstance(o.scale, int) and not isinstance(o.scale, bool) else 1
            return MemoryOperand(base=base, offset=offset, index=index, scale=scale)
        bp = o.base.prefix if isinstance(o.base, RegisterOperand) else o.base
        base = None if bp is None else RegisterOperand(name="1", prefix="x" if bp == W else bp)
        ip = o.index.prefix if isinstance(o.index, RegisterOperand) else o.index
        index = None if ip in (None, W) else RegisterOperand(name="2", prefix=ip)
        offset = imd if o.offset == "imd" else None
        scale = o.scale if isinstance(o.scale, int) and not isinstance(o.scale, bool) else 1
        pre = bool(o.pre_indexed) if o.pre_indexed != W else False
        post = bool(o.post_indexed) if o.post_indexed != W else False
        return MemoryOperand(base=base, offset=offset, index=index, scale=scale, pre_indexed=pre, post_indexed=post)
    if isinstance(o, ImmediateOperand):
        t = o.imd_type if o.imd_type not in (None, W) else "int"
        return ImmediateOperand(imd_type=t, value=1 if t == "int" else 1.0)
    if isinstance(o, IdentifierOperand):
        return IdentifierOperand(name="lbl")
    if isinstance(o, ConditionOperand):
        return ConditionOperand(ccode=o.ccode if o.ccode not in (None, W) else "EQ")
    if isinstance(o, PrefetchOperand):
        return PrefetchOperand(type_id=o.type_id or "pld", target=o.target or "l1", policy=o.policy or "keep")
    if isinstance(o, FlagOperand):
        return FlagOperand(name=o.name)
    raise TypeError("operand of a class the loader does not know: %r" % (o,))


def entries_of(mm):
    """InstructionForm objects in the order of mm['instruction_forms'] (= the order of Gen/Data_<arch>.v)."""
    from collections import Counter
    cur = Counter()
    out = []
    for d in mm["instruction_forms"]:
        nm = d["name"]
        out.append(mm["instruction_forms_dict"][nm][cur[nm]])
        cur[nm] += 1
    return out


def cost_entry(mm, sem, entry):
    """returns (how, None) or (how, 'ExcType: msg')   how in {'matched','shadowed'}"""
    from osaca.parser.instruction_form import InstructionForm
    isa = mm.get_ISA()
    how = "synth"
    try:
        ops = [synth_operand(isa, o) for o in entry.operands]
        form = InstructionForm(mnemonic=entry.mnemonic, operands=ops, line="synth", line_number=1)
        with warnings.catch_warnings():
            warnings.simplefilter("ignore")
            found = mm.get_instruction(entry.mnemonic, ops)
            if found is entry:
                how = "matched"
                sem.assign_src_dst(form)
                sem.assign_tp_lt(form)
            else:
                how = "shadowed"
                form.semantic_operands = {"source": [], "destination": [], "src_dst": []}
                flags = []
                tp, pp, lt, ltw = sem._handle_instruction_found(entry, len(mm["ports"]), form, flags)
                form.flags = flags
                form.throughput, form.latency, form.latency_wo_load = tp, lt, ltw
            if form.throughput == 0.0:
                # get_throughput_sum skips lines with zero throughput, the balancer then has nothing to
                # index; the CLI has the same behaviour, give the line a throughput so that the
                # micro-op loop really runs over this entry's assignment
                form.throughput = 1.0
            kernel = [form]
            uops = form.port_uops if isinstance(form.port_uops, list) else []
            if any(isinstance(u[0], (int, float)) and u[0] > BALANCE_LIMIT for u in uops):
                # the balancer makes int(cycles*100) steps per micro-op (hsw WBINVD: 272381 cycles -> minutes);
                # only its index computation is exercised for such entries
                from operator import itemgetter
                for u in uops:
                    itemgetter(*[mm.get_ports().index(p) for p in list(u[1])])(form.port_pressure)
                how += "-nobalance"
            else:
                sem.assign_optimal_throughput(kernel)
            assert len(form.port_pressure) == len(mm["ports"])
        return how, None
    except Exception as e:
        return how, "%s: %s" % (type(e).__name__, str(e)[:200])


def sweep(arch, which, loader):
    mm, sem = loader(arch)
    es = entries_of(mm)
    idx = range(len(es)) if which == "all" else which
    fails, hows = [], {}
    for i in idx:
        how, err = cost_entry(mm, sem, es[i])
        hows[how] = hows.get(how, 0) + 1
        if err:
            fails.append([i, how, err])
    return {"arch": arch, "n": len(list(idx)), "hows": hows, "fails": fails}


def sweep_isa(arch, loader):
    """every entry of the ISA DB used by `arch`: an instruction synthesised from its pattern goes through
    the real ISASemantics.assign_src_dst (lookup + _apply_found_ISA_data + load/store flags)"""
    from osaca.parser.instruction_form import InstructionForm
    mm, sem = loader(arch)
    isa = mm.get_ISA()
    im = sem._isa_model
    es = entries_of(im)
    fails, hows = [], {}
    for i, e in enumerate(es):
        how = "synth"
        try:
            ops = [synth_operand(isa, o) for o in e.operands]
            form = InstructionForm(mnemonic=e.mnemonic, operands=ops, line="synth", line_number=1)
            how = "matched" if im.get_instruction(e.mnemonic, ops) is e else "shadowed"
            sem.assign_src_dst(form)
            if how == "shadowed":
                sem._apply_found_ISA_data(e, ops)
        except Exception as ex:
            fails.append([i, how, "%s: %s" % (type(ex).__name__, str(ex)[:200])])
        hows[how] = hows.get(how, 0) + 1
    return {"arch": arch, "isa": isa, "n": len(es), "hows": hows, "fails": fails}


if __name__ == "__main__":
    data_dir, arch, which = sys.argv[1:4]
    import os

    def loader(a):
        from osaca.semantics import MachineModel, ArchSemantics
        mm = MachineModel(path_to_yaml=os.path.join(data_dir, a + ".yml"))
        return mm, ArchSemantics(mm, path_to_yaml=os.path.join(data_dir, "isa", mm.get_ISA().lower() + ".yml"))
    t = time.time()
    try:
        if which == "isa":
            res = sweep_isa(arch, loader)
        else:
            res = sweep(arch, "all" if which == "all" else [int(x) for x in which.split(",") if x], loader)
        res["secs"] = round(time.time() - t, 1)
        res["ok"] = True
    except Exception as e:
        import traceback
        res = {"arch": arch, "ok": False, "err": "%s: %s" % (type(e).__name__, e), "trace": traceback.format_exc()[-1500:]}
    print(json.dumps(res))
