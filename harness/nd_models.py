"""Scratch copies of a shipped machine model in which the latencies of a few instruction forms are replaced by NON-DYADIC decimals
(0.1, 0.3, 0.7 ...): what a user model may well contain.  With such weights float addition is not associative, so the order in which the
latencies of a loop-carried dependency are added becomes observable in the last bit (C16: parallel == sequential bit for bit; C14).

ensure(base, repl) writes  <models.data_dir()>/<base>nd<hash>.yml  (once, atomically) and returns that arch name, which
models.load / models.yaml_path then resolve like a shipped one.  The ISA file is the shipped one."""
import hashlib
import os
import re

import models


def arch_name(base, repl):
    h = hashlib.sha1(repr(sorted(repl.items())).encode()).hexdigest()[:8]
    return "%snd%s" % (base, h)


def ensure(base, repl):
    """base: shipped arch (small file); repl: {mnemonic: decimal string} -- every entry of that name gets `latency: <decimal>`"""
    name = arch_name(base, repl)
    dst = models.yaml_path(name)
    if os.path.exists(dst):
        return name
    src = open(models.yaml_path(base)).read().split("\n")
    out = []
    cur = None
    hit = set()
    for line in src:
        m = re.match(r"^- name: (\S+)\s*$", line)
        if m:
            cur = m.group(1).strip("'\"")
        elif re.match(r"^\S", line):
            cur = None
        if cur in repl and re.match(r"^  latency:", line):
            line = "  latency: %s" % repl[cur]
            hit.add(cur)
        out.append(line)
    missing = sorted(set(repl) - hit)
    if missing:
        raise ValueError("model %s has no entry with a latency for %s" % (base, missing))
    tmp = "%s.tmp%d" % (dst, os.getpid())
    with open(tmp, "w") as f:
        f.write("\n".join(out))
    os.replace(tmp, dst)
    return name


def resolve(spec):
    """arch name of a kernel spec: spec["nd"] = {"base": ..., "repl": {...}} asks for a non-dyadic copy"""
    nd = spec.get("nd")
    if nd:
        return ensure(nd["base"], nd["repl"])
    return spec["arch"]
