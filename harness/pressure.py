"""Port-pressure cases for C01/C02: generator, driver of the real implementation, Gallina rendering,
independent oracles (exact fractions)."""
import itertools
import os
from fractions import Fraction as F

import vlib

MODES = ["uniform", "once", "twice"]
CYCLES = [0.25, 0.5, 1, 2, 3, 0.33, 1.5, 1.0, 0.5, 1, 1, 2.0]
# micro-ops whose uniform share cycles/len(ports) is of the order of the 0.01 balancing step (no shipped model has them:
# the smallest shipped share is 6.7 half-steps per micro-op of its instruction): shares of exactly one or two steps are
# drained to an EXACT 0.0 in binary64 (0.02 - 0.01 - 0.01), shares below half a step round to 0.00 at once
CYCLES_TINY = [0.02, 0.04, 0.05, 0.06, 0.08, 0.1, 0.12, 0.03, 0.2, 0.25, 0.5, 1, 2, 0.33, 5, 10]


def flit(x):
    """Python number -> Coq primitive float literal (exact)."""
    x = float(x)
    h = x.hex()
    if h.startswith("-"):
        return "(-%s)%%float" % h[1:]
    return "(%s)%%float" % h


def qlit(x):
    fr = F(x) if not isinstance(x, float) else F(repr(x))
    return "(%d # %d)%%Q" % (fr.numerator, fr.denominator)


# ------------------------------------------------------------------ generator
def gen_ports(rng):
    n = rng.choice([1, 2, 2, 3, 3, 3, 4, 4, 5, 6])
    style = rng.random()
    if style < 0.15 and n >= 3:
        # numeric names whose concatenations collide ('1','3' vs '13'), as in zen3/zen4
        pool = ["1", "2", "3", "12", "13", "23", "0", "10"]
        names = pool[:n] if rng.random() < 0.5 else rng.sample(pool, n)
    elif style < 0.4:
        names = [str(i) for i in range(n)]                       # single characters: usable as "012" strings
    elif style < 0.7:
        names = [str(i) if rng.random() < 0.5 else "%dD" % i for i in range(n)]
    else:
        names = ["P%d%s" % (i, rng.choice(["", "A", "DV"])) for i in range(n)]
    return names


def gen_uop(rng, ports, cycles=None):
    k = rng.randint(1, len(ports))
    ps = rng.sample(ports, k)
    if rng.random() < 0.5:
        ps.sort(key=ports.index)
    c = rng.choice(cycles or CYCLES)
    if all(len(p) == 1 for p in ps) and rng.random() < 0.5:
        ps = "".join(ps)                                         # string collection, iterated per character
    return [c, ps]


def gen_form(rng, ports, cycles=None):
    r = rng.random()
    nu = rng.choice([1, 1, 1, 2, 2, 3, 4])
    uops = [gen_uop(rng, ports, cycles) for _ in range(nu)]
    form = {"tp": rng.choice([0.25, 0.5, 1.0, 1.0, 2.0, None])}
    if r < 0.08:
        form["tp"] = 0.0                                         # shown but not summed
    if r > 0.88 and len(ports) > 1:
        alts = [uops] + [[gen_uop(rng, ports, cycles) for _ in range(rng.choice([1, 1, 2]))] for _ in range(rng.choice([1, 1, 2]))]
        form["uops"] = {i: a for i, a in enumerate(alts)}
    else:
        form["uops"] = uops
    return form


def below_granularity(uops):
    """does the instruction have a multi-port micro-op whose uniform share does not exceed half a balancing step per
    micro-op of the instruction (the hypothesis of the one-pass feasibility theorem, Proofs/BalanceMulti.v)?"""
    us = [(F(repr(float(c))), list(ps)) for c, ps in uops if ps]
    n = len(us)
    return any(len(ps) >= 2 and c / len(ps) <= n * F(1, 200) for c, ps in us)


def case_below_granularity(case):
    for fi in set(case["kernel"]):
        us = case["forms"][fi]["uops"]
        for alt in (us.values() if isinstance(us, dict) else [us]):
            if below_granularity(alt):
                return True
    return False


def gen_case(rng, mode=None, maxlen=12, tiny=False):
    ports = gen_ports(rng)
    forms = [gen_form(rng, ports, CYCLES_TINY if tiny else None) for _ in range(rng.randint(1, 5))]
    n = rng.choice([1, 2, 3, 3, 4, 5, 6, 8, maxlen])
    kernel = [rng.randrange(len(forms)) for _ in range(n)]
    # the alternative search is exponential in the number of instructions with alternatives: keep <= 2 of them
    dicts = [i for i, fi in enumerate(kernel) if isinstance(forms[fi]["uops"], dict)]
    plain = [j for j, f in enumerate(forms) if not isinstance(f["uops"], dict)]
    for i in dicts[2:]:
        if not plain:
            f = gen_form(rng, ports, CYCLES_TINY if tiny else None)
            if isinstance(f["uops"], dict):
                f["uops"] = list(f["uops"].values())[0]
            forms.append(f)
            plain.append(len(forms) - 1)
        kernel[i] = rng.choice(plain)
    # port names whose concatenation is another port name: use both port sets in one model
    for a, b in (("1", "3"), ("1", "2"), ("2", "3")):
        if a in ports and b in ports and a + b in ports and rng.random() < 0.8:
            forms.append({"tp": 1.0, "uops": [[rng.choice([1, 2, 0.5]), [a, b]]]})
            forms.append({"tp": 1.0, "uops": [[rng.choice([1, 2]), [a + b]]]})
            pair = [len(forms) - 2, len(forms) - 1]
            rng.shuffle(pair)
            kernel = pair + kernel if rng.random() < 0.5 else kernel + pair
            break
    return {"ports": ports, "forms": forms, "kernel": kernel, "mode": mode or rng.choice(MODES)}


# ------------------------------------------------------------------ implementation driver
_sem_cache = {}


def semantics_for(ports, isa="x86"):
    import models
    from osaca.semantics import MachineModel, ArchSemantics
    mm = MachineModel(isa=isa)
    mm._data["ports"] = list(ports)
    key = isa
    if key not in _sem_cache:
        _sem_cache[key] = ArchSemantics(mm, path_to_yaml=models.isa_path(isa))
    sem = _sem_cache[key]
    sem._machine_model = mm
    return mm, sem


ERRS = {"IndexError": "EIndex", "ValueError": "EValue", "KeyError": "EKey"}

_cli_code = {}


class CliBlockMissing(Exception):
    pass


def cli_schedule(sem, kernel, mm=None):
    """Run exactly the statements osaca.inspect() executes under `if not args.fixed:` (extracted from the CURRENT
    source with ast), so that 'optimised twice as the CLI does' follows the code and not an assumption."""
    import ast
    import inspect as _inspect
    import textwrap
    import types
    import osaca.osaca as oo
    if "code" not in _cli_code:
        tree = ast.parse(textwrap.dedent(_inspect.getsource(oo.inspect)))
        body = None
        for node in ast.walk(tree):
            if isinstance(node, ast.If) and ast.unparse(node.test).replace(" ", "") in ("notargs.fixed", "args.fixedisFalse", "args.fixed==False"):
                body = node.body
                break
        if body is None:
            _cli_code["code"] = None
        else:
            mod = ast.Module(body=body, type_ignores=[])
            ast.fix_missing_locations(mod)
            _cli_code["code"] = compile(mod, "<osaca.inspect: if not args.fixed>", "exec")
            _cli_code["text"] = "\n".join(ast.unparse(b) for b in body)
    if _cli_code["code"] is None:
        raise CliBlockMissing("the `if not args.fixed:` block of osaca.inspect was not found")
    ns = dict(vars(oo))
    ns.update({"semantics": sem, "kernel": kernel, "machine_model": mm, "args": types.SimpleNamespace(fixed=False)})
    exec(_cli_code["code"], ns)


def classify_exc(e):
    n = type(e).__name__
    if n == "TypeError":
        return "EEmptyGetter" if "itemgetter" in str(e) else "EType"
    return ERRS.get(n, "E?" + n)


def run_impl(case):
    """Returns ('ok', [pp rows], tp_sum, [uops per line after run]) or ('err', tag, text)."""
    import copy
    from osaca.parser.instruction_form import InstructionForm
    mm, sem = semantics_for(case["ports"])
    kernel = []
    try:
        for ln, fi in enumerate(case["kernel"]):
            f = case["forms"][fi]
            inst = InstructionForm(mnemonic="i%d" % fi, line_number=ln + 1)
            inst.port_uops = copy.deepcopy(f["uops"])
            inst.port_pressure = mm.average_port_pressure(inst.port_uops)
            inst.throughput = f["tp"]
            inst.latency = 1.0
            kernel.append(inst)
        if case["mode"] == "once":
            sem.assign_optimal_throughput(kernel)
        if case["mode"] == "twice":
            cli_schedule(sem, kernel, mm)
        tps = sem.get_throughput_sum(kernel)
    except CliBlockMissing:
        raise
    except Exception as e:  # noqa  (IndexError / KeyError of the balancer are results, not harness failures)
        return ("err", classify_exc(e), repr(e))
    return ("ok", [[float(x) for x in i.port_pressure] for i in kernel], [float(x) for x in tps],
            [i.port_uops for i in kernel])


# ------------------------------------------------------------------ Gallina rendering
def coq_uop(u, num):
    c, ps = u
    return "(%s, [%s])" % (num(c), "; ".join(vlib.coq_string(p) for p in list(ps)))


def coq_uops(us, num):
    if isinstance(us, dict):
        return "UDict [%s]" % "; ".join("[" + "; ".join(coq_uop(u, num) for u in a) + "]" for a in us.values())
    return "UList [%s]" % "; ".join(coq_uop(u, num) for u in us)


def coq_kernel(case, pps, num):
    """kernel with initial pressures pps (list of rows of python floats)."""
    rows = []
    for fi, pp in zip(case["kernel"], pps):
        f = case["forms"][fi]
        tp = 1.0 if f["tp"] is None else f["tp"]          # None != 0.0 is True
        rows.append("mkinstr %s [%s] (%s)" % (num(tp), "; ".join(num(x) for x in pp), coq_uops(f["uops"], num)))
    return "[" + ";\n   ".join(rows) + "]"


def initial_pressures(case):
    """uniform pressures computed by the implementation (these are also compared: mode uniform)."""
    mm, sem = semantics_for(case["ports"])
    return [mm.average_port_pressure(case["forms"][fi]["uops"]) for fi in case["kernel"]]


MODE_NUM = {"uniform": 0, "once": 1, "twice": 2}

CASE_HEADER = """From Coq Require Import ZArith QArith List String Bool PrimFloat.
From OV Require Import Model.Num Model.Pressure Model.PyString.
Import ListNotations.
Open Scope string_scope.
Set Printing Width 100000. Set Printing Depth 100000.
(* a case: ports, kernel (uniform pressures are recomputed by the model), mode, expected *)
Definition exp := (res (list (list float) * list float))%type.
Definition run (ports : list string) (k : list (instr (T:=float))) (recompute : bool) (mode : nat) : res (list (instr (T:=float)) * nat) :=
  (* synthetic cases: first recompute the uniform pressure with the model's average_port_pressure *)
  k0 <- (if recompute then
          (fix go (l : list (instr (T:=float))) : res (list (instr (T:=float))) :=
           match l with [] => Ok [] | i :: r => pp <- avg_pressure FNum ports (i_uops i) ;; r' <- go r ;;
                                              Ok (mkinstr (i_tp i) pp (i_uops i) :: r') end) k
         else Ok k) ;;
  match mode with
  | O => Ok (k0, O)
  | S O => balance FNum ports k0
  | _ => balance_cli FNum ports k0
  end.
Definition err_eqb (a b : err) : bool :=
  match a, b with EIndex, EIndex | EEmptyGetter, EEmptyGetter | EValue, EValue | EKey, EKey | EType, EType | EFuel, EFuel => true | _, _ => false end.
Fixpoint rows_eq (a b : list (list float)) : bool :=
  match a, b with [], [] => true | x :: r, y :: s => andb (f_list_biteq x y) (rows_eq r s) | _, _ => false end.
Definition agrees (r : res (list (instr (T:=float)) * nat)) (e : exp) : bool :=
  match r, e with
  | Ok (k, _), Ok (rows, sums) => andb (rows_eq (map i_pp k) rows) (f_list_biteq (tp_sum FNum k) sums)
  | Err a, Err b => err_eqb a b
  | _, _ => false
  end.
Definition exact0 (r : res (list (instr (T:=float)) * nat)) : nat := match r with Ok (_, n) => n | _ => O end.
"""

CASE_FOOTER = """
Definition results := map (fun c => let '(p, k, rc, m, e) := c in let r := run p k rc m in (agrees r e, exact0 r)) cases.
Definition summary :=
  let rs := results in
  let bad := map fst (filter (fun p => negb (fst (snd p))) (combine (seq 0 (List.length rs)) rs)) in
  let nexact0 := List.length (filter (fun p => negb (Nat.eqb (snd p) 0)) rs) in
  String.concat "," (map string_of_nat bad) ++ "|" ++ string_of_nat (List.length rs) ++ "|" ++ string_of_nat nexact0.
Eval vm_compute in summary.
"""


def coq_expected(out):
    if out[0] == "err":
        tag = out[1] if out[1] in ("EIndex", "EEmptyGetter", "EValue", "EKey", "EType") else "EFuel"
        return "(Err %s)" % tag
    rows = "[" + "; ".join("[" + "; ".join(flit(x) for x in r) + "]" for r in out[1]) + "]"
    return "(Ok (%s, [%s]))" % (rows, "; ".join(flit(x) for x in out[2]))


def coq_shard(cases_outs):
    items = []
    for case, out in cases_outs:
        pps = case.get("init_pp") or [[0.0] * len(case["ports"]) for _ in case["kernel"]]
        items.append("([%s],\n  %s,\n  %s, (%d)%%nat, %s)" % (
            "; ".join(vlib.coq_string(p) for p in case["ports"]), coq_kernel(case, pps, flit),
            "false" if case.get("init_pp") else "true",
            MODE_NUM[case["mode"]], coq_expected(out)))
    return CASE_HEADER + "Definition cases : list (list string * list (instr (T:=float)) * bool * nat * exp) := [\n" + ";\n".join(items) + "]." + CASE_FOOTER


# ------------------------------------------------------------------ oracles (exact fractions)
def uops_of(case, fi, chosen=None):
    us = chosen if chosen is not None else case["forms"][fi]["uops"]
    if isinstance(us, dict):
        us = list(us.values())[0]
    return [(F(repr(float(c))) if isinstance(c, float) else F(c), list(ps)) for c, ps in us]


def feasibility(case, out, eps_pair=F(1, 100)):
    """C01 oracle on the implementation's output.  Returns list of (kind, text)."""
    bad = []
    if out[0] != "ok":
        return [("crash", "raises %s" % out[2])]
    ports = case["ports"]
    mode = case["mode"]
    if not case.get("real"):
        for ln, got in foreign_uops(case, out):
            bad.append(("foreign-uops", "line %d reports the micro-ops %s, which are not an alternative of its own instruction form" % (ln, str(got)[:200])))
    for ln, (fi, row) in enumerate(zip(case["kernel"], out[1])):
        us = uops_of(case, fi, out[3][ln])
        v = [F(x) for x in row]
        allowed = set(p for _, ps in us for p in ps)
        total = sum(c for c, ps in us if ps)
        tol = F(1, 10 ** 9)
        slack = F(0) if mode == "uniform" else eps_pair
        for p, x in zip(ports, v):
            if x < -tol - (slack if mode != "uniform" else 0):
                bad.append(("negative", "line %d port %s pressure %s" % (ln, p, float(x))))
            if p not in allowed and x != 0:
                bad.append(("support", "line %d port %s carries %s but no micro-op may use it" % (ln, p, float(x))))
        if abs(sum(v) - total) > tol + (0 if mode == "uniform" else F(1, 10 ** 6)):
            bad.append(("total", "line %d total %s != micro-op cycles %s" % (ln, float(sum(v)), float(total))))
        used = [p for p in ports if p in allowed]
        for r in range(1, len(used) + 1):
            for S in itertools.combinations(used, r):
                Sset = set(S)
                confined = sum(c for c, ps in us if ps and set(ps) <= Sset)
                pairs = sum(len(Sset & set(ps)) for c, ps in us if ps and not set(ps) <= Sset)
                load = sum(x for p, x in zip(ports, v) if p in Sset)
                if load < confined - tol - slack * pairs:
                    bad.append(("hall", "line %d ports %s carry %s < %s confined cycles (allowed slack %s)"
                                % (ln, ",".join(S), float(load), float(confined), float(slack * pairs))))
                    break
            else:
                continue
            break
    # column sums
    counted = [row for fi, row in zip(case["kernel"], out[1]) if case["forms"][fi]["tp"] != 0.0]
    if counted:
        for j, p in enumerate(ports):
            col = sum(F(r[j]) for r in counted)
            if abs(F(out[2][j]) - col) > F(5, 1000) + F(1, 10 ** 9):
                bad.append(("colsum", "port %s total %s but column sum %s" % (p, out[2][j], float(col))))
    return bad


def optimum(case, out):
    """exact optimum of fractional scheduling of the counted micro-ops (max over port subsets)."""
    ports = case["ports"]
    uops = []
    for ln, fi in enumerate(case["kernel"]):
        if case["forms"][fi]["tp"] == 0.0:
            continue
        uops += uops_of(case, fi, out[3][ln] if out and out[0] == "ok" else None)
    best = F(0)
    for r in range(1, len(ports) + 1):
        for S in itertools.combinations(ports, r):
            Sset = set(S)
            conf = sum(c for c, ps in uops if ps and set(ps) <= Sset)
            best = max(best, conf / r)
    return best


def alternatives_of(form):
    us = form["uops"]
    return [list(a) for a in us.values()] if isinstance(us, dict) else [list(us)]


def foreign_uops(case, out):
    """lines whose reported micro-op list is not one of the alternatives of their own instruction form"""
    bad = []
    if out[0] != "ok":
        return bad
    def norm(us):
        return [[float(c), list(ps)] for c, ps in us]
    for ln, fi in enumerate(case["kernel"]):
        got = out[3][ln]
        alts = [norm(a) for a in alternatives_of(case["forms"][fi])]
        cands = [norm(a) for a in got.values()] if isinstance(got, dict) else [norm(got)]
        if isinstance(got, dict):
            ok = cands == alts
        else:
            ok = cands[0] in alts
        if not ok:
            bad.append((ln, got))
    return bad


def optimum_over_alternatives(case):
    """the smallest exact optimum over all choices of one alternative per line (no schedule of any admissible choice is faster)"""
    lines = [fi for fi in case["kernel"] if case["forms"][fi]["tp"] != 0.0]
    choices = [alternatives_of(case["forms"][fi]) for fi in lines]
    ports = case["ports"]
    best = None
    for combo in itertools.product(*choices):
        uops = []
        for alt in combo:
            uops += [(F(repr(float(c))) if isinstance(c, float) else F(c), list(ps)) for c, ps in alt]
        o = F(0)
        for r in range(1, len(ports) + 1):
            for S in itertools.combinations(ports, r):
                Sset = set(S)
                o = max(o, sum(c for c, ps in uops if ps and set(ps) <= Sset) / r)
        best = o if best is None else min(best, o)
    return best or F(0)


# ------------------------------------------------------------------ shipped kernels on shipped models
def kernel_files():
    import glob
    fs = sorted(glob.glob(os.path.join(vlib.REPO, "examples", "*", "*.s")) + glob.glob(os.path.join(vlib.REPO, "tests", "test_files", "kernel_*.s"))
                + glob.glob(os.path.join(vlib.REPO, "tests", "test_files", "triad_*.s")))
    return [f for f in fs if not f.endswith(".copy.s") and "long_LCD" not in f]


def isa_of_file(path):
    from osaca.parser import BaseParser
    return BaseParser.detect_ISA(open(path).read())


def parsed_kernel(arch, path):
    """parse + reduce_to_section + add_semantics through the real implementation (fresh objects)."""
    import models
    from osaca.parser import ParserX86ATT, ParserAArch64
    from osaca.semantics import reduce_to_section
    mm, sem = models.load(arch)
    isa = mm.get_ISA().lower()
    parser = ParserX86ATT() if isa == "x86" else ParserAArch64()
    code = open(path).read()
    kernel = reduce_to_section(parser.parse_file(code), isa)
    sem.add_semantics(kernel)
    return mm, sem, parser, kernel


X86_TEMPLATES = ["addq $8, %r{a}", "subq $1, %r{a}", "imulq %r{a}, %r{b}", "vaddpd %ymm{v0}, %ymm{v1}, %ymm{v2}", "vmulpd %ymm{v0}, %ymm{v1}, %ymm{v2}",
                 "vfmadd231pd %ymm{v0}, %ymm{v1}, %ymm{v2}", "vaddsd %xmm{v0}, %xmm{v1}, %xmm{v2}", "vxorpd %ymm{v0}, %ymm{v1}, %ymm{v2}",
                 "vmovapd {d}(%rax), %ymm{v0}", "vmovapd %ymm{v0}, {d}(%rbx)", "movq %r{a}, %r{b}", "leaq {d}(%rax,%rcx,8), %r{a}",
                 "vdivpd %ymm{v0}, %ymm{v1}, %ymm{v2}", "cmpq %r{a}, %r{b}"]
A64_TEMPLATES = ["add x{a}, x{a}, #8", "sub x{a}, x{b}, #1", "mul x{a}, x{b}, x{a}", "fadd d{v0}, d{v1}, d{v2}", "fmul d{v0}, d{v1}, d{v2}",
                 "fmla v{v0}.2d, v{v1}.2d, v{v2}.2d", "fadd v{v0}.2d, v{v1}.2d, v{v2}.2d", "ldr d{v0}, [x1, #{d}]", "str d{v0}, [x2, #{d}]",
                 "ldr q{v0}, [x1, x3]", "mov x{a}, x{b}", "fdiv d{v0}, d{v1}, d{v2}", "cmp x{a}, x{b}"]


def repeated_entry_kernel(rng, isa):
    """kernel TEXT in which the same model entry is hit by several lines (different registers): 2-4 templates, each repeated 3-7 times"""
    T = X86_TEMPLATES if isa == "x86" else A64_TEMPLATES
    lines = []
    for t in rng.sample(T, rng.choice([3, 3, 4, 5])):
        for _ in range(rng.randrange(3, 8)):
            a, b = rng.sample(range(8, 16), 2)
            v = rng.sample(range(0, 16), 3)
            lines.append(t.format(a=a, b=b, v0=v[0], v1=v[1], v2=v[2], d=rng.choice([0, 8, 32, 64])))
    rng.shuffle(lines)
    return "\n".join(lines) + "\n"


def real_case(arch, path, mode):
    import copy
    mm, sem, parser, kernel = parsed_kernel(arch, path)
    ports = list(mm.get_ports())
    forms = []
    init = []
    for inst in kernel:
        us = copy.deepcopy(inst.port_uops)
        if not isinstance(us, dict):
            us = [list(u) for u in us]
        forms.append({"tp": inst.throughput, "uops": us})
        init.append([float(x) for x in inst.port_pressure])
    case = {"ports": ports, "forms": forms, "kernel": list(range(len(kernel))), "mode": mode, "init_pp": init,
            "real": [arch, os.path.relpath(path, vlib.REPO)]}
    try:
        if mode == "once":
            sem.assign_optimal_throughput(kernel)
        if mode == "twice":
            cli_schedule(sem, kernel, mm)
        tps = sem.get_throughput_sum(kernel)
        out = ("ok", [[float(x) for x in i.port_pressure] for i in kernel], [float(x) for x in tps], [i.port_uops for i in kernel])
    except Exception as e:  # noqa
        out = ("err", classify_exc(e), repr(e))
    return case, out
