"""C07, translation tie (T) for the operand matcher of hw_model.py.

  1. tools/gen_c07.py (tools/py2coq_dyn.py) translates the CURRENT source of MachineModel._match_operands,
     _check_operands, _check_x86_operands, _check_AArch64_operands, _compare_db_entries, _is_x86_reg_type,
     _is_AArch64_reg_type, _is_x86_mem_type, _is_AArch64_mem_type, get_instruction, ParserX86ATT.is_vector_register
     and the operand classes' __eq__ into MatchGen.v (fail closed), in the run's own scratch directory
     (logical path OVC), so concurrent runs of the check (a mutant tree next to the unchanged tree) never share it;
  2. a copy of coq/PropsGen/C07gen.v is compiled against that text: every translated function = the hand model
     Model/Match.v on every value of the model's operand / pattern types (Model/MatchEmbed.v), both ISAs, and the
     C07 theorems restated for the translated code;
  3. (called from checks/c07.py on the correspondence material) the translated functions are EVALUATED on generic
     dumps of the REAL operand / pattern / table objects and compared with what the Python functions themselves
     return (this validates the translator), and the dumps are compared with the embedding of the hand-model terms
     the serialiser produced for the same objects (this validates the embedding = the domain of the theorems).
"""
import inspect
import os
import re
import shutil

import vlib
import gen_c07
import c07_lib as L

PROPS = "PropsGen/C07gen.v"
GEN = "MatchGen.v"

SHARD_PRELUDE = """From Coq Require Import String List ZArith NArith Bool.
From OV Require Import Model.PyString Model.PyDyn Model.Match Model.MatchEmbed.
From OVC Require Import MatchGen.
Import ListNotations.
Open Scope string_scope.
(* embedding environment for the comparison with dumps: no further attributes, markers for "any dict" / "not None" *)
Definition envV : env := Env 0 (fun _ => []) [("?", PNone)] (PObj "?" 0 []) "?foreign".
Definition okstr (b : bool) (what : string) : string := if b then "ok" else what.
(* index of the form object g_get_instruction returned (the dumps give form number i the identity i) *)
Definition show_form (r : PyDyn.res pyval) : string :=
  match r with
  | Ok (PObj _ i _) => string_of_nat (N.to_nat i)
  | Ok PNone => "-"
  | Ok _ => "?"
  | Raise e => "!" ++ show_exn e
  end.
"""


# ------------------------------------------------------------------ stage 1 + 2
def run_T(ctx):
    """regenerate, compile, prove.  Returns {"ok": translated and compiled, "proved": bool, "meta": ..., "dir": ...}"""
    d = os.path.join(ctx.scratch, "cases")
    os.makedirs(d, exist_ok=True)
    ok, text, meta = gen_c07.generate(vlib.REPO, d, GEN)
    ctx.obligation("translate the operand matcher of hw_model.py (10 methods), ParserX86ATT.is_vector_register and the operand "
                   "classes' __eq__ from the current source", "translation", ok, "" if ok else text)
    out = {"ok": False, "proved": False, "meta": meta, "dir": d}
    if not ok:
        for nme in theorem_names():
            ctx.obligation("theorem %s (%s)" % (nme, PROPS), "theorem", False, "generated definitions unavailable: " + text)
        return out
    if vlib.REPO == "/repo":
        # a copy for the reader (never compiled from here: concurrent runs would race)
        try:
            os.makedirs(os.path.join(vlib.COQ, "Gen"), exist_ok=True)
            tmp = os.path.join(vlib.COQ, "Gen", "MatchGen.v.tmp%d" % os.getpid())
            with open(tmp, "w") as f:
                f.write(text)
            os.replace(tmp, os.path.join(vlib.COQ, "Gen", "MatchGen.v"))
        except OSError:
            pass
    c, o, dt = ctx.coqc(os.path.join(d, GEN), extra_q=[(d, "OVC")])
    ctx.obligation("generated %s type-checks" % GEN, "translation", c, o)
    bad = vlib.hygiene_scan(d)
    ctx.obligation("generated %s declares no axiom" % GEN, "hygiene", not bad, "\n".join(bad))
    if not c:
        for nme in theorem_names():
            ctx.obligation("theorem %s (%s)" % (nme, PROPS), "theorem", False, "generated definitions do not compile")
        return out
    out["ok"] = True
    # the property file, compiled in the scratch directory against this run's MatchGen
    src = open(os.path.join(vlib.COQ, PROPS)).read()
    vfile = os.path.join(d, "C07gen.v")
    with open(vfile, "w") as f:
        f.write(src)
    c2, o2, dt2 = ctx.coqc(vfile, timeout=900, extra_q=[(d, "OVC")])
    for nme in theorem_names():
        ctx.obligation("theorem %s (%s)" % (nme, PROPS), "theorem", c2, "" if c2 else o2)
    if c2:
        ctx.print_assumptions[PROPS] = vlib.parse_assumptions(o2)
    ctx.checker_cmds.append("coqc -Q coq OV -Q <scratch> OVC PropsGen/C07gen.v")
    ctx.log("T: %s generated (%d lines), coqc %.1fs; %s: %s in %.1fs (%d theorems)" % (
        GEN, text.count("\n"), dt, PROPS, "ok" if c2 else "FAILED", dt2, len(theorem_names())))
    out["proved"] = c2
    return out


def theorem_names():
    src = open(os.path.join(vlib.COQ, PROPS)).read()
    return re.findall(r"^(?:Theorem|Corollary)\s+([A-Za-z0-9_']+)", src, re.M)


# ------------------------------------------------------------------ generic dump of real objects as pyval terms
class Undumpable(Exception):
    pass


class Dumper:
    """Python object -> Gallina term of type pyval, independent of the serialiser of c07_lib / the embedding:
    class name, every public property (plus the private attributes named in `private`), values recursively.
    Objects of classes with a field-wise __eq__ get identity 0 (their dumps can be shared), all others a fresh
    identity per Python object."""

    def __init__(self, private=(), eq_classes=()):
        self.private = tuple(private)
        self.eq_classes = set(eq_classes)
        self.ids = {}
        self.defs = {}        # text -> name
        self.order = []       # (name, text)
        self.keep = []        # keep dumped objects alive: id() must stay unique
        self.props = {}

    def _props(self, cls):
        if cls not in self.props:
            self.props[cls] = sorted(n for n, m in inspect.getmembers(cls, lambda m: isinstance(m, property)))
        return self.props[cls]

    def oid(self, o):
        self.keep.append(o)
        return self.ids.setdefault(id(o), len(self.ids) + 1)

    def share(self, text):
        if len(text) < 60:
            return text
        nm = self.defs.get(text)
        if nm is None:
            nm = "d%d" % len(self.defs)
            self.defs[text] = nm
            self.order.append((nm, text))
        return nm

    def term(self, o, depth=0):
        if depth > 8:
            raise Undumpable("nesting")
        if o is None:
            return "PNone"
        if o is True:
            return "(PBool true)"
        if o is False:
            return "(PBool false)"
        if isinstance(o, int):
            return "(PInt (%d)%%Z)" % o
        if isinstance(o, str):
            try:
                return "(PStr %s)" % L.cs(str(o))
            except L.Unmodelled:
                raise Undumpable("string")
        if isinstance(o, float):
            return "(PObj \"float\" %d [])" % self.oid(o)
        if isinstance(o, dict):
            items = []
            for k, v in o.items():
                if not isinstance(k, str):
                    raise Undumpable("dict key %r" % (k,))
                try:
                    items.append("(%s, %s)" % (L.cs(str(k)), self.term(v, depth + 1)))
                except L.Unmodelled:
                    raise Undumpable("dict key")
            return self.share("(PDict [%s])" % "; ".join(items))
        if isinstance(o, (list, tuple)):
            return self.share("(PList [%s])" % "; ".join(self.term(v, depth + 1) for v in o))
        cls = type(o)
        name = cls.__name__
        if not name.isidentifier():
            raise Undumpable("class name")
        fields = []
        if cls.__module__.startswith("osaca."):
            names = list(self._props(cls)) + [p for p in self.private if p in vars(o)]
            for p in names:
                try:
                    v = getattr(o, p)
                except AttributeError:
                    continue                      # a property whose getter raises AttributeError IS a missing attribute
                fields.append("(%s, %s)" % (L.cs(p), self.term(v, depth + 1)))
        ident = 0 if name in self.eq_classes else self.oid(o)
        return self.share("(PObj %s %d [%s])" % (L.cs(name), ident, "; ".join(fields)))

    def definitions(self):
        return "".join("Definition %s : pyval := %s.\n" % (n, t) for n, t in self.order)


def dumper_for(meta):
    eq = meta.get("eq", {})
    return Dumper(private=[a for a in meta.get("attrs_read", []) if a.startswith("_") and a != "_data"],
                  eq_classes=[c for c, f in eq.items() if f is not None])


def self_term(dumper, mm, forms_term="PNone"):
    """the MachineModel object as far as the matcher reads it: self._data["isa"], self._data["instruction_forms_dict"]"""
    isa = mm._data["isa"]
    return dumper.share('(PObj "MachineModel" 0 [("_data", PDict [("isa", %s); ("instruction_forms_dict", %s)])])'
                        % (dumper.term(isa), forms_term))


def forms_dict_term(dumper, mm, table):
    """self._data["instruction_forms_dict"] : key -> list of InstructionForm objects; a form is dumped as far as
    get_instruction reads it (.operands) and carries its position in the flat table as identity"""
    pos = {id(f): i for i, (_, f) in enumerate(table)}
    items = []
    for key, forms in mm._data["instruction_forms_dict"].items():
        fs = []
        for f in forms:
            if id(f) not in pos:
                continue
            ops = dumper.share("(PList [%s])" % "; ".join(dumper.term(p) for p in f.operands))
            fs.append('(PObj "InstructionForm" %d [("operands", %s)])' % (pos[id(f)], ops))
        if fs:
            items.append("(%s, PList [%s])" % (L.cs(key), "; ".join(fs)))
    return dumper.share("(PDict [%s])" % "; ".join(items))


def expect_value(fn):
    """the result class PyDyn.show_res prints, for a call of the real function"""
    try:
        r = fn()
    except Exception as e:  # noqa
        return "!" + type(e).__name__
    if r is True:
        return "T"
    if r is False:
        return "F"
    if r is None:
        return "N"
    return "?"
