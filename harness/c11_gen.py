"""C11 harness: random assembly files with markers and decoys, abstraction of parsed lines to the
Coq line type of Model/Select.v, random --lines strings."""
import vlib
from vlib import coq_string as cs

ISAS = ("x86", "aarch64")
NOP = {"x86": [100, 103, 144], "aarch64": [213, 3, 32, 31]}
CMT = {"x86": "#", "aarch64": "//"}

PLAIN = {
    "x86": ["addl %eax, %ecx", "vaddpd %ymm0, %ymm1, %ymm2", "movq (%rax), %rbx", "cmpl $111, %ebx", "jne .L2",
            "movl %ebx, %eax", "vmovapd %ymm2, (%rdi,%rax,8)", "incq %rax", "vfmadd231pd (%rsi), %ymm3, %ymm4",
            "leaq 8(%rax,%rbx,4), %rcx", "xorl %ebx, %ebx", "movl $5, %ecx", "movl $222, 8(%rsp)", "ret"],
    "aarch64": ["add x2, x3, x4", "ldr x1, [x2]", "fmul v0.2d, v1.2d, v2.2d", "mov x2, x1", "b.ne .L2", "subs x5, x5, #1",
                "str q0, [x3, #16]", "fmla v2.2d, v0.2d, v1.2d", "mov w1, w2", "cmp x1, #111", "ldp x1, x2, [sp]", "ret"],
}
NOISE_DIRECTIVES = [".p2align 4", ".loc 1 23 5", ".text", ".align 3", ".type foo, %function", ".cfi_startproc", ".size foo, 12"]
LABELS = [".L2:", ".LBB0_3:", "foo:", ".Ltmp7:"]
COMMENTS = ["a comment", "OSACA-BEGIN now", "osaca-begin", "OSACA-END.", "OSACA START MARKER", "LLVM-MCA-BEGIN", "-OSACA-BEGIN"]


def byte_spelling(rng, b, isa="x86"):
    # the AArch64 grammar only tokenises decimal and lower-case 0x literals of a .byte directive reliably
    # (0X20 becomes an instruction ".byte" with register x20, 0o40 / 0b11 are split, +32 is rejected): that is
    # C10's subject, so the selection generator stays inside the common sub-language there
    k = rng.random()
    if k < 0.6:
        return str(b)
    if k < 0.8 or isa == "aarch64":
        return hex(b)
    if k < 0.85:
        return "0X%X" % b
    if k < 0.9:
        return "0b" + bin(b)[2:]
    if k < 0.95:
        return "0o" + oct(b)[2:]
    return "+%d" % b


def byte_lines(rng, isa, bts, style, tail_comment=None):
    """style 'one': all on one line; 'many': split at random points; returns list of text lines"""
    sp = [byte_spelling(rng, b, isa) for b in bts]
    if style == "one":
        groups = [sp]
    elif style == "each":
        groups = [[x] for x in sp]
    else:
        groups, cur = [], []
        for x in sp:
            cur.append(x)
            if rng.random() < 0.5:
                groups.append(cur)
                cur = []
        if cur:
            groups.append(cur)
    out = []
    for g in groups:
        sep = rng.choice([",", ", ", " , "])
        line = rng.choice(["", "  ", "\t"]) + ".byte " + sep.join(g)
        if tail_comment and rng.random() < 0.5:
            line += " " + CMT[isa] + " " + tail_comment
        out.append(line)
    return out


def mov_text(rng, isa, mnem, val, reg):
    if isa == "x86":
        return "%s $%s, %%%s" % (mnem, val, reg)
    return "%s %s, #%s" % (mnem, reg, val)


def val_spelling(rng, v):
    return rng.choice([str(v), str(v), hex(v)])


def marker(rng, isa, which, style):
    """which: 'start'/'end'; style: comment | one | each | many.  Returns text lines of a genuine marker."""
    val = 111 if which == "start" else 222
    if style == "comment":
        txt = "OSACA-BEGIN" if which == "start" else "OSACA-END"
        pre = rng.choice(["", "", ".L77: "])
        return [pre + CMT[isa] + rng.choice(["", " ", "   "]) + txt + rng.choice(["", " "])]
    mnem = rng.choice(["mov", "movl"]) if isa == "x86" else "mov"
    reg = "ebx" if isa == "x86" else rng.choice(["x1", "X1"])
    first = mov_text(rng, isa, mnem, val_spelling(rng, val), reg)
    if rng.random() < 0.5:
        first += " " + CMT[isa] + " OSACA %s MARKER" % which.upper()
    bts = list(NOP[isa])
    if rng.random() < 0.1 and style == "one":
        bts = bts + [rng.randrange(256)]          # superfluous byte on the last line: still the marker
    return [first] + byte_lines(rng, isa, bts, style, "OSACA %s MARKER" % which.upper())


def decoy(rng, isa):
    """A look-alike that is NOT a marker: at least one of mnemonic / value / register / bytes is wrong,
    or the byte directive is missing.  Returns text lines."""
    wrong = set(rng.sample(["mnem", "val", "reg", "bytes"], rng.choice([1, 1, 1, 2])))
    val = rng.choice([111, 222])
    if isa == "x86":
        mnem = rng.choice(["movq", "MOVL", "Mov", "movabsq", "movw", "addl"]) if "mnem" in wrong else rng.choice(["mov", "movl"])
        reg = rng.choice(["eax", "rbx", "EBX", "bx", "ecx", "ebp"]) if "reg" in wrong else "ebx"
    else:
        mnem = rng.choice(["MOV", "movz", "movk", "orr"]) if "mnem" in wrong else "mov"
        reg = rng.choice(["x2", "w1", "x11", "x0", "x10"]) if "reg" in wrong else "x1"
    if "val" in wrong:
        sval = rng.choice(["110", "112", "0x111", "-111", "223", "1", "0", "22", "foo" if isa == "x86" else "333"])
    else:
        sval = val_spelling(rng, val)
    first = mov_text(rng, isa, mnem, sval, reg)
    if "bytes" in wrong:
        k = rng.randrange(6)
        nop = NOP[isa]
        if k == 0:
            follow = []                                       # nothing follows (next line is whatever comes)
        elif k == 1:
            follow = [rng.choice(NOISE_DIRECTIVES)]           # another directive
        elif k == 2:
            bad = list(nop)
            bad[rng.randrange(len(bad))] ^= 1 << rng.randrange(8)
            follow = byte_lines(rng, isa, bad, rng.choice(["one", "each", "many"]))
        elif k == 3:
            follow = byte_lines(rng, isa, nop[:rng.randrange(1, len(nop))], rng.choice(["one", "each"]))   # too few
            follow.append(rng.choice(PLAIN[isa]))
        elif k == 4:
            follow = [rng.choice(PLAIN[isa])] + byte_lines(rng, isa, nop, "one")     # an instruction in between
        else:
            follow = [".BYTE " + ",".join(str(b) for b in nop)]                      # directive name is case-sensitive
    else:
        follow = byte_lines(rng, isa, NOP[isa], rng.choice(["one", "each", "many"]))
    return [first] + follow


def segment(rng, isa, n, allow_byte_head=False):
    """n 'items' of ordinary code with decoys, comments, labels, directives, blank lines.  No marker inside,
    and it neither starts with a .byte line nor can it complete a decoy that precedes it."""
    out = []
    while len(out) < n:
        k = rng.random()
        if k < 0.45:
            line = rng.choice(PLAIN[isa])
            if rng.random() < 0.15:
                line += " " + CMT[isa] + " " + rng.choice(COMMENTS + ["OSACA-BEGIN", "OSACA-END"])   # on an instruction: no marker
            out.append(line)
        elif k < 0.65:
            out += decoy(rng, isa)
        elif k < 0.72:
            out.append(CMT[isa] + " " + rng.choice(COMMENTS))
        elif k < 0.79:
            out.append(rng.choice(LABELS) + ("" if rng.random() < 0.7 else " " + CMT[isa] + " " + rng.choice(COMMENTS)))
        elif k < 0.88:
            out.append(rng.choice(NOISE_DIRECTIVES))
        elif k < 0.93 and out:
            out.append(".byte " + ",".join(str(rng.randrange(256)) for _ in range(rng.randrange(1, 5))))
        elif k < 0.97:
            out.append(rng.choice(["", "   ", "\t"]))
    # a decoy at the very end that lacks only its bytes must not be completed by what follows the segment:
    # what follows is a marker (first line never a directive), so nothing to do.
    if not allow_byte_head:
        while out and out[0].strip().startswith(".byte"):
            out.pop(0)
    return out


KINDS = ["marked", "marked", "marked", "marked", "unmarked", "start_only", "end_only", "byte_head", "epi_symbolic", "decoy_symbolic"]


def gen_file(rng, isa, kind=None):
    """Returns dict(text, kind, expect) where expect = ('lines', [physical line numbers of the kernel]) as the
    property demands (independent of the implementation) or ('unspecified', None)."""
    kind = kind or rng.choice(KINDS)
    styles = ["comment", "one", "each", "many"]
    pro = segment(rng, isa, rng.randrange(0, 7))
    body = segment(rng, isa, rng.randrange(0, 9))
    epi = segment(rng, isa, rng.randrange(0, 5), allow_byte_head=False)
    sm = marker(rng, isa, "start", rng.choice(styles))
    em = marker(rng, isa, "end", rng.choice(styles))
    info = {"sm_style": "comment" if len(sm) == 1 else "bytes%d" % (len(sm) - 1), "em_style": "comment" if len(em) == 1 else "bytes%d" % (len(em) - 1)}
    if kind == "byte_head":
        if len(sm) == 1:
            sm = marker(rng, isa, "start", rng.choice(["one", "each", "many"]))
            info["sm_style"] = "bytes%d" % (len(sm) - 1)
        body = [".byte " + ",".join(str(rng.randrange(256)) for _ in range(rng.randrange(1, 4)))] + body
    if kind == "epi_symbolic":
        if len(em) == 1:
            em = marker(rng, isa, "end", rng.choice(["one", "each", "many"]))
            info["em_style"] = "bytes%d" % (len(em) - 1)
        epi = [".byte " + rng.choice(["0144", "'a'", "foo", "0x", "08"] + (["1+2"] if isa == "x86" else []))] + epi
    if kind == "decoy_symbolic":
        # a decoy whose bytes are not Python literals, in the prologue: int(x, 0) raises -- correspondence only
        d = [mov_text(rng, isa, "movl" if isa == "x86" else "mov", rng.choice(["111", "222"]), "ebx" if isa == "x86" else "x1"),
             ".byte " + rng.choice(["0144", "'a'", "foo", "1_", "0x", "08", "0_0", "1_0", " 7"] + (["1+2", "0o17", "0B11", "+7"] if isa == "x86" else []))]
        pro = pro + d + [rng.choice(PLAIN[isa])]
    if kind in ("marked", "byte_head", "epi_symbolic", "decoy_symbolic"):
        parts = [pro, sm, body, em, epi]
        want = 2
    elif kind == "unmarked":
        parts = [pro, body, epi]
        want = None
    elif kind == "start_only":
        parts = [pro, sm, body]
        want = 2
    else:
        parts = [pro, em, epi]
        want = 0
    lines, spans = [], []
    for p in parts:
        spans.append((len(lines) + 1, len(lines) + len(p)))
        lines += p
    nonblank = lambda a, b: [i for i in range(a, b + 1) if lines[i - 1].strip() != ""]
    if kind == "unmarked":
        expect = ("lines", nonblank(1, len(lines)))
    elif kind in ("decoy_symbolic", "start_only", "end_only"):
        expect = ("unspecified", None)        # the property text is silent: correspondence with the model only
    else:
        expect = ("lines", nonblank(*spans[want]))
    return {"isa": isa, "kind": kind, "text": "\n".join(lines) + "\n", "expect": expect, "info": info}


# -------------------------------------------------------------------------------- abstraction to Coq
def coq_opt_str(s):
    return "None" if s is None else "(Some %s)" % cs(s)


def abs_operand(parser, op):
    from osaca.parser.immediate import ImmediateOperand
    from osaca.parser.register import RegisterOperand
    if isinstance(op, ImmediateOperand):
        try:
            v = parser.normalize_imd(op)
        except Exception:
            return "OImmOther"
        if isinstance(v, bool):
            return "OImmOther"
        if isinstance(v, int):
            return "(OImm (%d))" % v
        if isinstance(v, float) and v.is_integer():
            return "(OImm (%d))" % int(v)
        return "OImmOther"
    if isinstance(op, RegisterOperand):
        try:
            nm = parser.get_full_reg_name(op)
        except Exception:
            return "OOther"
        if not isinstance(nm, str) or any(ord(c) > 126 or ord(c) < 32 for c in nm):
            return "OOther"
        return "(OReg %s)" % cs(nm)
    return "OOther"


class NotAbstractable(Exception):
    pass


def abs_line(parser, l):
    for s in [l.mnemonic, l.comment] + ([l.directive.name] + list(l.directive.parameters) if l.directive is not None else []):
        if s is not None and (not isinstance(s, str) or any(ord(c) > 126 or (ord(c) < 32 and c != "\t") for c in s)):
            raise NotAbstractable(repr(s))
    d = "None"
    if l.directive is not None:
        d = "(Some (mkd %s [%s]))" % (cs(l.directive.name), "; ".join(cs(p) for p in l.directive.parameters))
    return "(L %s [%s] %s %s %d)" % (coq_opt_str(l.mnemonic), "; ".join(abs_operand(parser, o) for o in l.operands), d,
                                     coq_opt_str(l.comment), l.line_number)


def coq_file(parser, parsed):
    return "[" + ";\n   ".join(abs_line(parser, l) for l in parsed) + "]"


CASE_HEADER = """From Coq Require Import String Ascii List Bool Arith ZArith.
From OV Require Import Model.Select.
Import ListNotations.
Open Scope string_scope.
Set Printing Width 100000. Set Printing Depth 100000.
Definition L m o d c n := {| l_mnemonic := m; l_operands := o; l_directive := d; l_comment := c; l_number := n |}.
Definition mkd n p := {| d_name := n; d_params := p |}.
Definition rnums (r : result (list line)) : result (list nat) := match r with Ok k => Ok (map l_number k) | Err e => Err e end.
Definition res_eqb (a b : result (list nat)) : bool :=
  match a, b with
  | Ok x, Ok y => if list_eq_dec Nat.eq_dec x y then true else false
  | Err ValueError, Err ValueError => true
  | Err IndexError, Err IndexError => true
  | _, _ => false
  end.
Definition isa_of (b : bool) := if b then X86 else A64.
(* case = (is_x86, file, expected) *)
Definition bad (g : bool) (cases : list (bool * list line * result (list nat))) : list nat :=
  map fst (filter (fun p => negb (res_eqb (rnums (reduce_to_section g (isa_of (fst (fst (snd p)))) (snd (fst (snd p))))) (snd (snd p))))
                  (combine (seq 0 (length cases)) cases)).
Definition show (l : list nat) := String.concat "," (map string_of_nat (firstn 30 l)).
"""


def coq_result(r):
    if r[0] == "ok":
        return "(Ok [%s])" % "; ".join(str(n) for n in r[1])
    if r[1] in ("ValueError", "IndexError"):
        return "(Err %s)" % r[1]
    return None


# -------------------------------------------------------------------------------- --lines strings
def gen_lines_string(rng):
    """Returns (string, expected) where expected is the list the property demands for well-formed strings
    (single numbers and inclusive a-b / a:b ranges, comma separated), else None."""
    if rng.random() < 0.7:
        items, exp = [], []
        for _ in range(rng.randrange(1, 6)):
            a = rng.randrange(1, 3000)
            if rng.random() < 0.5:
                items.append(rng.choice(["%d", " %d", "%d ", "0%d", "+%d"]) % a)
                exp.append(a)
            else:
                b = a + rng.choice([0, 0, 1, 2, 5, 17, 120])
                if rng.random() < 0.1:
                    b = a - rng.randrange(1, 4)          # empty range
                items.append(("%d" + rng.choice(["-", ":"]) + "%d") % (a, b))
                exp += list(range(a, b + 1))
        return ",".join(items), exp
    atoms = ["5", "12", "7-9", "3:4", "", "a", "5-", "-5", "1-2-3", "3--4", "0x10", "1_0", "1__0", "+3", " 8 ", "7 - 9", "1:2:3",
             "9-7", "00", "1e3", "4.0", ":", "-", "5:", "x", "2\t", "6-x"]
    return ",".join(rng.choice(atoms) for _ in range(rng.randrange(1, 4))), None


LR_HEADER = """From Coq Require Import String Ascii List Bool Arith ZArith.
From OV Require Import Model.PyString Model.Select Model.PyLines Gen.LineRange.
Import ListNotations.
Open Scope string_scope.
Set Printing Width 100000. Set Printing Depth 100000.
Definition res_eqb (a b : result (list Z)) : bool :=
  match a, b with
  | Ok x, Ok y => if list_eq_dec Z.eq_dec x y then true else false
  | Err ValueError, Err ValueError => true
  | Err IndexError, Err IndexError => true
  | _, _ => false
  end.
Definition bad (cases : list (string * result (list Z))) : list nat :=
  map fst (filter (fun p => negb (res_eqb (get_line_range (fst (snd p))) (snd (snd p)))) (combine (seq 0 (length cases)) cases)).
Definition show (l : list nat) := String.concat "," (map Select.string_of_nat (firstn 30 l)).
"""


# -------------------------------------------------------------------------------- translated definitions (tools/gen_c11b.py)
# Model.Select is imported LAST: in the case terms Ok / Err / result are the model's; the translated code's monad is
# referred to as PyMarker.Ok / PyMarker.Err.
GEN_HEADER = """From Coq Require Import String Ascii List Bool Arith ZArith.
From OV Require Import Model.PyMarker Gen.MarkerGen@INSPECT@.
From OV Require Import Model.Select.
Import ListNotations.
Open Scope string_scope.
Set Printing Width 100000. Set Printing Depth 100000.
Definition L m o d c n := {| l_mnemonic := m; l_operands := o; l_directive := d; l_comment := c; l_number := n |}.
Definition mkd n p := {| d_name := n; d_params := p |}.
(* what the implementation did: a value or an exception class *)
Inductive pyout (A : Type) := PO (a : A) | PE (e : PyMarker.err).
Arguments PO {A} _.
Arguments PE {A} _.
Definition agree {A B} (eqb : A -> B -> bool) (g : PyMarker.res A) (p : pyout B) : bool :=
  match g, p with
  | PyMarker.Ok a, PO b => eqb a b
  | PyMarker.Err e, PE e' => PyMarker.err_eqb e e'
  | _, _ => false
  end.
Definition nums_eqb (k : list line) (ns : list nat) : bool := if list_eq_dec Nat.eq_dec (map l_number k) ns then true else false.
Definition bz_eqb (a b : bool * Z) : bool := andb (Bool.eqb (fst a) (fst b)) (Z.eqb (snd a) (snd b)).
Definition zz_eqb (a b : Z * Z) : bool := andb (Z.eqb (fst a) (fst b)) (Z.eqb (snd a) (snd b)).
Definition idx_bad {C} (ok : C -> bool) (cases : list C) : list nat :=
  map fst (filter (fun p => negb (ok (snd p))) (combine (seq 0 (length cases)) cases)).
Definition show (l : list nat) := String.concat "," (map string_of_nat (firstn 30 l)).
Definition file_of (files : list (list line)) (k : nat) : list line := nth k files [].
Definition pk (x86 : bool) := if x86 then PX86 else PA64.
"""

PYERR = {"ValueError": "EValue", "IndexError": "EIndex", "TypeError": "EType", "AttributeError": "EAttr", "KeyError": "EKey"}


def zlist(l):
    return "[%s]" % "; ".join("(%d)%%Z" % x for x in l)


def slist(l):
    return "[%s]" % "; ".join(cs(x) for x in l)


def pyout(r, render):
    """('ok', value) | ('err', class name) -> Gallina term of type pyout _, or None when the class is not modelled"""
    if r[0] == "ok":
        return "(PO %s)" % render(r[1])
    if r[1] in PYERR:
        return "(PE %s)" % PYERR[r[1]]
    return None


def gen_direct_calls(rng, isa, n_lines):
    """arguments for direct calls of match_bytes / find_marked_section on a parsed file of n_lines lines (well beyond
    what the two wrappers pass: the translation must agree with CPython on all of them)"""
    nop = NOP[isa]
    mb = []
    for _ in range(2):
        idx = rng.choice([rng.randrange(-n_lines - 2, n_lines + 3), rng.randrange(0, n_lines + 1), rng.randrange(0, n_lines + 1)])
        bl = rng.choice([nop, nop, nop[:rng.randrange(0, len(nop))], [], [rng.randrange(256) for _ in range(rng.randrange(1, 4))], nop + [7]])
        mb.append((idx, list(bl)))
    fs = []
    for _ in range(2):
        fs.append(dict(
            mov_instr=rng.choice([["mov", "movl"], ["mov"], ["movl"], [], ["movq", "MOVL", "addl", "movk"], ["mov", "movl", "movz", "cmpl", "cmp"]]),
            mov_reg=rng.choice(["ebx", "x1", "eax", "EBX", "x2", "w1", "rbx"]),
            mov_vals=rng.choice([[111, 222], [111, 222], [222, 111], [111], [], [5, 111], [111, 111], [112, 223], [1, 0]]),
            nop_bytes=rng.choice([nop, nop, [], nop[:1], [rng.randrange(256)]]),
            reverse=rng.random() < 0.5,
            comments=rng.choice([None, {"start": "OSACA-BEGIN", "end": "OSACA-END"}, {"start": "OSACA-BEGIN", "end": "OSACA-END"},
                                 {"start": "OSACA-BEGIN"}, {"end": "OSACA-END"}, {"start": "a comment", "end": "OSACA-END."},
                                 {"begin": "OSACA-BEGIN", "start": "LLVM-MCA-BEGIN", "end": "osaca-begin"}])))
    return mb, fs


def gen_lines_arg(rng, numbers):
    """an args.lines value for a file whose parsed lines carry `numbers`: None, '', well-formed (single, range, nested,
    overlapping, duplicated, unordered, partly outside the file) or malformed"""
    k = rng.random()
    if k < 0.1 or not numbers:
        return rng.choice([None, ""])
    lo, hi = min(numbers), max(numbers)
    if k < 0.8:
        items = []
        for _ in range(rng.randrange(1, 5)):
            a = rng.randrange(max(1, lo - 1), hi + 2)
            if rng.random() < 0.45:
                items.append(rng.choice(["%d", " %d", "%d ", "+%d", "0%d"]) % a)
            else:
                b = a + rng.choice([0, 1, 2, 3, 7, -1, hi])
                items.append("%d%s%d" % (a, rng.choice("-:"), b))
        if rng.random() < 0.3:
            items.append(rng.choice(items))
        if rng.random() < 0.3:
            items.append("%d-%d" % (lo, hi))
        rng.shuffle(items)
        return ",".join(items)
    return ",".join(rng.choice(["5", "7-9", "", "a", "5-", "-5", "1-2-3", "0x10", "1_0", "4.0", ":", "3--4", "2\t"]) for _ in range(rng.randrange(1, 3)))
