"""C15: scratch copies of the shipped model files keyed by the code AND the YAML contents.

harness/models.py keys its copy on the implementation's .py files only, which is right for checks about
the code; C15 is about the data, so a changed YAML must give a fresh copy (and a fresh companion pickle
written by the repo's own loader).  Same API as harness/models.py."""
import glob
import hashlib
import os
import shutil

import vlib


def _src():
    return os.path.join(vlib.REPO, "osaca", "data")


def data_hash():
    h = hashlib.sha256(vlib.code_hash().encode())
    for f in sorted(glob.glob(os.path.join(_src(), "*.yml")) + glob.glob(os.path.join(_src(), "isa", "*.yml"))):
        h.update(os.path.relpath(f, _src()).encode())
        with open(f, "rb") as fh:
            h.update(hashlib.sha256(fh.read()).digest())
    return h.hexdigest()[:16]


_dir = None


def data_dir():
    global _dir
    if _dir:
        return _dir
    d = os.path.join(vlib.VERIF, ".cache", "c15-data-" + data_hash())
    if not os.path.isdir(d):
        tmp = d + ".tmp%d" % os.getpid()
        os.makedirs(os.path.join(tmp, "isa"), exist_ok=True)
        for f in glob.glob(os.path.join(_src(), "*.yml")):
            shutil.copy(f, tmp)
        for f in glob.glob(os.path.join(_src(), "isa", "*.yml")):
            shutil.copy(f, os.path.join(tmp, "isa"))
        try:
            os.rename(tmp, d)
        except OSError:
            shutil.rmtree(tmp, ignore_errors=True)
        for old in glob.glob(os.path.join(vlib.VERIF, ".cache", "c15-data-*")):
            if old != d and not old.startswith(d) and os.path.getmtime(old) < os.path.getmtime(d) - 3600:
                shutil.rmtree(old, ignore_errors=True)
    _dir = d
    return d


def nonempty_archs():
    d = data_dir()
    return sorted(os.path.basename(f)[:-4] for f in glob.glob(os.path.join(d, "*.yml")) if os.path.getsize(f) > 0)


def isas():
    d = data_dir()
    return sorted(os.path.basename(f)[:-4] for f in glob.glob(os.path.join(d, "isa", "*.yml")) if os.path.getsize(f) > 0)


def yaml_path(arch):
    return os.path.join(data_dir(), arch + ".yml")


def isa_path(isa):
    return os.path.join(data_dir(), "isa", isa + ".yml")


_cache = {}


def load(arch):
    """(MachineModel, ArchSemantics) through the implementation's own loader."""
    if arch not in _cache:
        from osaca.semantics import MachineModel, ArchSemantics
        mm = MachineModel(path_to_yaml=yaml_path(arch))
        sem = ArchSemantics(mm, path_to_yaml=isa_path(mm.get_ISA().lower()))
        _cache[arch] = (mm, sem)
    return _cache[arch]
