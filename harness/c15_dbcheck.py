"""C15: run the real `osaca --arch A --db-check` code path and extract its three counts.

In-process, through the CLI functions (create_parser / check_arguments / run), exactly like tests/test_cli.py.
The model files are found through OSACA's own user-data-directory mechanism (utils.DATA_DIRS[0]) pointed at the
scratch copy, so nothing is read from or written next to /repo's data files.

usage: python c15_dbcheck.py <data_dir> <arch> [<arch> ...]   -> one JSON line per arch
"""
import io
import json
import re
import sys
import time


def dbcheck(arch, data_dir):
    from osaca import utils
    if utils.DATA_DIRS[0] != data_dir:
        utils.DATA_DIRS.insert(0, data_dir)
    from osaca import osaca as cli
    parser = cli.create_parser()
    args = parser.parse_args(["--arch", arch, "--db-check", "/dev/null"])
    cli.check_arguments(args, parser)
    out = io.StringIO()
    t = time.time()
    try:
        cli.run(args, output_file=out)
    except Exception as e:   # a crash of --db-check on a shipped file is itself a finding
        return {"arch": arch, "ok": False, "err": "%s: %s" % (type(e).__name__, e), "secs": time.time() - t}
    finally:
        try:
            args.file.close()
        except Exception:
            pass
    text = out.getvalue()
    res = {"arch": arch, "ok": True, "secs": round(time.time() - t, 2), "report": text[:1200]}
    for key, pat in (("tp", r"\((\d+)/(\d+)\) of instruction forms have no throughput value"),
                     ("lt", r"\((\d+)/(\d+)\) of instruction forms have no latency value"),
                     ("pp", r"\((\d+)/(\d+)\) of instruction forms have no port pressure assignment")):
        m = re.search(pat, text)
        if not m:
            res["ok"] = False
            res["err"] = "report line for %s not found" % key
            return res
        res[key] = int(m.group(1))
        res["total"] = int(m.group(2))
    return res


if __name__ == "__main__":
    for a in sys.argv[2:]:
        print(json.dumps(dbcheck(a, sys.argv[1])), flush=True)
