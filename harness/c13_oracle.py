"""C13 independent oracle (plain Python, no model): does the printed report say what the YAML says?
judge(res) -> list of (key, what) findings for one result of c13_lib.run_case."""
import re

FLAG_SYMS = [("*", "not_bound"), ("X", "tp_unknown"), ("P", "hidden_load")]
DEFAULT_ISA_OF = None


def fh(h):
    return float.fromhex(h)


def shown_equals(cell, value):
    """printed fixed-point cell == value at the number of decimals the cell shows"""
    if "." not in cell or "e" in cell:
        return False
    nd = len(cell.split(".")[1])
    return nd >= 1 and cell == "{:.{}f}".format(value, nd)


def judge(res, default_archs, isa_of_arch):
    out = []

    def bad(key, what):
        out.append((key, what))

    if res.get("error"):
        return out                      # an analysis that raises is not a report (other properties own those)
    if res.get("layout_error"):
        bad("report-layout-not-tokenisable", res["layout_error"])
        return out
    t, y, s, f = res["tok"], res["yaml"], res["snap"], res["facts"]
    # ---- structure
    if t["ports"] != y["ports"]:
        bad("port-columns-differ", "text %s vs YAML %s" % (t["ports"], y["ports"]))
        return out
    if [r["num"] for r in t["rows"]] != [k["num"] for k in y["kernel"]]:
        bad("kernel-lines-differ", "text rows %s vs YAML lines %s" % ([r["num"] for r in t["rows"]][:8], [k["num"] for k in y["kernel"]][:8]))
        return out
    unknown = [k["num"] for k in y["kernel"] if "tp_unknown" in k["flags"]]
    # ---- cells
    blank_cp_nonzero = 0
    for r, k in zip(t["rows"], y["kernel"]):
        for j, (c, h) in enumerate(zip(r["cells"], k["press"])):
            v = fh(h)
            if c == "":
                if v != 0.0 or y["ports"][j] in k["used"]:
                    bad("pressure-cell-blank-but-nonzero-or-used", "line %d port %s: blank, YAML %r used=%s" % (r["num"], y["ports"][j], v, y["ports"][j] in k["used"]))
            else:
                if v == 0.0 and y["ports"][j] not in k["used"]:
                    bad("pressure-cell-shown-for-unused-zero", "line %d port %s shows %s" % (r["num"], y["ports"][j], c))
                if not shown_equals(c, v):
                    bad("pressure-cell-differs-from-yaml", "line %d port %s: printed %s, YAML %r" % (r["num"], y["ports"][j], c, v))
        if r["cp"] != "":
            if float(r["cp"]) != fh(k["lat_cp"]):
                bad("cp-cell-differs-from-yaml", "line %d: printed CP %s, YAML LatencyCP %r" % (r["num"], r["cp"], fh(k["lat_cp"])))
        elif fh(k["lat_cp"]) != 0.0:
            # a blank CP cell stands for "no contribution to the critical path": the YAML must not report one for the line
            blank_cp_nonzero += 1
            bad("cp-cell-blank-but-yaml-nonzero", "line %d: blank CP cell, YAML LatencyCP %r" % (r["num"], fh(k["lat_cp"])))
        if r["lcd"] != "":
            if float(r["lcd"]) != fh(k["lat_lcd"]):
                bad("lcd-cell-differs-from-yaml", "line %d: printed LCD %s, YAML LatencyLCD %r" % (r["num"], r["lcd"], fh(k["lat_lcd"])))
        elif fh(k["lat_lcd"]) != 0.0:
            bad("lcd-cell-blank-but-yaml-nonzero", "line %d: blank LCD cell, YAML LatencyLCD %r" % (r["num"], fh(k["lat_lcd"])))
        # flag symbols
        want = "".join(sym for sym, fl in FLAG_SYMS if fl in k["flags"] and k["instr"]) or " "
        if ("X" in r["flags"]) != ("tp_unknown" in k["flags"]):
            bad("x-mark-differs-from-unknown", "line %d: flags %r, YAML Flags %s" % (r["num"], r["flags"], k["flags"]))
        elif r["flags"] != want:
            bad("flag-symbols-differ", "line %d: flags %r, YAML Flags %s" % (r["num"], r["flags"], k["flags"]))
    # lines the MODEL FILE gives no throughput (facts of the request, read from the YAML text): they lack performance data
    for r in t["rows"]:
        if r["text"].strip() in set(f.get("must_x") or []) and "X" not in r["flags"]:
            bad("line-without-throughput-data-not-marked", "line %d `%s`: the model file gives this form `throughput: ~`, but the report does not mark it X (flags %r)"
                % (r["num"], r["text"].strip(), r["flags"]))
    res["blank_cp_nonzero"] = blank_cp_nonzero
    # ---- totals / missing-data warning
    want_totals = f["ignore_unknown"] or not unknown
    if (t["summary"] is not None) != want_totals:
        bad("totals-printed-iff-violated", "ignore_unknown=%s, %d unknown lines, totals %s" % (f["ignore_unknown"], len(unknown), "printed" if t["summary"] else "absent"))
    if (t["missing"] is not None) != (not want_totals):
        bad("missing-data-warning-iff-violated", "ignore_unknown=%s, %d unknown lines, warning %s" % (f["ignore_unknown"], len(unknown), t["missing"]))
    if t["missing"] is not None:
        nx = sum(1 for r in t["rows"] if "X" in r["flags"])
        if t["missing"] != str(len(unknown)) or nx != len(unknown):
            bad("missing-data-count-wrong", "warning says %s, %d rows marked X, %d YAML lines tp_unknown" % (t["missing"], nx, len(unknown)))
    if ("UnknownInstrWarning" in y["warnings"]) != bool(unknown):
        bad("yaml-unknown-warning-wrong", "YAML Warnings %s, %d unknown lines" % (y["warnings"], len(unknown)))
    # totals of the YAML itself
    summed = [k for k in y["kernel"] if fh(k["tp"]) != 0.0]
    if summed:
        tot = [round(sum(fh(k["press"][j]) for k in summed), 2) for j in range(len(y["ports"]))]
    else:
        tot = [fh(h) for h in y["kernel"][0]["press"]]
    ysum = [fh(h) for h in y["summary"]["press"]]
    if tot != ysum:
        bad("yaml-summary-not-column-totals", "YAML Summary.PortPressure %s, column totals of its Kernel %s" % (ysum, tot))
    # the YAML's own LatencyCP column adds up to its CriticalPath (lines off the critical path carry 0)
    ycp = fh(y["summary"]["cp"])
    cp_col = sum(fh(k["lat_cp"]) for k in y["kernel"])
    if abs(cp_col - ycp) > 1e-9 * max(1.0, abs(ycp)):
        bad("yaml-latencycp-do-not-sum-to-criticalpath", "YAML LatencyCP values %s add up to %r, Summary.CriticalPath %r" % (
            [fh(k["lat_cp"]) for k in y["kernel"] if fh(k["lat_cp"]) != 0.0][:8], cp_col, ycp))
    lcd_lats = [float(e["lat"]) for e in t["lcd_list"]]
    if t["summary"] is not None:
        for j, c in enumerate(t["summary"]["cells"]):
            v = ysum[j]
            if c == "":
                if v != 0.0:
                    bad("summary-cell-blank-but-nonzero", "port %s: blank, YAML total %r" % (y["ports"][j], v))
            elif not shown_equals(c, v):
                bad("summary-cell-differs-from-yaml", "port %s: printed %s, YAML total %r" % (y["ports"][j], c, v))
        cp_cells = [float(r["cp"]) for r in t["rows"] if r["cp"] != ""]
        if float(t["summary"]["cp"]) != fh(y["summary"]["cp"]):
            bad("cp-total-differs-from-yaml", "printed %s, YAML %r" % (t["summary"]["cp"], fh(y["summary"]["cp"])))
        if float(t["summary"]["cp"]) != sum(cp_cells):
            bad("cp-total-not-sum-of-cp-cells", "printed %s, CP cells sum to %r" % (t["summary"]["cp"], sum(cp_cells)))
        if float(t["summary"]["lcd"]) != fh(y["summary"]["lcd"]):
            bad("lcd-total-differs-from-yaml", "printed %s, YAML %r" % (t["summary"]["lcd"], fh(y["summary"]["lcd"])))
    # the LCD figure is the maximum latency over the listed dependencies (at the list's one decimal), 0 if none
    ylcd = fh(y["summary"]["lcd"])
    if not lcd_lats:
        if ylcd != 0.0:
            bad("lcd-total-not-maximum", "no LCD listed, YAML LCD %r" % ylcd)
    elif "{:.1f}".format(ylcd) != "{:.1f}".format(max(lcd_lats)):
        bad("lcd-total-not-maximum", "YAML LCD %r, listed latencies %s" % (ylcd, sorted(set(lcd_lats))))
    # the LCD column marks exactly the members of one maximal dependency
    marked = sorted(r["num"] for r in t["rows"] if r["lcd"] != "")
    if lcd_lats:
        mx = max(lcd_lats)
        cands = [sorted(set(e["members"])) for e in t["lcd_list"] if float(e["lat"]) == mx]
        if marked not in cands:
            bad("lcd-column-not-a-maximal-dependency", "LCD column marks %s; maximal listed dependencies %s" % (marked, cands[:3]))
        else:
            tot_cells = sum(float(r["lcd"]) for r in t["rows"] if r["lcd"] != "")
            if abs(tot_cells - ylcd) > 1e-6 * max(1.0, abs(ylcd)):
                bad("lcd-cells-do-not-sum-to-total", "LCD cells sum to %r, YAML LCD %r" % (tot_cells, ylcd))
    elif marked:
        bad("lcd-column-not-a-maximal-dependency", "LCD column marks %s but no dependency is listed" % marked)
    # ---- LCD list complete (against the analysis result itself)
    want_l = sorted((e[2][0][0] if e[2] else None, "{:.1f}".format(fh(e[1])), tuple(n for n, _ in e[2])) for e in s["lcd"])
    got_l = sorted((e["first"], e["lat"], tuple(e["members"])) for e in t["lcd_list"])
    if want_l != got_l:
        miss = [w for w in want_l if w not in got_l]
        bad("lcd-list-incomplete", "%d dependencies found, %d listed; first missing/wrong: %s" % (len(want_l), len(got_l), (miss or got_l)[:1]))
    # ---- warnings determined by the request
    if t["arch_warning"] != (not f["arch_given"]) or ("ArchWarning" in y["warnings"]) != (not f["arch_given"]):
        bad("arch-warning-iff-violated", "--arch given=%s, text warning=%s, YAML=%s" % (f["arch_given"], t["arch_warning"], y["warnings"]))
    want_len = (not f["lines_given"]) and (not f["marked"]) and f["n_parsed"] > 100
    if t["length_warning"] != want_len or ("LengthWarning" in y["warnings"]) != want_len:
        bad("length-warning-iff-violated", "lines given=%s marked=%s parsed lines=%d: text warning=%s, YAML=%s" % (
            f["lines_given"], f["marked"], f["n_parsed"], t["length_warning"], y["warnings"]))
    if t["lcd_warning"] != s["timed_out"] or ("LCDWarning" in y["warnings"]) != s["timed_out"]:
        bad("lcd-timeout-warning-iff-violated", "timed_out=%s, text=%s, YAML=%s" % (s["timed_out"], t["lcd_warning"], y["warnings"]))
    # ---- architecture used
    if t["arch"] != y["arch"]:
        bad("architecture-differs", "text %s, YAML %s" % (t["arch"], y["arch"]))
    if not f["arch_given"]:
        x86, a64 = res["counts"]
        isa = "aarch64" if a64 > x86 else "x86"
        if not res.get("fallback_expected") and (t["arch"] or "").upper() != default_archs[isa].upper():
            bad("default-arch-not-by-detected-isa", "register counts x86=%d aarch64=%d -> %s, report says %s" % (x86, a64, isa, t["arch"]))
    elif (t["arch"] or "").upper() != res["argv"][res["argv"].index("--arch") + 1].upper():
        bad("architecture-differs", "requested %s, report says %s" % (res["argv"], t["arch"]))
    return out
