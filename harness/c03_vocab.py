"""C03 (b): a curated vocabulary of real x86 (AT&T) and AArch64 instructions whose architectural register roles are known
from the ISA manuals, written down here independently of OSACA's ISA database.  For every entry the roles OSACA assigns
(ISASemantics.assign_src_dst: semantic_operands source / destination / src_dst, memory address registers, write-back base,
flags) are reduced to the sets KernelDG's is_read / is_written work with and compared with the table.

Registers are canonicalised by an own table (x86: rax/eax/ax/al/ah -> a, r8d -> r8, xmm3/ymm3/zmm3 -> v3, k1 -> k1;
AArch64: x3/w3 -> g3, b/h/s/d/q/v/z3 -> v3, p0 -> p0, sp/wsp -> sp).  Flags are one token `F` (any status flag).
`opt` lists reads that are architecturally arguable (merging moves, partial-register writes): accepted either way."""
import re

X86_GPR = {}
for fam, names in {"a": "rax eax ax al ah", "b": "rbx ebx bx bl bh", "c": "rcx ecx cx cl ch", "d": "rdx edx dx dl dh",
                   "si": "rsi esi si sil", "di": "rdi edi di dil", "bp": "rbp ebp bp bpl", "sp": "rsp esp sp spl"}.items():
    for n in names.split():
        X86_GPR[n] = fam


def canon_x86(name):
    n = name.lower()
    if n in X86_GPR:
        return X86_GPR[n]
    m = re.fullmatch(r"r(\d+)[dwb]?", n)
    if m:
        return "r" + m.group(1)
    m = re.fullmatch(r"[xyz]?mm(\d+)", n)
    if m:
        return ("v" if n[0] in "xyz" else "mm") + m.group(1)
    m = re.fullmatch(r"k(\d)", n)
    if m:
        return n
    return n


def canon_a64(prefix, name):
    p = (prefix or "").lower()
    n = str(name).lower()
    if n in ("sp", "wsp") or p + n in ("sp", "wsp"):
        return "sp"
    if n in ("zr", "xzr", "wzr") or (p in ("x", "w") and n == "zr"):
        return "zr"
    if p in ("x", "w"):
        return "g" + n
    if p in ("b", "h", "s", "d", "q", "v", "z"):
        return "v" + n
    if p == "p":
        return "p" + n
    return p + n


def impl_roles(form, isa):
    """(reads, writes) as canonical sets, from the roles the implementation assigned"""
    from osaca.parser.register import RegisterOperand
    from osaca.parser.memory import MemoryOperand
    from osaca.parser.flag import FlagOperand
    so = form.semantic_operands

    def c(r):
        return canon_x86(r.name) if isa == "x86" else canon_a64(r.prefix, r.name)
    reads, writes = set(), set()
    for lst, rd, wr in ((so["source"], True, False), (so["destination"], False, True), (so["src_dst"], True, True)):
        for o in lst:
            if isinstance(o, RegisterOperand):
                if rd:
                    reads.add(c(o))
                if wr:
                    writes.add(c(o))
            elif isinstance(o, FlagOperand):
                if rd:
                    reads.add("F")
                if wr:
                    writes.add("F")
            elif isinstance(o, MemoryOperand):
                for r in (o.base, o.index):
                    if isinstance(r, RegisterOperand):
                        reads.add(c(r))
    reads.discard("zr")
    writes.discard("zr")
    return reads, writes


def S(s):
    return set(s.split()) if s else set()


# text, reads, writes, optional reads          (F = status flags)
X86 = [
    ("movq %rax, %rbx", "a", "b", ""),
    ("movl %eax, %r9d", "a", "r9", ""),
    ("addq %rax, %rbx", "a b", "b F", ""),
    ("addq $1, %rax", "a", "a F", ""),
    ("subq %rcx, %rdx", "c d", "d F", ""),
    ("subl $4, %r10d", "r10", "r10 F", ""),
    ("imulq %rax, %rbx", "a b", "b F", ""),
    ("imulq $3, %rax, %rbx", "a", "b F", ""),
    ("andq %rax, %rbx", "a b", "b F", ""),
    ("orq %rsi, %rdi", "si di", "di F", ""),
    ("xorq %rax, %rbx", "a b", "b F", ""),
    ("xorl %eax, %eax", "", "a F", "a"),
    ("leaq 8(%rax,%rcx,4), %rdx", "a c", "d", ""),
    ("leaq (%rsi), %rdi", "si", "di", ""),
    ("cmpq %rax, %rbx", "a b", "F", ""),
    ("cmpl $7, %ecx", "c", "F", ""),
    ("testq %rax, %rax", "a", "F", ""),
    ("incq %rax", "a", "a F", ""),
    ("decl %ecx", "c", "c F", ""),
    ("negq %rsi", "si", "si F", ""),
    ("notq %rax", "a", "a", ""),
    ("bswap %eax", "a", "a", ""),
    ("xchgq %rax, %rbx", "a b", "a b", ""),
    ("sete %al", "F", "a", "a"),
    ("setne %cl", "F", "c", "c"),
    ("cmovne %rax, %rbx", "a b F", "b", ""),
    ("cmovl %ecx, %edx", "c d F", "d", ""),
    ("adcq %rax, %rbx", "a b F", "b F", ""),
    ("sbbq %rax, %rbx", "a b F", "b F", ""),
    ("mulq %rcx", "c a", "a d F", ""),
    ("imulq %rcx", "c a", "a d F", ""),
    ("divq %rcx", "c a d", "a d F", ""),
    ("idivl %ecx", "c a d", "a d F", ""),
    ("shlq $3, %rax", "a", "a F", ""),
    ("sarq %rax", "a", "a F", ""),
    ("shrq %cl, %rdx", "c d", "d F", ""),
    ("rolq $1, %rax", "a", "a F", ""),
    ("pushq %rax", "a sp", "sp", ""),
    ("popq %rbx", "sp", "b sp", ""),
    ("cltq", "a", "a", ""),
    ("cqto", "a", "d", ""),
    ("movzbl %al, %ecx", "a", "c", ""),
    ("movslq %eax, %rcx", "a", "c", ""),
    ("movq (%rax), %rbx", "a", "b", ""),
    ("movq %rbx, (%rax)", "a b", "", ""),
    ("movq %rbx, 8(%rax,%rcx,8)", "a b c", "", ""),
    ("addq %rbx, (%rax)", "a b", "F", ""),
    ("addq (%rax), %rbx", "a b", "b F", ""),
    ("incq (%rdi)", "di", "F", ""),
    ("cmpq (%rsi), %rax", "si a", "F", ""),
    ("vaddpd %ymm0, %ymm1, %ymm2", "v0 v1", "v2", ""),
    ("vmulpd %zmm3, %zmm4, %zmm5", "v3 v4", "v5", ""),
    ("vfmadd231pd %ymm0, %ymm1, %ymm2", "v0 v1 v2", "v2", ""),
    ("vfmadd213sd %xmm0, %xmm1, %xmm2", "v0 v1 v2", "v2", ""),
    ("addsd %xmm0, %xmm1", "v0 v1", "v1", ""),
    ("mulpd %xmm2, %xmm3", "v2 v3", "v3", ""),
    ("subps %xmm4, %xmm5", "v4 v5", "v5", ""),
    ("divsd %xmm0, %xmm1", "v0 v1", "v1", ""),
    ("sqrtsd %xmm0, %xmm1", "v0", "v1", "v1"),
    ("movapd %xmm0, %xmm1", "v0", "v1", ""),
    ("vmovapd %ymm0, %ymm1", "v0", "v1", ""),
    ("vmovupd (%rax,%rcx,8), %ymm0", "a c", "v0", ""),
    ("vmovupd %ymm0, (%rax,%rcx,8)", "a c v0", "", ""),
    ("movsd (%rax), %xmm0", "a", "v0", ""),
    ("movsd %xmm0, (%rax)", "a v0", "", ""),
    ("vaddpd (%rax), %ymm1, %ymm2", "a v1", "v2", ""),
    ("vxorpd %ymm0, %ymm0, %ymm0", "", "v0", "v0"),
    ("pxor %xmm1, %xmm1", "", "v1", "v1"),
    ("vxorpd %ymm0, %ymm1, %ymm2", "v0 v1", "v2", ""),
    ("ucomisd %xmm0, %xmm1", "v0 v1", "F", ""),
    ("comisd %xmm0, %xmm1", "v0 v1", "F", ""),
    ("vucomisd %xmm0, %xmm1", "v0 v1", "F", ""),
    ("ptest %xmm0, %xmm1", "v0 v1", "F", ""),
    ("cvtsi2sd %rax, %xmm0", "a", "v0", "v0"),
    ("cvttsd2si %xmm0, %rax", "v0", "a", ""),
    ("movq %xmm0, %rax", "v0", "a", ""),
    ("movq %rax, %xmm0", "a", "v0", ""),
    ("vmovq %xmm1, %rcx", "v1", "c", ""),
    ("unpcklpd %xmm0, %xmm1", "v0 v1", "v1", ""),
    ("shufpd $1, %xmm0, %xmm1", "v0 v1", "v1", ""),
    ("vpermilpd $5, %ymm0, %ymm1", "v0", "v1", ""),
    ("vextractf128 $1, %ymm0, %xmm1", "v0", "v1", ""),
    ("vinsertf128 $1, %xmm0, %ymm1, %ymm2", "v0 v1", "v2", ""),
    ("vbroadcastsd (%rax), %ymm0", "a", "v0", ""),
    ("vbroadcastsd %xmm1, %ymm0", "v1", "v0", ""),
    ("jne .L1", "F", "", ""),
    ("jmp .L2", "", "", ""),
    ("nop", "", "", ""),
]

A64 = [
    ("add x0, x1, x2", "g1 g2", "g0", ""),
    ("add x0, x0, #1", "g0", "g0", ""),
    ("add w3, w4, w5", "g4 g5", "g3", ""),
    ("sub x0, x1, #16", "g1", "g0", ""),
    ("sub x0, x1, x2, lsl #3", "g1 g2", "g0", ""),
    ("mul x0, x1, x2", "g1 g2", "g0", ""),
    ("madd x0, x1, x2, x3", "g1 g2 g3", "g0", ""),
    ("msub x0, x1, x2, x3", "g1 g2 g3", "g0", ""),
    ("neg x0, x1", "g1", "g0", ""),
    ("mvn x0, x1", "g1", "g0", ""),
    ("and x0, x1, x2", "g1 g2", "g0", ""),
    ("orr x0, x1, x2", "g1 g2", "g0", ""),
    ("eor x0, x1, x2", "g1 g2", "g0", ""),
    ("lsl x0, x1, #3", "g1", "g0", ""),
    ("lsr x0, x1, x2", "g1 g2", "g0", ""),
    ("mov x0, x1", "g1", "g0", ""),
    ("mov x0, #1", "", "g0", ""),
    ("movk x0, #1, lsl #16", "g0", "g0", ""),
    ("cmp x0, x1", "g0 g1", "F", ""),
    ("cmp w0, #4", "g0", "F", ""),
    ("tst x0, x1", "g0 g1", "F", ""),
    ("subs x0, x1, x2", "g1 g2", "g0 F", ""),
    ("adds x0, x1, #1", "g1", "g0 F", ""),
    ("csel x0, x1, x2, ne", "g1 g2 F", "g0", ""),
    ("cset x0, eq", "F", "g0", ""),
    ("csinc x0, x1, x2, lt", "g1 g2 F", "g0", ""),
    ("ldr x0, [x1]", "g1", "g0", ""),
    ("ldr x0, [x1, #8]", "g1", "g0", ""),
    ("ldr x0, [x1, #8]!", "g1", "g0 g1", ""),
    ("ldr x0, [x1], #8", "g1", "g0 g1", ""),
    ("ldr x0, [x1, x2, lsl #3]", "g1 g2", "g0", ""),
    ("ldr d0, [x1, x2]", "g1 g2", "v0", ""),
    ("ldr q0, [x1], #16", "g1", "v0 g1", ""),
    ("ldur x0, [x1, #-8]", "g1", "g0", ""),
    ("str x0, [x1]", "g0 g1", "", ""),
    ("str x0, [x1, #8]!", "g0 g1", "g1", ""),
    ("str d0, [x1], #8", "v0 g1", "g1", ""),
    ("str q0, [x1, x2]", "v0 g1 g2", "", ""),
    ("ldp x0, x1, [x2]", "g2", "g0 g1", ""),
    ("ldp q0, q1, [x2], #32", "g2", "v0 v1 g2", ""),
    ("ldp d0, d1, [x2, #16]", "g2", "v0 v1", ""),
    ("stp x0, x1, [x2, #16]!", "g0 g1 g2", "g2", ""),
    ("stp q0, q1, [x2]", "v0 v1 g2", "", ""),
    ("stp x29, x30, [sp, #-16]!", "g29 g30 sp", "sp", ""),
    ("ldp x29, x30, [sp], #16", "sp", "g29 g30 sp", ""),
    ("fadd d0, d1, d2", "v1 v2", "v0", ""),
    ("fmul s0, s1, s2", "v1 v2", "v0", ""),
    ("fsub d0, d1, d2", "v1 v2", "v0", ""),
    ("fdiv d0, d1, d2", "v1 v2", "v0", ""),
    ("fmadd d0, d1, d2, d3", "v1 v2 v3", "v0", ""),
    ("fmsub d0, d1, d2, d3", "v1 v2 v3", "v0", ""),
    ("fneg d0, d1", "v1", "v0", ""),
    ("fabs d0, d1", "v1", "v0", ""),
    ("fsqrt d0, d1", "v1", "v0", ""),
    ("fmov d0, d1", "v1", "v0", ""),
    ("fmov d0, x1", "g1", "v0", ""),
    ("fmov x0, d1", "v1", "g0", ""),
    ("scvtf d0, x1", "g1", "v0", ""),
    ("fcvtzs x0, d1", "v1", "g0", ""),
    ("fcmp d0, d1", "v0 v1", "F", ""),
    ("fadd v0.2d, v1.2d, v2.2d", "v1 v2", "v0", ""),
    ("fmul v0.4s, v1.4s, v2.4s", "v1 v2", "v0", ""),
    ("fmla v0.2d, v1.2d, v2.2d", "v0 v1 v2", "v0", ""),
    ("fmls v0.2d, v1.2d, v2.2d", "v0 v1 v2", "v0", ""),
    ("fmla v0.2d, v1.2d, v2.d[1]", "v0 v1 v2", "v0", ""),
    ("add v0.2d, v1.2d, v2.2d", "v1 v2", "v0", ""),
    ("mov v0.16b, v1.16b", "v1", "v0", ""),
    ("dup v0.2d, x1", "g1", "v0", ""),
    ("dup v0.2d, v1.d[0]", "v1", "v0", ""),
    ("movi v0.2d, #0", "", "v0", ""),
    ("eor v0.16b, v0.16b, v0.16b", "", "v0", "v0"),
    ("faddp d0, v1.2d", "v1", "v0", ""),
    ("ld1 {v0.2d}, [x1]", "g1", "v0", ""),
    ("ld1 {v0.2d}, [x1], #16", "g1", "v0 g1", ""),
    ("st1 {v0.2d}, [x1]", "v0 g1", "", ""),
    ("ld1d {z0.d}, p0/z, [x1, x2, lsl #3]", "p0 g1 g2", "v0", ""),
    ("st1d {z0.d}, p0, [x1, x2, lsl #3]", "v0 p0 g1 g2", "", ""),
    ("fmla z0.d, p0/m, z1.d, z2.d", "v0 v1 v2 p0", "v0", ""),
    ("fadd z0.d, z1.d, z2.d", "v1 v2", "v0", ""),
    ("whilelo p0.d, x1, x2", "g1 g2", "p0 F", ""),
    ("incd x0", "g0", "g0", ""),
    ("cbz x0, .L1", "g0", "", ""),
    ("cbnz w1, .L1", "g1", "", ""),
    ("tbz x0, #3, .L1", "g0", "", ""),
    ("b.ne .L1", "F", "", ""),
    ("b .L2", "", "", ""),
    ("nop", "", "", ""),
    ("prfm pldl1keep, [x1, #64]", "g1", "", ""),
    ("adrp x0, sym", "", "g0", ""),
]


def cases(isa):
    """the curated lines, plus -- the roles of an instruction do not depend on the VALUE of its immediate -- a twin of every line
    with an immediate in which that immediate is 0 / 0x0 (a falsy value: `if operand.value` instead of `is not None` in the look-up
    silently sends `cmp x1, #0` to the default rule)"""
    import re
    out = []
    for t, r, w, o in (X86 if isa == "x86" else A64):
        out.append((t, S(r), S(w), S(o)))
        rx = r"\$-?\d+" if isa == "x86" else r"#-?\d+(?!\w)"
        m = re.search(rx, t)
        if m and "lsl #" not in t[max(0, m.start() - 4):m.end()] and not re.search(r"\],\s*#|#-?\d+\]", t[m.start() - 3 if m.start() >= 3 else 0:m.end() + 1]):
            for z in ("0", "0x0"):
                t2 = t[:m.start()] + ("$" if isa == "x86" else "#") + z + t[m.end():]
                if t2 != t:
                    out.append((t2, S(r), S(w), S(o)))
    return out


def run(ctx, pipes_for):
    """pipes_for(isa) -> list of (arch, parser, semantics).  Reports role deviations as violations keyed per (isa, mnemonic form)."""
    cov = {"x86": 0, "aarch64": 0, "deviations": 0}
    for isa in ("x86", "aarch64"):
        for arch, parser, sem in pipes_for(isa):
            for text, reads, writes, opt in cases(isa):
                try:
                    form = parser.parse_line(text, 1)
                    sem.assign_src_dst(form)
                    got_r, got_w = impl_roles(form, isa)
                except Exception as e:  # noqa
                    ctx.violation("vocab-role-raises:%s:%s" % (isa, text.split()[0]), "%s `%s`: role assignment raises %r" % (arch, text, e),
                                  {"isa": isa, "arch": arch, "text": text, "kind": "vocab"})
                    continue
                ctx.count()
                cov[isa] += 1
                # flags are only compared when the ISA database models flags for this ISA at all (x86)
                if isa != "x86":
                    reads, writes, got_r, got_w = reads - {"F"}, writes - {"F"}, got_r - {"F"}, got_w - {"F"}
                bad = []
                if got_w != writes:
                    bad.append("writes %s, architecturally %s" % (sorted(got_w), sorted(writes)))
                if not (reads - opt <= got_r <= reads | opt):
                    bad.append("reads %s, architecturally %s%s" % (sorted(got_r), sorted(reads), (" (optional: %s)" % sorted(opt)) if opt else ""))
                if bad:
                    cov["deviations"] += 1
                    ctx.violation("vocab-roles:%s:%s" % (isa, text), "%s `%s`: %s" % (arch, text, "; ".join(bad)),
                                  {"isa": isa, "arch": arch, "text": text, "kind": "vocab"})
    ctx.coverage["curated_vocabulary"] = cov
