"""C17, translator tie (T) for the model-cache protocol of hw_model.py.

  1. tools/gen_c17.py translates the CURRENT source of MachineModel.__init__ / _get_cached / _write_in_cache /
     _write_cachefile into CacheGen.v (programs over the world operations of coq/Model/PyCache.v; fail closed), in the
     run's own scratch directory (logical path OVC), so concurrent runs of the check (a mutant tree next to the
     unchanged tree) never share it;
  2. a copy of coq/PropsGen/C17gen.v is compiled against that text: the regenerated load = the load of the hand model
     Model/Cache.v for every world, and the key theorems of Props/C17.v restated for the regenerated code;
  3. cross-check: the regenerated functions are EVALUATED (vm_compute) on every recorded history of this run -- each
     load / command line run / killed writer of the history is executed by the regenerated code on the model world, and
     every recorded observation (outcome of the run, state of every cache file after every operation) must agree.
     This validates the translator and its prelude against the real file system, pickle and os; it runs even when a
     proof of stage 2 fails (then it tells a translator problem from a change of the code).
     Simultaneous cold starts (EvRace) are interleavings: there the hand model's schedules are used (the tie is
     big-step: one load run alone)."""
import os
import re

import vlib
import gen_c17

PROPS = "PropsGen/C17gen.v"
GEN = "CacheGen.v"

TIE = r"""From Coq Require Import List Arith Bool String.
From OV Require Import Model.PyString Model.Cache Model.PyCache.
From OVC Require Import CacheGen.
Import ListNotations.
Open Scope string_scope. Open Scope nat_scope.
Set Printing Width 100000. Set Printing Depth 100000.

Definition self0 : val := VObj [("INTERNAL_VERSION", VInt g_INTERNAL_VERSION)].
Definition prog (pa : path) (lz : bool) : M := g__init__ self0 VNone (VPath (pp_of_path pa)) VNone (VBool lz).
Definition E00 : genv := mkGenv 1 0 (fun _ => false) false false (fun _ => CValueError) (fun _ => None).
Definition res_data (r : ores) : option val := match r with ROk (VObj f) => assoc f "_data" | _ => None end.
Definition nblocks : nat := Eval vm_compute in
  match res_data (fst (exec E00 (prog (mkPath 0 0) false) (mkGst (fun _ => 0) (fun _ => None) [] 0))) with
  | Some (VData d) => d_code d | _ => 0 end.

Definition pc_of_res (r : ores) : pc :=
  match res_data r with Some (VData d) => PDone d | Some (VLazy c) => PDoneLazy c | _ => PRaised end.
Definition rt_of (s : state) (pa : path) (prev : option nat) : list (pypath * val) :=
  match prev with
  | Some q => match pc_of s q with PDone d => [(pp_of_path pa, VData d)] | _ => [] end
  | None => []
  end.
Definition fin (s : state) (g : gst) (pid : nat) (pa : path) (lz : bool) (c : pc) : state :=
  mkState (yaml s) (gs_files g) (updp (procs s) pid (Some (mkProc pa lz c (yaml s pa) false None))).
(* one load by the REGENERATED code on the model world *)
Definition gload (E : genv) (s : state) (pid : nat) (pa : path) (lz : bool) (prev : option nat) : state :=
  let '(r, g) := exec E (prog pa lz) (mkGst (yaml s) (files s) (rt_of s pa prev) pid) in fin s g pid pa lz (pc_of_res r).
Definition gload_crash (E : genv) (s : state) (pid : nat) (pa : path) (k : nat) : state :=
  let '(r, g) := exec_crash E k (prog pa false) (mkGst (yaml s) (files s) [] pid) in
  fin s g pid pa false (match r with GKilled => PCrashed | GRes r => pc_of_res r end).

Definition gcli (E : genv) (s : state) (n : nat) (arch isa : path) (crash : option nat) (parch pisa : option nat) : state :=
  let ld := fun st pid pa prev => match crash with None => gload E st pid pa false prev | Some k => gload_crash E st pid pa k end in
  let s1 := ld s (3 * n) arch parch in
  match outcome_of s1 (3 * n) with
  | ODone _ => let s2 := ld s1 (3 * n + 1) isa pisa in
               match outcome_of s2 (3 * n + 1) with
               | ODone _ => gload E s2 (3 * n + 2) arch true None
               | _ => s2
               end
  | _ => s1
  end.

Definition gev_step (E : genv) (w : setup) (ss : list state) (e : event) : list state :=
  match e with
  | EvCli n a i c => map (fun s => gcli E s n a i c None None) ss
  | EvLoad pid pa lz => map (fun s => gload E s pid pa lz None) ss
  | EvLoadP pid pa prev => map (fun s => gload E s pid pa false (Some prev)) ss
  | EvCliP n a i pa pi => map (fun s => gcli E s n a i None pa pi) ss
  | EvRace pids pa => flat_map (fun s => [race w s pids pa 0; race w s pids pa 1; race w s pids pa 2]) ss
  | _ => ev_step w ss e
  end.
Fixpoint gtrace_fail (E : genv) (w : setup) (ss : list state) (es : list event) (i : nat) : option nat :=
  match es with
  | [] => None
  | e :: r => match gev_step E w ss e with [] => Some i | ss' => gtrace_fail E w ss' r (S i) end
  end.

(* the harness writes data as (INTERNAL_VERSION, 0, content); the regenerated code builds (S INTERNAL_VERSION, nblocks, content) *)
Definition emb (d : data) : data := mkData (S (d_iv d)) (if d_code d =? 0 then nblocks else 50 + d_code d) (d_src d).
Definition emb_ev (e : event) : event :=
  match e with
  | EvPlant l k d => EvPlant l k (emb d)
  | EvSeeFile l (OComplete d) => EvSeeFile l (OComplete (emb d))
  | EvSeeCli n (ODone d) => EvSeeCli n (ODone (emb d))
  | EvSeeLoad p (ODone d) => EvSeeLoad p (ODone (emb d))
  | e => e
  end.
Definition apath := mkPath 0 0. Definition ipath := mkPath 1 1. Definition opath := mkPath 2 0.
Definition gresult (dirw : bool) (s : state) (es : list event) : string :=
  let E := mkGenv @NCH@ 0 (fun _ => dirw) true true (fun _ => CValueError) (fun _ => None) in
  let w := mkSetup @NCH@ (mkCfg (S g_INTERNAL_VERSION) nblocks) AtomicRename (mkEnv (fun _ => dirw) true) false RtIgnored in
  match gtrace_fail E w [s] (map emb_ev es) 0 with None => "ok" | Some i => String.append "fail@" (string_of_nat i) end.
"""

SHARD = """From Coq Require Import List Arith Bool String.
From OV Require Import Model.PyString Model.Cache Model.PyCache.
From OVC Require Import CacheGen C17tie.
Import ListNotations.
Set Printing Width 100000. Set Printing Depth 100000.
"""


def theorem_names():
    src = open(os.path.join(vlib.COQ, PROPS)).read()
    return re.findall(r"^(?:Theorem|Corollary)\s+([A-Za-z0-9_']+)", src, re.M)


def run_T(ctx):
    """regenerate, compile, prove.  -> {"ok": translated and compiled, "proved": bool, "dir": ...}"""
    d = os.path.join(ctx.scratch, "cases")
    os.makedirs(d, exist_ok=True)
    ok, text, meta = gen_c17.generate(vlib.REPO, d, GEN)
    ctx.obligation("translate MachineModel.__init__ / _get_cached / _write_in_cache / _write_cachefile from the current hw_model.py "
                   "(tools/gen_c17.py)", "translation", ok, "" if ok else text)
    out = {"ok": False, "proved": False, "dir": d, "meta": meta}
    names = theorem_names()
    if not ok:
        for nme in names:
            ctx.obligation("theorem %s (%s)" % (nme, PROPS), "theorem", False, "generated definitions unavailable: " + text)
        return out
    if vlib.REPO == "/repo":
        try:      # a copy for the reader (never compiled from here: concurrent runs would race)
            os.makedirs(os.path.join(vlib.COQ, "Gen"), exist_ok=True)
            tmp = os.path.join(vlib.COQ, "Gen", "CacheGen.v.tmp%d" % os.getpid())
            with open(tmp, "w") as f:
                f.write(text)
            os.replace(tmp, os.path.join(vlib.COQ, "Gen", "CacheGen.v.txt"))
        except OSError:
            pass
    c, o, dt = ctx.coqc(os.path.join(d, GEN), extra_q=[(d, "OVC")])
    ctx.obligation("generated %s type-checks" % GEN, "translation", c, o)
    bad = [b for b in vlib.hygiene_scan(d)]
    ctx.obligation("generated %s declares no axiom" % GEN, "hygiene", not bad, "\n".join(bad))
    if not c:
        for nme in names:
            ctx.obligation("theorem %s (%s)" % (nme, PROPS), "theorem", False, "generated definitions do not compile")
        return out
    out["ok"] = True
    src = open(os.path.join(vlib.COQ, PROPS)).read()
    vfile = os.path.join(d, "C17gen.v")
    with open(vfile, "w") as f:
        f.write(src)
    c2, o2, dt2 = ctx.coqc(vfile, timeout=900, extra_q=[(d, "OVC")])
    for nme in names:
        ctx.obligation("theorem %s (%s)" % (nme, PROPS), "theorem", c2, "" if c2 else o2[-1500:])
    if c2:
        ctx.print_assumptions[PROPS] = vlib.parse_assumptions(o2)
    ctx.checker_cmds.append("coqc -Q coq OV -Q <scratch> OVC PropsGen/C17gen.v")
    ctx.log("T: %s generated (%d lines, INTERNAL_VERSION %s, %s neutral statements in __init__), coqc %.1fs; %s: %s in %.1fs (%d theorems)" % (
        GEN, text.count("\n"), meta.get("INTERNAL_VERSION"), meta.get("neutral_statements", {}).get("__init__"), dt, PROPS,
        "ok" if c2 else "FAILED", dt2, len(names)))
    out["proved"] = c2
    ctx.coverage["translator_tie"] = {"generated_lines": text.count("\n"), "theorems": len(names), "proved": c2,
                                      "coqc_s": round(dt + dt2, 1), "meta": meta}
    return out


def cross_check(ctx, T, batches, nch):
    """batches: [(tag, specs, worlds)].  Every recorded history is replayed by the regenerated code."""
    d = T["dir"]
    with open(os.path.join(d, "C17tie.v"), "w") as f:
        f.write(TIE.replace("@NCH@", str(nch)))
    c, o, dt = ctx.coqc(os.path.join(d, "C17tie.v"), extra_q=[(d, "OVC")])
    if not c:
        ctx.obligation("cross-check driver compiles against the regenerated definitions", "correspondence", False, o[-1500:])
        return
    total, rejected = 0, []
    for tag, specs, worlds in batches:
        shards, size = [], 8
        for a in range(0, len(worlds), size):
            parts = [SHARD]
            terms = []
            for i, w in enumerate(worlds[a:a + size]):
                parts.append("Definition h%d : list event := [\n  %s].\n" % (i, ";\n  ".join(w.events)))
                _, s0 = w.coq_setup("AtomicRename", 0)
                terms.append("gresult %s %s h%d" % ("false" if w.mode == "home" else "true", s0, i))
            parts.append("Eval vm_compute in (String.concat \",\" [%s]).\n" % "; ".join(terms))
            shards.append(("c17tie_%s_%d" % (tag, a // size), "".join(parts)))
        results = ctx.coq_eval_many(shards, timeout=300)
        res, broken = [], ""
        for (ok, out) in results:
            if not ok or len(out) != 1:
                broken = (out[0] if out else "no output")[-1500:]
                continue
            res += out[0].split(",")
        if broken or len(res) != len(worlds):
            ctx.obligation("cross-check (%s): evaluation of the regenerated functions compiles" % tag, "correspondence", False, broken)
            continue
        total += len(worlds)
        for i, r in enumerate(res):
            if r != "ok":
                k = int(r.split("@")[1])
                rejected.append("%s history %d %s: event %d %s is not what the regenerated code does; log:\n%s" % (
                    tag, i, specs[i]["ops"], k, worlds[i].events[k] if k < len(worlds[i].events) else "?", "\n".join(worlds[i].log)))
    ctx.obligation("cross-check: the regenerated __init__/_get_cached/_write_in_cache/_write_cachefile, evaluated on the model world, "
                   "reproduce all %d recorded histories (outcome of every run and state of every cache file after every operation)" % total,
                   "correspondence", not rejected, "%d rejected; first: %s" % (len(rejected), rejected[0][:3000]) if rejected else "")
    ctx.coverage.setdefault("translator_tie", {})["cross_checked_histories"] = total
    ctx.count(total)


def run(ctx, histories, nch):
    """The one entry point used by checks/c17.py.  histories: callable that executes the histories of the check and returns
    [(tag, specs, worlds)].  Stage 1-2 (translate, compile, prove: ~90 s of coqc) runs in a thread meanwhile; stage 3 afterwards."""
    import threading
    box = {}

    def work():
        try:
            box["T"] = run_T(ctx)
        except Exception as e:          # never lose a failure of the tie in a thread
            box["err"] = repr(e)
    th = threading.Thread(target=work)
    th.start()
    try:
        batches = histories()
    finally:
        th.join()
    if "err" in box:
        ctx.obligation("translator tie stage ran", "translation", False, box["err"])
        return None
    T = box["T"]
    if T["ok"]:
        cross_check(ctx, T, batches, nch)
    ctx.trusted += [
        "tools/gen_c17.py (translator) and coq/Model/PyCache.v (semantics of the Python constructs and of pathlib / open / pickle / "
        "hashlib / os / yaml.load / utils.find_datafile as operations on the abstract world): validated on every run by evaluating the "
        "regenerated functions on all recorded histories",
        "statements of __init__ that touch nothing of the cache protocol (whitelist of names; the YAML-to-classes conversion) are not "
        "translated: they advance the code identity of the data (py_opaque)",
        "file names are symbolic: the stem of a model file, a hex digest and a pid contain no '.' (a model file `a.b.yml` is outside "
        "the model; see notes/C17-gen.md for what the code does with it)",
    ]
    return T
