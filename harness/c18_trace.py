"""C18 -- the recorded traces of the real process evaluated by the Coq store model (Model/Store.v: trace_result).

The driver's Observer recorded, for every costed line of every call, WHICH shared lists the costing read (identity of
the entry's micro-op list, of the load-table row, of the store-table row; copies of the default rows; the empty
write-back-only store list) and the micro-op list the line ended up with.  The model is given the PRISTINE content of
those lists (loaded after the history) and must, with the CopyThenExtend composition, (1) reproduce every observed
micro-op list and (2) end in a pristine store.  The same traces are also evaluated with ExtendInPlace: on a correct tree
that model must be rejected by at least one trace (the histories exercise the sharing site)."""
import json


def _lst(xs):
    return "[" + "; ".join(xs) + "]"


class Codes(object):
    def __init__(self):
        self.m = {}

    def __call__(self, u):
        if u not in self.m:
            self.m[u] = len(self.m) + 1
        return str(self.m[u])

    def lst(self, us):
        return _lst([self(u) for u in us])


def unit_text(idx, style, calls, results, tables):
    """-> (coq definitions, name) or None when the history carries no observation"""
    codes = Codes()
    paths = sorted(tables.keys())
    pid = {p: i for i, p in enumerate(paths)}
    dense = {}
    defs = []
    for p in paths:
        t = tables[p]
        ek = list(t["e"].keys())
        lk = sorted(t["l"].keys(), key=int)
        sk = sorted(t["s"].keys(), key=int)
        dense[p] = ({k: i for i, k in enumerate(ek)}, {int(k): i for i, k in enumerate(lk)}, {int(k): i for i, k in enumerate(sk)})
        defs.append("Definition d%d_%d : mdata := MData %s %s %s %s %s [].\n" % (
            idx, pid[p], _lst([codes.lst(t["e"][k]) for k in ek]), _lst([codes.lst(t["l"][k]) for k in lk]),
            _lst([codes.lst(t["s"][k]) for k in sk]), codes.lst(t["ldef"]), codes.lst(t["sdef"])))
    defs.append("Definition disk%d (p : nat) : mdata := match p with %s | _ => MData [] [] [] [] [] [] end.\n" % (
        idx, " | ".join("%d => d%d_%d" % (pid[p], idx, pid[p]) for p in paths) or "0 => MData [] [] [] [] [] []"))
    cs = []
    ninstr = 0
    for c, r in zip(calls, results):
        obs = r.get("obs", [])
        path = None
        for o in obs:
            if o.get("path") in pid:
                path = o["path"]
        if path is None:
            continue
        ed, ld, sd = dense[path]
        ins, seen = [], []
        for o in obs:
            k = o["k"]
            ninstr += 1
            seen.append(codes.lst(o.get("uops", [])))
            if k == "N":
                ins.append("NonInstr")
            elif k == "U":
                ins.append("Unknown")
            elif k == "D":
                ins.append("Direct %d None" % ed["%s/%d" % tuple(o["e"])])
            else:
                l, s = o.get("l"), o.get("s")
                lt = "None" if l is None else "(Some (LRow %d))" % ld[l[1]] if l[0] == "row" else "(Some LDef)" if l[0] == "def" else "(Some (LLit %s))" % codes.lst(l[1])
                st = ("None" if s is None else "(Some (SRow %d))" % sd[s[1]] if s[0] == "row" else "(Some SDef)" if s[0] == "def"
                      else "(Some SEmpty)" if s[0] == "none" else "(Some (SLit %s))" % codes.lst(s[1]))
                ins.append("Composed %d %s %s None" % (ed["%s/%d" % tuple(o["e"])], lt, st))
        cs.append("(Req %d %d %s, %s)" % (pid[path], 1000 + pid[path], _lst(ins), _lst(seen)))
    if not cs:
        return None
    defs.append("Definition u%d : list (request * list (list uop)) := %s.\n" % (idx, _lst(cs)))
    return "".join(defs), ninstr


PRELUDE = """From Coq Require Import List Arith Bool String.
From OV Require Import Model.PyString Model.Store.
Import ListNotations.
Set Printing Width 100000. Set Printing Depth 100000.
"""


def check_traces(ctx, hists, results, per_shard=8):
    units = []
    obs_bad = []
    for i, (h, r) in enumerate(zip(hists, results)):
        if "results" not in r:
            continue
        if r.get("observer_ok") is False:
            obs_bad.append(r.get("observer_why", ""))
            continue
        try:
            t = unit_text(len(units), h["style"], h["calls"], r["results"], r.get("tables", {}))
        except Exception as e:  # noqa
            obs_bad.append("history %d: %s: %s" % (i, type(e).__name__, e))
            continue
        if t:
            units.append((i, "Reuse" if h["style"] == "reuse" else "Reload", t[0], t[1]))
    ctx.obligation("observation of the costing (which shared lists each line read) works on this tree", "correspondence",
                   not obs_bad, "\n".join(obs_bad[:3]))
    if not units:
        ctx.obligation("trace evaluation: at least one observed history", "correspondence", False, "no observations")
        return
    shards = []
    for a in range(0, len(units), per_shard):
        us = units[a:a + per_shard]
        text = PRELUDE + "".join(u[2] for u in us)
        for md in ("CopyThenExtend", "ExtendInPlace"):
            text += "Eval vm_compute in (String.concat \",\" [%s]).\n" % "; ".join(
                "trace_result disk%d %s %s u%d" % (k, u[1], md, k) for k, u in zip(range(a, a + len(us)), us))
        shards.append(("c18_trace_%d" % (a // per_shard), text))
    res = ctx.coq_eval_many(shards, timeout=300)
    copy, inplace, broken = [], [], ""
    for ok, out in res:
        if not ok or len(out) != 2:
            broken = (out[0] if out else "no output")[-1500:]
            continue
        copy += out[0].split(",")
        inplace += out[1].split(",")
    if broken or len(copy) != len(units):
        ctx.obligation("trace evaluation compiles", "correspondence", False, broken)
        return
    rej = [k for k, v in enumerate(copy) if v != "ok/pristine"]
    rej_ip = [k for k, v in enumerate(inplace) if v != "ok/pristine"]
    detail = ""
    if rej:
        k = rej[0]
        hi = units[k][0]
        h = hists[hi]
        detail = "%d of %d traces are not runs of the CopyThenExtend model (of those, accepted by ExtendInPlace up to the store: %d); first: %s history %s -> %s (ExtendInPlace model: %s)" % (
            len(rej), len(units), len([j for j in rej if inplace[j].startswith("ok")]), h["style"],
            json.dumps([[c["arch"], c["file"].split("/")[-1], c["opts"]] for c in h["calls"]]), copy[k], inplace[k])
    ninstr = sum(u[3] for u in units)
    ctx.obligation("correspondence: all %d observed histories (%d costed lines: lists read + micro-op list obtained) are runs of the "
                   "CopyThenExtend model from the pristine tables, ending in a pristine store" % (len(units), ninstr),
                   "correspondence", not rej, detail)
    ctx.obligation("the observed histories discriminate: the ExtendInPlace model is rejected by at least one of them",
                   "correspondence", bool(rej_ip) or bool(rej), "every trace is also a run of the in-place model: the sharing site was not exercised")
    ctx.coverage["model_acceptance"] = {"traces": len(units), "costed_lines": ninstr,
                                        "accepted_by_CopyThenExtend": len(units) - len(rej),
                                        "accepted_by_ExtendInPlace": len(units) - len(rej_ip)}
    ctx.log("traces: %d histories / %d costed lines; CopyThenExtend model accepts %d, ExtendInPlace model accepts %d" % (
        len(units), ninstr, len(units) - len(rej), len(units) - len(rej_ip)))
