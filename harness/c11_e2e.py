"""C11 end-to-end metamorphic oracle on the real implementation (osaca.osaca.run -> inspect):
marked file (every marker style) vs --lines vs kernel-only file vs noise-line insertions must give the same
per-instruction and summary numbers.  Runs in-process; model files come from harness/models.data_dir()
(scratch copy keyed by the code hash: never a stale pickle, never the default arch)."""
import glob
import io
import os
import re
import contextlib
import vlib
import models
import c11_gen as G

_ready = False


def setup():
    global _ready
    if _ready:
        return
    import osaca.utils
    d = models.data_dir()
    if d not in osaca.utils.DATA_DIRS:
        osaca.utils.DATA_DIRS.insert(0, d)
    _ready = True


def run_osaca(argv):
    """-> (report text, None) or (None, 'ExcType: msg')"""
    import osaca.osaca as O
    setup()
    p = O.create_parser()
    with contextlib.redirect_stderr(io.StringIO()):
        try:
            a = p.parse_args(argv)
            O.check_arguments(a, p)
        except SystemExit as e:
            return None, "SystemExit(%s)" % e
    out = io.StringIO()
    try:
        with contextlib.redirect_stdout(io.StringIO()):
            O.run(a, output_file=out)
    except Exception as e:  # noqa
        return None, "%s: %s" % (type(e).__name__, e)
    finally:
        try:
            a.file.close()
        except Exception:
            pass
    return out.getvalue(), None


ROW = re.compile(r"^(\s*)(\d+)( \|.*)$")
BRK = re.compile(r"\[([0-9, ]+)\]\s*$")


def canon(report, renum):
    """Strip the header block, drop rows of lines that are not in renum (inserted noise), renumber the rest."""
    i = report.find("Combined Analysis Report")
    if i < 0:
        return "NO-REPORT\n" + report
    out = []
    lcd_rows = None      # rows of the LCD report: their order is the dict order of the workers' results (C16's subject)
    for line in report[i:].split("\n"):
        if line.startswith("Loop-Carried Dependencies Analysis Report"):
            lcd_rows = []
        m = ROW.match(line)
        if m:
            n = int(m.group(2))
            if n not in renum:
                continue
            rest = m.group(3)
            b = BRK.search(rest) if lcd_rows is not None else None    # only LCD rows end in a list of line numbers
            if b:
                ids = [int(x) for x in b.group(1).replace(" ", "").split(",") if x]
                rest = rest[:b.start()] + "[" + ", ".join(str(renum.get(x, "?%d" % x)) for x in ids) + "]"
            row = "%4d%s" % (renum[n], rest.rstrip())
            if lcd_rows is not None:
                lcd_rows.append(row)
            else:
                out.append(row)
        else:
            if lcd_rows:
                out += sorted(lcd_rows)
                lcd_rows = []
            t = line.strip()          # centring / rule lengths depend on the width of the line-number column
            out.append("---" if t and set(t) == {"-"} else t)
    if lcd_rows:
        out += sorted(lcd_rows)
    return "\n".join(out)


def shipped_kernels():
    fs = sorted(glob.glob(os.path.join(vlib.REPO, "examples", "*", "*.s")) + glob.glob(os.path.join(vlib.REPO, "tests", "test_files", "*.s")))
    return [f for f in fs if not f.endswith(".copy.s")]


def isa_of_file(path, text):
    from osaca.parser import BaseParser
    b = os.path.basename(path)
    if any(t in b for t in ("aarch64", "tx2", "arm", "a64fx")):
        return "aarch64"
    if any(t in b for t in ("x86", "csx", "zen", "icl", "skx")):
        return "x86"
    return BaseParser.detect_ISA(text)


def extract_kernel(path):
    """-> (isa, [kernel text lines]) via the real parser and reduce_to_section, or None if unusable"""
    from osaca.parser import get_parser
    from osaca.semantics import reduce_to_section
    text = open(path).read()
    isa = isa_of_file(path, text)
    try:
        parsed = get_parser(isa).parse_file(text)
        kernel = reduce_to_section(parsed, isa)
    except Exception:
        return None
    if not kernel:
        return None
    lines = text.split("\n")
    a, b = kernel[0].line_number, kernel[-1].line_number
    ktext = lines[a - 1:b]
    # keep it analysable in reasonable time
    if sum(1 for l in kernel if l.mnemonic is not None) == 0 or len(ktext) > 120:
        return None
    return isa, ktext


NOISE_KINDS = ["comment", "label", "directive", "blank"]


def noise_line(rng, isa, k, uid):
    if k == "comment":
        return G.CMT[isa] + " " + rng.choice(["noise", "OSACA-BEGIN not", "LLVM-MCA-END", "mov x1, #111" if isa == "aarch64" else "movl $111, %ebx"])
    if k == "label":
        return ".LNOISE%d:" % uid
    if k == "directive":
        return rng.choice(G.NOISE_DIRECTIVES)
    return rng.choice(["", "  ", "\t"])


def build_variants(rng, isa, ktext, n_noise_variants):
    """-> list of (name, file text, argv extras, renum)  -- renum: physical line -> index of the kernel line"""
    out = []
    pro = [l for l in G.segment(rng, isa, rng.randrange(1, 5))]
    epi = [l for l in G.segment(rng, isa, rng.randrange(1, 4))]
    # kernel-only file
    out.append(("kernel-only", "\n".join(ktext) + "\n", [], {i + 1: i for i in range(len(ktext))}))
    styles = ["comment", "one", "each", "many"]
    for st in styles:
        sm = G.marker(rng, isa, "start", st)
        em = G.marker(rng, isa, "end", rng.choice(styles))
        lines = pro + sm + ktext + em + epi
        off = len(pro) + len(sm)
        renum = {off + i + 1: i for i in range(len(ktext))}
        out.append(("marked-" + st, "\n".join(lines) + "\n", [], renum))
        if st == "one":
            a, b = off + 1, off + len(ktext)
            if b - a >= 3 and rng.random() < 0.7:
                m = rng.randrange(a + 1, b)
                spec = "%d-%d,%d,%d:%d" % (a, m - 1, m, m + 1, b)
            else:
                spec = "%d%s%d" % (a, rng.choice("-:"), b)
            out.append(("lines", "\n".join(lines) + "\n", ["--lines", spec], renum))
            # the same line set named in a different ORDER (and with a repeated item): still the lines in file order
            if b - a >= 3:
                m = rng.randrange(a + 1, b)
                spec2 = "%d:%d,%d-%d,%d" % (m, b, a, m - 1, a)
                out.append(("lines-unordered", "\n".join(lines) + "\n", ["--lines", spec2], renum))
    for v in range(n_noise_variants):
        sm = G.marker(rng, isa, "start", rng.choice(styles))
        em = G.marker(rng, isa, "end", rng.choice(styles))
        body, renum_rel = [], {}
        kinds = rng.sample(NOISE_KINDS, rng.randrange(1, 5))
        dens = rng.choice([0.15, 0.4, 1.0])
        for i, l in enumerate(ktext):
            while rng.random() < dens / (1 + dens):
                body.append(noise_line(rng, isa, rng.choice(kinds), len(body)))
            renum_rel[len(body)] = i
            body.append(l)
        while rng.random() < 0.5:
            body.append(noise_line(rng, isa, rng.choice(kinds), len(body)))
        lines = pro + sm + body + em + epi
        off = len(pro) + len(sm)
        out.append(("noise-%d[%s]" % (v, ",".join(sorted(kinds))), "\n".join(lines) + "\n", [], {off + k + 1: i for k, i in renum_rel.items()}))
    return out


def check_kernel(ctx, rng, path, arch, n_noise, workdir):
    """Runs all variants; returns list of (variant name, detail, replay obj) disagreements, plus stats."""
    ek = extract_kernel(path)
    if ek is None:
        return None, []
    isa, ktext = ek
    variants = build_variants(rng, isa, ktext, n_noise)
    reports = []
    for j, (name, text, extra, renum) in enumerate(variants):
        f = os.path.join(workdir, "v%d.s" % j)
        with open(f, "w") as fh:
            fh.write(text)
        argv = ["--arch", arch] + extra + [f]
        if j == 0:
            run_osaca(argv)                     # warm-up: first use of a model in this process (cf. C18)
        rep, err = run_osaca(argv)
        reports.append((name, text, extra, canon(rep, renum) if rep is not None else "EXCEPTION " + err))
    ref = reports[0]
    bad = []
    # a state-dependent analysis (C18's subject) would make any comparison meaningless: re-run the reference
    rep2, err2 = run_osaca(["--arch", arch, os.path.join(workdir, "v0.s")])
    again = canon(rep2, variants[0][3]) if rep2 is not None else "EXCEPTION " + err2
    if again != ref[3]:
        return {"isa": isa, "lines": len(ktext), "variants": len(variants), "unstable": True}, []
    for name, text, extra, rep in reports[1:]:
        if rep != ref[3]:
            a, b = ref[3].split("\n"), rep.split("\n")
            diff = next(("ref: %r | %s: %r" % (x, name, y) for x, y in zip(a, b) if x != y), "length %d vs %d" % (len(a), len(b)))
            bad.append((name, diff, {"kernel_file": os.path.relpath(path, vlib.REPO), "arch": arch, "variant": name, "file_text": text,
                                     "extra_args": extra, "kernel_text": "\n".join(ktext) + "\n",
                                     "renum": {str(k): v for k, v in dict(next(r for n_, t_, e_, r in variants if n_ == name)).items()}}))
    return {"isa": isa, "lines": len(ktext), "variants": len(variants), "unstable": False}, bad
