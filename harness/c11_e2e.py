"""C11 end-to-end metamorphic oracle on the real implementation (osaca.osaca.run -> inspect):
marked file (every marker style) vs --lines vs kernel-only file vs noise-line insertions must give the same
per-instruction and summary numbers.  Runs in-process; model files come from harness/models.data_dir()
(scratch copy keyed by the code hash: never a stale pickle, never the default arch)."""
import glob
import io
import os
import re
import contextlib
import vlib
import models
import c11_gen as G

_ready = False


def setup():
    global _ready
    if _ready:
        return
    import osaca.utils
    d = models.data_dir()
    if d not in osaca.utils.DATA_DIRS:
        osaca.utils.DATA_DIRS.insert(0, d)
    _ready = True


def run_osaca(argv):
    """-> (report text, None) or (None, 'ExcType: msg')"""
    import osaca.osaca as O
    setup()
    p = O.create_parser()
    with contextlib.redirect_stderr(io.StringIO()):
        try:
            a = p.parse_args(argv)
            O.check_arguments(a, p)
        except SystemExit as e:
            return None, "SystemExit(%s)" % e
    out = io.StringIO()
    try:
        with contextlib.redirect_stdout(io.StringIO()):
            O.run(a, output_file=out)
    except Exception as e:  # noqa
        return None, "%s: %s" % (type(e).__name__, e)
    finally:
        try:
            a.file.close()
        except Exception:
            pass
    return out.getvalue(), None


ROW = re.compile(r"^(\s*)(\d+)( \|.*)$")
BRK = re.compile(r"\[([0-9, ]+)\]\s*$")


def canon(report, renum):
    """Strip the header block, drop rows of lines that are not in renum (inserted noise), renumber the rest."""
    i = report.find("Combined Analysis Report")
    if i < 0:
        return "NO-REPORT\n" + report
    out = []
    lcd_rows = None      # rows of the LCD report: their order is the dict order of the workers' results (C16's subject)
    for line in report[i:].split("\n"):
        if line.startswith("Loop-Carried Dependencies Analysis Report"):
            lcd_rows = []
        m = ROW.match(line)
        if m:
            n = int(m.group(2))
            if n not in renum:
                continue
            rest = m.group(3)
            b = BRK.search(rest) if lcd_rows is not None else None    # only LCD rows end in a list of line numbers
            if b:
                ids = [int(x) for x in b.group(1).replace(" ", "").split(",") if x]
                rest = rest[:b.start()] + "[" + ", ".join(str(renum.get(x, "?%d" % x)) for x in ids) + "]"
            row = "%4d%s" % (renum[n], rest.rstrip())
            if lcd_rows is not None:
                lcd_rows.append(row)
            else:
                out.append(row)
        else:
            if lcd_rows:
                out += sorted(lcd_rows)
                lcd_rows = []
            t = line.strip()          # centring / rule lengths depend on the width of the line-number column
            out.append("---" if t and set(t) == {"-"} else t)
    if lcd_rows:
        out += sorted(lcd_rows)
    return "\n".join(out)


def shipped_kernels():
    fs = sorted(glob.glob(os.path.join(vlib.REPO, "examples", "*", "*.s")) + glob.glob(os.path.join(vlib.REPO, "tests", "test_files", "*.s")))
    return [f for f in fs if not f.endswith(".copy.s")]


def isa_of_file(path, text):
    from osaca.parser import BaseParser
    b = os.path.basename(path)
    if any(t in b for t in ("aarch64", "tx2", "arm", "a64fx")):
        return "aarch64"
    if any(t in b for t in ("x86", "csx", "zen", "icl", "skx")):
        return "x86"
    return BaseParser.detect_ISA(text)


def extract_kernel(path):
    """-> (isa, [kernel text lines]) via the real parser and reduce_to_section, or None if unusable"""
    from osaca.parser import get_parser
    from osaca.semantics import reduce_to_section
    text = open(path).read()
    isa = isa_of_file(path, text)
    try:
        parsed = get_parser(isa).parse_file(text)
        kernel = reduce_to_section(parsed, isa)
    except Exception:
        return None
    if not kernel:
        return None
    lines = text.split("\n")
    a, b = kernel[0].line_number, kernel[-1].line_number
    ktext = lines[a - 1:b]
    # keep it analysable in reasonable time
    if sum(1 for l in kernel if l.mnemonic is not None) == 0 or len(ktext) > 120:
        return None
    return isa, ktext


NOISE_KINDS = ["comment", "label", "directive", "blank"]


def noise_line(rng, isa, k, uid):
    if k == "comment":
        return G.CMT[isa] + " " + rng.choice(["noise", "OSACA-BEGIN not", "LLVM-MCA-END", "mov x1, #111" if isa == "aarch64" else "movl $111, %ebx"])
    if k == "label":
        return ".LNOISE%d:" % uid
    if k == "directive":
        return rng.choice(G.NOISE_DIRECTIVES)
    return rng.choice(["", "  ", "\t"])


def build_variants(rng, isa, ktext, n_noise_variants):
    """-> list of (name, file text, argv extras, renum)  -- renum: physical line -> index of the kernel line"""
    out = []
    pro = [l for l in G.segment(rng, isa, rng.randrange(1, 5))]
    epi = [l for l in G.segment(rng, isa, rng.randrange(1, 4))]
    if rng.random() < 0.5:
        # characters that str.splitlines() takes for line ends but that neither the assembler, an editor nor --lines count as such
        # (GNU-style ^L page breaks in file headers): a line is what ends at "\n"
        ch = rng.choice(["\x0c", "\x0c", "\x0b", "\x1c", "\x1d", "\x1e"])
        # (inside a comment only on x86: the AArch64 comment grammar accepts printable characters only -- C10's stated assumption)
        pro.insert(rng.randrange(len(pro) + 1), rng.choice([ch, "\t" + ch] + ([G.CMT[isa] + " page" + ch + "break"] if isa == "x86" else [])))
    # kernel-only file
    out.append(("kernel-only", "\n".join(ktext) + "\n", [], {i + 1: i for i in range(len(ktext))}))
    styles = ["comment", "one", "each", "many"]
    for st in styles:
        sm = G.marker(rng, isa, "start", st)
        em = G.marker(rng, isa, "end", rng.choice(styles))
        lines = pro + sm + ktext + em + epi
        off = len(pro) + len(sm)
        renum = {off + i + 1: i for i in range(len(ktext))}
        out.append(("marked-" + st, "\n".join(lines) + "\n", [], renum))
        if st == "one":
            a, b = off + 1, off + len(ktext)
            if b - a >= 3 and rng.random() < 0.7:
                m = rng.randrange(a + 1, b)
                spec = "%d-%d,%d,%d:%d" % (a, m - 1, m, m + 1, b)
            else:
                spec = "%d%s%d" % (a, rng.choice("-:"), b)
            out.append(("lines", "\n".join(lines) + "\n", ["--lines", spec], renum))
            # the same line set named in a different ORDER (and with a repeated item): still the lines in file order
            if b - a >= 3:
                m = rng.randrange(a + 1, b)
                spec2 = "%d:%d,%d-%d,%d" % (m, b, a, m - 1, a)
                out.append(("lines-unordered", "\n".join(lines) + "\n", ["--lines", spec2], renum))
                # an entry NESTED inside another one (a single line / a sub-range strictly inside a-b), in either order
                m1 = rng.randrange(a + 1, b)
                m2 = rng.randrange(m1, b)
                inner = "%d" % m1 if rng.random() < 0.5 else "%d%s%d" % (m1, rng.choice("-:"), m2)
                outer = "%d%s%d" % (a, rng.choice("-:"), b)
                spec3 = rng.choice(["%s,%s" % (outer, inner), "%s,%s" % (inner, outer), "%s,%s,%s" % (inner, outer, inner)])
                out.append(("lines-nested", "\n".join(lines) + "\n", ["--lines", spec3], renum))
                # overlapping / duplicated / adjacent entries
                spec4 = rng.choice(["%d-%d,%d:%d" % (a, m2, m1, b), "%d-%d,%d-%d" % (a, b, a, b), "%d,%d,%d-%d" % (m1, m1, a, b),
                                    "%d-%d,%d-%d" % (a, m1, m1 + 1, b) if m1 < b else "%d-%d" % (a, b), "%d:%d,%d-%d" % (m1, b, a, m2)])
                out.append(("lines-overlap", "\n".join(lines) + "\n", ["--lines", spec4], renum))
    for v in range(n_noise_variants):
        sm = G.marker(rng, isa, "start", rng.choice(styles))
        em = G.marker(rng, isa, "end", rng.choice(styles))
        body, renum_rel = [], {}
        kinds = rng.sample(NOISE_KINDS, rng.randrange(1, 5))
        dens = rng.choice([0.15, 0.4, 1.0])
        for i, l in enumerate(ktext):
            while rng.random() < dens / (1 + dens):
                body.append(noise_line(rng, isa, rng.choice(kinds), len(body)))
            renum_rel[len(body)] = i
            body.append(l)
        while rng.random() < 0.5:
            body.append(noise_line(rng, isa, rng.choice(kinds), len(body)))
        lines = pro + sm + body + em + epi
        off = len(pro) + len(sm)
        out.append(("noise-%d[%s]" % (v, ",".join(sorted(kinds))), "\n".join(lines) + "\n", [], {off + k + 1: i for k, i in renum_rel.items()}))
    return out


def check_kernel(ctx, rng, path, arch, n_noise, workdir):
    """Runs all variants; returns list of (variant name, detail, replay obj) disagreements, plus stats."""
    ek = extract_kernel(path)
    if ek is None:
        return None, []
    isa, ktext = ek
    variants = build_variants(rng, isa, ktext, n_noise)
    reports = []
    for j, (name, text, extra, renum) in enumerate(variants):
        f = os.path.join(workdir, "v%d.s" % j)
        with open(f, "w") as fh:
            fh.write(text)
        argv = ["--arch", arch] + extra + [f]
        if j == 0:
            run_osaca(argv)                     # warm-up: first use of a model in this process (cf. C18)
        rep, err = run_osaca(argv)
        reports.append((name, text, extra, canon(rep, renum) if rep is not None else "EXCEPTION " + err))
    ref = reports[0]
    bad = []
    # a state-dependent analysis (C18's subject) would make any comparison meaningless: re-run the reference
    rep2, err2 = run_osaca(["--arch", arch, os.path.join(workdir, "v0.s")])
    again = canon(rep2, variants[0][3]) if rep2 is not None else "EXCEPTION " + err2
    if again != ref[3]:
        return {"isa": isa, "lines": len(ktext), "variants": len(variants), "unstable": True}, []
    for name, text, extra, rep in reports[1:]:
        if rep != ref[3]:
            a, b = ref[3].split("\n"), rep.split("\n")
            diff = next(("ref: %r | %s: %r" % (x, name, y) for x, y in zip(a, b) if x != y), "length %d vs %d" % (len(a), len(b)))
            bad.append((name, diff, {"kernel_file": os.path.relpath(path, vlib.REPO), "arch": arch, "variant": name, "file_text": text,
                                     "extra_args": extra, "kernel_text": "\n".join(ktext) + "\n",
                                     "renum": {str(k): v for k, v in dict(next(r for n_, t_, e_, r in variants if n_ == name)).items()}}))
    return {"isa": isa, "lines": len(ktext), "variants": len(variants), "unstable": False}, bad


# ------------------------------------------------------------------------------------------- --lines, focused family
def rows_of(report):
    """line numbers of the rows of the Combined Analysis Report table (= the lines the analysis received), in order"""
    i = report.find("Combined Analysis Report")
    if i < 0:
        return None
    out = []
    for line in report[i:].split("\n"):
        if line.startswith("Loop-Carried Dependencies Analysis Report"):
            break
        m = ROW.match(line)
        if m:
            out.append(int(m.group(2)))
    return out


def named_lines(spec):
    """what the property says a --lines argument names (single numbers, inclusive a-b / a:b), independent of the code"""
    out = set()
    for item in spec.split(","):
        item = item.replace(":", "-")
        if "-" in item:
            x, y = item.split("-")
            out |= set(range(int(x), int(y) + 1))
        else:
            out.add(int(item))
    return out


def lines_family(rng, a, b):
    """--lines arguments over the lines a..b (b - a >= 5): single numbers, a-b, a:b, duplicates, overlapping, NESTED,
    unordered, adjacent entries, and proper subsets with a gap."""
    m1 = rng.randrange(a + 1, b - 2)
    m2 = rng.randrange(m1 + 1, b)
    fam = [
        ("range-dash", "%d-%d" % (a, b)), ("range-colon", "%d:%d" % (a, b)),
        ("singles", ",".join(str(k) for k in range(a, b + 1))),
        ("duplicate-range", "%d-%d,%d:%d" % (a, b, a, b)), ("duplicate-single", "%d,%d,%d-%d" % (m1, m1, a, b)),
        ("duplicate-first", "%d-%d,%d" % (a, b, a)), ("duplicate-last", "%d-%d,%d" % (a, b, b)),
        ("overlap", "%d-%d,%d-%d" % (a, m2, m1, b)), ("overlap-reversed", "%d:%d,%d-%d" % (m1, b, a, m2)),
        ("nested-single", "%d-%d,%d" % (a, b, m1)), ("nested-single-first", "%d,%d-%d" % (m1, a, b)),
        ("nested-range", "%d-%d,%d-%d" % (a, b, m1, m2)), ("nested-range-first", "%d:%d,%d:%d" % (m1, m2, a, b)),
        ("nested-twice", "%d-%d,%d,%d-%d" % (a, b, m1, m1, m2)), ("nested-same-start", "%d-%d,%d-%d" % (a, b, a, m1)),
        ("nested-same-end", "%d-%d,%d-%d" % (a, b, m2, b)),
        ("unordered", "%d-%d,%d-%d" % (m2, b, a, m2 - 1)), ("adjacent", "%d-%d,%d-%d" % (a, m1, m1 + 1, b)),
        ("adjacent-single", "%d,%d-%d" % (a, a + 1, b)),
        ("gap", "%d-%d,%d-%d" % (a, m1 - 1 if m1 - 1 >= a else a, m2, b)), ("gap-nested", "%d-%d,%d,%d-%d" % (a, m1, a, m2 + 1 if m2 + 1 <= b else b, b)),
    ]
    return fam


def check_lines_specs(ctx, rng, path, arch, workdir, specs=None, n_random=0):
    """One (kernel, model) pair: the kernel's lines inside an UNMARKED file (random prologue / epilogue with decoys);
    for every --lines argument of the family: the rows of the report must be exactly the named lines (in file order,
    once each) and all numbers must equal those of a file that contains only these lines.
    -> (stats, [(tag, spec, what, replay)])"""
    ek = extract_kernel(path)
    if ek is None:
        return None, []
    isa, ktext = ek
    pro = [l for l in G.segment(rng, isa, rng.randrange(1, 5))]
    epi = [l for l in G.segment(rng, isa, rng.randrange(1, 4))]
    lines = pro + ktext + epi
    a, b = len(pro) + 1, len(pro) + len(ktext)
    if b - a < 5:
        return None, []
    text = "\n".join(lines) + "\n"
    fam = list(specs) if specs is not None else lines_family(rng, a, b)
    for k in range(n_random):
        items = []
        for _ in range(rng.randrange(2, 5)):
            x = rng.randrange(a, b + 1)
            y = rng.randrange(x, b + 1)
            items.append(str(x) if rng.random() < 0.4 else "%d%s%d" % (x, rng.choice("-:"), y))
        fam.append(("random-%d" % k, ",".join(items)))
    f = os.path.join(workdir, "lines.s")
    with open(f, "w") as fh:
        fh.write(text)
    refs = {}
    bad = []
    runs = 0
    for tag, spec in fam:
        want = sorted(n for n in named_lines(spec) if 1 <= n <= len(lines) and lines[n - 1].strip() != "")
        key = tuple(want)
        if key not in refs:
            fr = os.path.join(workdir, "lines_ref.s")
            with open(fr, "w") as fh:
                fh.write("\n".join(lines[n - 1] for n in want) + "\n")
            run_osaca(["--arch", arch, fr])
            rep, err = run_osaca(["--arch", arch, fr])
            runs += 1
            refs[key] = canon(rep, {i + 1: i for i in range(len(want))}) if rep is not None else "EXCEPTION " + err
        rep, err = run_osaca(["--arch", arch, "--lines", spec, f])
        runs += 1
        replay = {"type": "e2e-lines", "kernel_file": os.path.relpath(path, vlib.REPO), "arch": arch, "file_text": text,
                  "spec": spec, "expect_rows": want}
        if rep is None:
            got_rows, got = None, "EXCEPTION " + err
        else:
            got_rows, got = rows_of(rep), canon(rep, {n: i for i, n in enumerate(want)})
        if refs[key].startswith("EXCEPTION") and got.startswith("EXCEPTION"):
            continue                              # e.g. no instruction among the named lines: both inputs are rejected alike
        if got_rows != want:
            bad.append((tag, spec, "--lines %s on a %d-line file: the analysed kernel must be lines %s, the report shows %s" % (
                spec, len(lines), want, got_rows if got_rows is not None else got), replay))
        elif got != refs[key]:
            # a state-dependent analysis (C18's subject) would make the comparison meaningless: re-run the reference
            fr = os.path.join(workdir, "lines_ref.s")
            with open(fr, "w") as fh:
                fh.write("\n".join(lines[n - 1] for n in want) + "\n")
            rep2, err2 = run_osaca(["--arch", arch, fr])
            again = canon(rep2, {i + 1: i for i in range(len(want))}) if rep2 is not None else "EXCEPTION " + err2
            if again != refs[key]:
                continue
            x, y = refs[key].split("\n"), got.split("\n")
            diff = next(("only-these-lines file: %r | --lines: %r" % (p, q) for p, q in zip(x, y) if p != q), "length %d vs %d" % (len(x), len(y)))
            bad.append((tag, spec, "--lines %s: numbers differ from the file containing only the named lines: %s" % (spec, diff), replay))
    return {"isa": isa, "specs": len(fam), "runs": runs, "a": a, "b": b}, bad


def replay_lines(r, workdir):
    """-> (ok, description)"""
    f, fr = os.path.join(workdir, "lines.s"), os.path.join(workdir, "lines_ref.s")
    lines = r["file_text"].rstrip("\n").split("\n")
    want = r["expect_rows"]
    open(f, "w").write(r["file_text"])
    open(fr, "w").write("\n".join(lines[n - 1] for n in want) + "\n")
    run_osaca(["--arch", r["arch"], fr])
    ref, e0 = run_osaca(["--arch", r["arch"], fr])
    rep, e1 = run_osaca(["--arch", r["arch"], "--lines", r["spec"], f])
    if rep is None:
        return ref is None, "exception %s (reference: %s)" % (e1, e0)
    rows = rows_of(rep)
    same = ref is not None and canon(ref, {i + 1: i for i in range(len(want))}) == canon(rep, {n: i for i, n in enumerate(want)})
    return rows == want and same, "rows %s, demanded %s, numbers %s" % (rows, want, "equal" if same else "DIFFERENT")
