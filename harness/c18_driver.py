"""C18 driver -- runs INSIDE one fresh python process (PYTHONPATH=<tree under test>, private HOME whose
~/.osaca/data points at a scratch copy of the model files) and executes one *history*: a list of analysis requests,
all in this one process, through the real entry point osaca.osaca.run (-> inspect).

usage: c18_driver.py <spec.json> <out.json>

spec = {"mode": "history", "style": "cli" | "reuse", "calls": [{"arch":..,"file":..,"opts":[..]}, ...],
        "pristine": {<model path>: {<component>: <digest>}}, "observe": bool}
     | {"mode": "pristine", "archs": [...], "want": {<path>: [<component>...]}}

style "cli"   : exactly what a sequence of command line invocations does inside one process (osaca.osaca.run).
style "reuse" : the same entry point, but the embedding keeps its MachineModel / ArchSemantics objects per architecture
                (what a library user who builds the model once does, and what MachineModel._runtime_cache is there for);
                implemented by memoising the two constructors that osaca.osaca.inspect calls -- no analysis code is replaced.

After every call the *shared store* of the process is snapshotted structurally:
  - every MachineModel._runtime_cache entry (the `_data` of each loaded model file: instruction entries incl. their
    micro-op lists, hidden operands, load/store tables ...), compared component-wise with the digests of a pristine load;
  - with style "reuse" additionally the `_data` of the model objects the embedding holds;
  - every mutable default argument, class attribute and module global of the osaca package (InstructionForm.__init__.__defaults__ ...);
  - the parser singletons (non-grammar attributes) and the identity of what get_asm_parser returns.
"""
import contextlib
import hashlib
import io
import json
import os
import sys
import types


# ----------------------------------------------------------------------------------------- canonical structure
def canon(x, depth=0, stack=()):
    """Process-independent structural image of a value (no ids, no addresses)."""
    if x is None or x is True or x is False:
        return x
    if isinstance(x, bool):
        return bool(x)
    if isinstance(x, int):
        return int(x)
    if isinstance(x, float):
        return "f:" + float(x).hex()
    if isinstance(x, str):
        return str(x)
    if isinstance(x, bytes):
        return "b:" + x.hex()
    if id(x) in stack or depth > 40:
        return ["<cycle>"]
    st = stack + (id(x),)
    if isinstance(x, (list, tuple)):
        return ["L" if isinstance(x, list) else "T"] + [canon(v, depth + 1, st) for v in x]
    if isinstance(x, dict):
        return ["D"] + [[canon(k, depth + 1, st), canon(v, depth + 1, st)] for k, v in x.items()]
    if isinstance(x, (set, frozenset)):
        return ["S"] + sorted(json.dumps(canon(v, depth + 1, st), sort_keys=True) for v in x)
    mod = type(x).__module__ or ""
    if mod.startswith("pyparsing"):
        return ["PP", type(x).__name__]
    if mod.startswith("osaca") and hasattr(x, "__dict__") and not isinstance(x, (type, types.ModuleType, types.FunctionType)):
        return ["O", type(x).__name__] + [[k, canon(v, depth + 1, st)] for k, v in sorted(vars(x).items())]
    return ["?", mod + "." + type(x).__name__]


def dig(x):
    return hashlib.sha1(json.dumps(canon(x), sort_keys=True).encode()).hexdigest()[:14]


def data_components(data):
    """component name -> object, at a granularity that localises a mutation."""
    comps = {}
    for k, v in data.items():
        if k == "instruction_forms_dict":
            for name, forms in v.items():
                comps["instruction_forms_dict/%s" % name] = forms
        elif k == "instruction_forms":
            groups = {}
            for e in v:
                n = e.get("name") if isinstance(e, dict) else getattr(e, "mnemonic", None)
                groups.setdefault(str(n), []).append(e)
            for n, es in groups.items():
                comps["instruction_forms/%s" % n] = es
            comps["instruction_forms/#"] = len(v)
        elif k in ("load_throughput", "store_throughput") and isinstance(v, list):
            for i, row in enumerate(v):
                comps["%s[%d]" % (k, i)] = row
            comps["%s/#" % k] = len(v)
        else:
            comps[str(k)] = v
    return comps


def data_digests(data):
    return {k: dig(v) for k, v in data_components(data).items()}


# ----------------------------------------------------------------------------------------- package statics
def _func_defaults(f):
    f = getattr(f, "__wrapped__", f)
    return [getattr(f, "__defaults__", None), getattr(f, "__kwdefaults__", None)]


def statics():
    """component name -> canonical value of every mutable default / class attribute / module global of osaca.*"""
    out = {}
    for mname, mod in sorted(sys.modules.items()):
        if not (mname == "osaca" or mname.startswith("osaca.")) or mod is None:
            continue
        for name, val in sorted(vars(mod).items()):
            if name.startswith("__"):
                continue
            full = "%s.%s" % (mname, name)
            if isinstance(val, type):
                if val.__module__ != mname:
                    continue
                for an, av in sorted(vars(val).items()):
                    if an in ("__dict__", "__weakref__", "__doc__", "__module__", "__qualname__", "__firstlineno__", "__static_attributes__"):
                        continue
                    if an == "_runtime_cache":
                        continue                              # compared per key against the pristine load
                    if isinstance(av, (staticmethod, classmethod)):
                        av = av.__func__
                    if isinstance(av, types.FunctionType):
                        d = _func_defaults(av)
                        if d != [None, None]:
                            out["%s.%s.__defaults__" % (full, an)] = canon(d)
                    elif isinstance(av, property):
                        continue
                    elif an == "_instance":
                        out["%s._instance" % full] = None if av is None else canon(
                            {k: v for k, v in vars(av).items()})
                    elif not callable(av):
                        out["%s.%s" % (full, an)] = canon(av)
            elif isinstance(val, types.FunctionType) or hasattr(val, "cache_info"):
                if getattr(val, "__module__", None) != mname:
                    continue
                d = _func_defaults(val)
                if d != [None, None]:
                    out[full + ".__defaults__"] = canon(d)
            elif isinstance(val, (list, dict, set, tuple, str, int, float)):
                out[full] = canon(val)
    return out


def parser_identities(O):
    """arch -> id of the parser object handed out for it (must stay the same object once handed out)."""
    return dict(_PARSER_IDS)


_PARSER_IDS = {}


# ----------------------------------------------------------------------------------------- running a request
def run_request(O, call):
    argv = ["--arch", call["arch"]] + list(call.get("opts", [])) + [call["file"]]
    p = O.create_parser()
    a = None
    try:
        with contextlib.redirect_stderr(io.StringIO()):
            a = p.parse_args(argv)
            O.check_arguments(a, p)
        out = io.StringIO()
        with contextlib.redirect_stdout(io.StringIO()):
            O.run(a, output_file=out)
        text = out.getvalue()
        text = "\n".join(l for l in text.split("\n") if not l.startswith("Timestamp:"))
        return text, None
    except SystemExit as e:
        return None, "SystemExit(%s)" % (e,)
    except Exception as e:  # noqa
        return None, "%s: %s" % (type(e).__name__, str(e)[:300])
    finally:
        try:
            a.file.close()
        except Exception:
            pass


class Memo(object):
    """Callable stand-in for a class: memoises construction, forwards everything else (static methods ...)."""

    def __init__(self, real, keyf):
        self._real, self._keyf, self._memo = real, keyf, {}

    def __call__(self, *a, **k):
        key = self._keyf(a, k)
        if key not in self._memo:
            self._memo[key] = self._real(*a, **k)
        return self._memo[key]

    def __getattr__(self, n):
        return getattr(self._real, n)


# ----------------------------------------------------------------------------------------- observation for the model
class Observer(object):
    """Records, per costed instruction, WHICH shared lists the costing read (by identity): the instruction entry's
    micro-op list, the load-table row, the store-table row -- and the micro-op list the instruction ended up with."""

    def __init__(self):
        self.active = None
        self.calls = []       # one list per request
        self.ok = True
        self.why = ""

    def install(self):
        try:
            from osaca.semantics import ArchSemantics, MachineModel
            obs = self
            orig_assign = ArchSemantics.assign_tp_lt
            orig_avg = MachineModel.average_port_pressure

            def avg(mm, port_pressure, *a, **k):
                if obs.active is not None and mm is obs.active["mm"]:
                    obs.active["args"].append(port_pressure)
                return orig_avg(mm, port_pressure, *a, **k)

            def assign(sem, instruction_form):
                mm = sem._machine_model
                rec = {"mm": mm, "args": [], "flags0": list(instruction_form.flags)}
                obs.active = rec
                try:
                    return orig_assign(sem, instruction_form)
                finally:
                    obs.active = None
                    try:
                        obs.record(mm, instruction_form, rec)
                    except Exception as e:  # noqa
                        obs.ok, obs.why = False, "record: %s: %s" % (type(e).__name__, e)

            ArchSemantics.assign_tp_lt = assign
            MachineModel.average_port_pressure = avg
        except Exception as e:  # noqa
            self.ok, self.why = False, "install: %s: %s" % (type(e).__name__, e)

    @staticmethod
    def uop(u):
        return json.dumps(canon(u))

    def record(self, mm, iform, rec):
        data = mm._data
        path = getattr(mm, "_path", None)
        if iform.mnemonic is None:
            self.cur.append({"k": "N", "path": path})
            return
        lrows = [r[1] for r in data.get("load_throughput", [])]
        srows = [r[1] for r in data.get("store_throughput", [])]
        ent = lref = sref = None
        others = []
        for a in rec["args"]:
            hit = False
            for i, r in enumerate(lrows):
                if r is a:
                    lref, hit = ["row", i], True
            for i, r in enumerate(srows):
                if r is a:
                    sref, hit = ["row", i], True
            if not hit:
                ifd = data["instruction_forms_dict"]
                mn = iform.mnemonic.upper()
                cands = [mn, mn[:-1]] + ([mn[:mn.index(".")]] if "." in mn else [])
                for gname in cands:
                    for j, f in enumerate(ifd.get(gname, [])):
                        if f.port_pressure is a:
                            ent, hit = [gname, j], True
                            break
                    if hit:
                        break
            if not hit:
                others.append(a)
        had_ld = "performs_load" in rec["flags0"]
        had_st = "performs_store" in rec["flags0"]
        out = {"path": path, "uops": [self.uop(u) for u in (iform.port_uops or [])], "line": (iform.line or "").strip()[:60]}
        if ent is None:
            out["k"] = "U"
        elif iform.port_uops is data["instruction_forms_dict"][ent[0]][ent[1]].port_pressure:
            out.update(k="D", e=ent)
        else:
            # composed: remaining arguments are copies of the default rows or the empty write-back-only store list
            oth = list(others)
            if had_ld and lref is None and oth:
                o = oth.pop(0)
                lref = ["def"] if [self.uop(u) for u in o] == [self.uop(u) for u in data.get("load_throughput_default", [])] else ["lit", [self.uop(u) for u in o]]
            if had_st and sref is None and oth:
                o = oth.pop(0)
                if len(o) == 0:
                    sref = ["none"]
                elif [self.uop(u) for u in o] == [self.uop(u) for u in data.get("store_throughput_default", [])]:
                    sref = ["def"]
                else:
                    sref = ["lit", [self.uop(u) for u in o]]
            out.update(k="C", e=ent, l=lref if had_ld else None, s=sref if had_st else None)
        self.cur.append(out)

    def begin(self):
        self.cur = []

    def end(self):
        self.calls.append(self.cur)
        return self.cur


def table_contents(data, refs):
    """pristine-side content of the referenced lists, as micro-op code strings"""
    res = {"e": {}, "l": {}, "s": {}}
    u = Observer.uop
    for name, j in refs["e"]:
        res["e"]["%s/%d" % (name, j)] = [u(x) for x in data["instruction_forms_dict"][name][j].port_pressure]
    for i in refs["l"]:
        res["l"][str(i)] = [u(x) for x in data["load_throughput"][i][1]]
    for i in refs["s"]:
        res["s"][str(i)] = [u(x) for x in data["store_throughput"][i][1]]
    res["ldef"] = [u(x) for x in data.get("load_throughput_default", [])]
    res["sdef"] = [u(x) for x in data.get("store_throughput_default", [])]
    return res


# ----------------------------------------------------------------------------------------- modes
def compare_store(MachineModel, pristine, held, prev_unknown):
    """-> list of {kind, where, component, now}"""
    diffs = []
    objs = [("runtime_cache", p, d) for p, d in MachineModel._runtime_cache.items()]
    seen = {id(d) for _, _, d in objs}
    for p, d in held:
        if id(d) not in seen:
            seen.add(id(d))
            objs.append(("held-model", p, d))
    for kind, path, data in objs:
        comps = data_components(data)
        ref = pristine.get(path)
        if ref is None:
            d = {k: dig(v) for k, v in comps.items()}
            if path in prev_unknown and prev_unknown[path] != d:
                diffs.append({"kind": "model-data-mutated-in-place", "where": kind, "path": path, "component": "?",
                              "now": "content of a model that has no pristine reference changed"})
            prev_unknown[path] = d
            continue
        for k, v in comps.items():
            h = dig(v)
            if k not in ref:
                diffs.append({"kind": "model-data-extended", "where": kind, "path": path, "component": k,
                              "now": json.dumps(canon(v))[:600]})
            elif ref[k] != h:
                diffs.append({"kind": "model-data-mutated-in-place", "where": kind, "path": path, "component": k,
                              "now": json.dumps(canon(v))[:1500]})
        for k in ref:
            if k not in comps:
                diffs.append({"kind": "model-data-mutated-in-place", "where": kind, "path": path, "component": k, "now": "<removed>"})
    return diffs


def compare_statics(before, after):
    diffs = []
    for k, v in before.items():
        if k not in after:
            diffs.append({"kind": "static-removed", "component": k, "now": "<removed>", "before": json.dumps(v)[:400]})
        elif after[k] != v and v is not None:
            kind = "parser-singleton-state-changed" if k.endswith("._instance") else "shared-default-or-global-mutated"
            diffs.append({"kind": kind, "component": k, "before": json.dumps(v)[:600], "now": json.dumps(after[k])[:600]})
    return diffs


def mode_history(spec):
    import osaca.osaca as O
    from osaca.semantics import MachineModel
    held = []
    if spec.get("style") == "reuse":
        real_mm, real_sem = O.MachineModel, O.ArchSemantics
        mm_memo = Memo(real_mm, lambda a, k: json.dumps([list(map(str, a)), sorted((x, str(y)) for x, y in k.items())]))
        sem_memo = Memo(real_sem, lambda a, k: json.dumps([[id(x) for x in a], sorted((x, str(y)) for x, y in k.items())]))
        O.MachineModel, O.ArchSemantics = mm_memo, sem_memo
    obs = None
    if spec.get("observe"):
        obs = Observer()
        obs.install()
    pristine = spec.get("pristine", {})
    results = []
    prev_unknown = {}
    stat_before = statics()
    for call in spec["calls"]:
        if obs:
            obs.begin()
        text, err = run_request(O, call)
        rec = {"report": text, "error": err}
        if obs:
            rec["obs"] = obs.end()
        # --- frame: the shared store after the call
        if spec.get("style") == "reuse":
            held = []
            for m in mm_memo._memo.values():
                held.append((getattr(m, "_path", "?"), m._data))
            for s in sem_memo._memo.values():
                im = getattr(s, "_isa_model", None)
                if im is not None:
                    held.append((getattr(im, "_path", "?"), im._data))
        diffs = compare_store(MachineModel, pristine, held, prev_unknown)
        stat_after = statics()
        diffs += compare_statics(stat_before, stat_after)
        for k, v in stat_after.items():          # first initialisation (None -> value, new module) is legitimate
            if stat_before.get(k) is None:
                stat_before[k] = v
        try:
            pobj = O.get_asm_parser(call["arch"])
            prev = _PARSER_IDS.setdefault(call["arch"], id(pobj))
            if prev != id(pobj):
                diffs.append({"kind": "parser-object-replaced", "component": "get_asm_parser(%s)" % call["arch"], "now": ""})
        except Exception as e:  # noqa
            pass
        rec["frame"] = diffs[:12]
        rec["nframe"] = len(diffs)
        rec["cache_keys"] = sorted(MachineModel._runtime_cache.keys())
        results.append(rec)
    out = {"results": results, "observer_ok": (obs.ok if obs else None), "observer_why": (obs.why if obs else "")}
    if obs:
        # pristine-side contents of every list the costing referred to (fresh load AFTER the history: no perturbation)
        refs = {}
        for c in results:
            for o in c.get("obs", []):
                if o.get("path") is None:
                    continue
                r = refs.setdefault(o["path"], {"e": [], "l": [], "s": []})
                if o.get("e") and o["e"] not in r["e"]:
                    r["e"].append(o["e"])
                for key in ("l", "s"):
                    if o.get(key) and o[key][0] == "row" and o[key][1] not in r[key]:
                        r[key].append(o[key][1])
        O.MachineModel = getattr(O.MachineModel, "_real", O.MachineModel)
        tabs = {}
        for path, r in refs.items():
            try:
                tabs[path] = table_contents(MachineModel(path_to_yaml=path)._data, r)
            except Exception as e:  # noqa
                out["observer_ok"], out["observer_why"] = False, "tables: %s: %s" % (type(e).__name__, e)
        out["tables"] = tabs
    return out


def mode_pristine(spec):
    """Load every model file once, analyse nothing: reference digests of the store's content."""
    from osaca.semantics import MachineModel
    from osaca import utils
    res = {"digests": {}, "content": {}}
    paths = []
    for a in spec["archs"]:
        p = utils.find_datafile(a + ".yml")
        paths.append(p)
        isa = MachineModel.get_isa_for_arch(a)
        ip = utils.find_datafile("isa/" + isa + ".yml")
        if ip not in paths:
            paths.append(ip)
    for p in paths:
        data = MachineModel(path_to_yaml=p)._data
        res["digests"][p] = data_digests(data)
        want = spec.get("want", {}).get(p, [])
        if want:
            comps = data_components(data)
            res["content"][p] = {k: json.dumps(canon(comps[k]))[:1500] for k in want if k in comps}
    res["statics"] = statics()
    return res


def main():
    spec = json.load(open(sys.argv[1]))
    out = mode_pristine(spec) if spec["mode"] == "pristine" else mode_history(spec)
    with open(sys.argv[2], "w") as f:
        json.dump(out, f)


if __name__ == "__main__":
    main()
