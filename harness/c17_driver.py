"""Subprocess side of the C17 harness (run with PYTHONPATH=<tree under test>, private HOME).

  c17_driver.py load <yaml> [<yaml> ...]   non-lazy MachineModel(path_to_yaml=...) for each path, in ONE process
                                           (a repeated path exercises the in-process cache); one JSON line per load
  c17_driver.py cli <args...>              osaca.osaca.main() with the given argv
  c17_driver.py cli-noaccess <dir>:<dir> <args...>   the same with os.access(dir, W_OK) answering False for the
                                           listed directories (fallback when chattr +i is not available)
"""
import hashlib
import json
import os
import sys


def canon(x, depth=0):
    """Canonical, identity-free rendering of a loaded machine model (pickle bytes are not deterministic:
    the pickler memoises by object identity)."""
    if depth > 60:
        return "<deep>"
    if isinstance(x, bool) or x is None:
        return repr(x)
    if isinstance(x, int):
        return "i%d" % int(x)
    if isinstance(x, float):
        return "f" + float(x).hex()
    if isinstance(x, str):
        return "s" + repr(str(x))
    if isinstance(x, bytes):
        return "b" + repr(bytes(x))
    if isinstance(x, dict):
        items = sorted((canon(k, depth + 1), canon(v, depth + 1)) for k, v in x.items())
        return "{" + ",".join(k + ":" + v for k, v in items) + "}"
    if isinstance(x, (list, tuple)):
        return "[" + ",".join(canon(v, depth + 1) for v in x) + "]"
    if isinstance(x, (set, frozenset)):
        return "<" + ",".join(sorted(canon(v, depth + 1) for v in x)) + ">"
    d = getattr(x, "__dict__", None)
    if d is not None:
        return type(x).__name__ + canon(d, depth + 1)
    return type(x).__name__ + repr(x)


def fingerprint(data):
    return hashlib.sha256(canon(data).encode()).hexdigest()[:24]


def main():
    mode = sys.argv[1]
    if mode == "load":
        from osaca.semantics.hw_model import MachineModel
        for p in sys.argv[2:]:
            try:
                in_rt = p in MachineModel._runtime_cache
                mm = MachineModel(path_to_yaml=p)
                print(json.dumps({"path": p, "fp": fingerprint(mm._data), "iv": mm._data.get("internal_version"),
                                  "was_in_runtime_cache": in_rt}), flush=True)
            except BaseException as e:  # noqa
                print(json.dumps({"path": p, "error": type(e).__name__ + ": " + str(e)[:200]}), flush=True)
        return 0
    if mode in ("cli", "cli-noaccess"):
        args = sys.argv[2:]
        if mode == "cli-noaccess":
            blocked = [os.path.realpath(d) for d in args[0].split(":") if d]
            args = args[1:]
            real_access = os.access

            def access(path, m, *a, **k):
                if m & os.W_OK and os.path.realpath(str(path)) in blocked:
                    return False
                return real_access(path, m, *a, **k)
            os.access = access
        sys.argv = ["osaca"] + args
        from osaca.osaca import main as osaca_main
        osaca_main()
        return 0
    raise SystemExit("unknown mode " + mode)


if __name__ == "__main__":
    sys.exit(main())
