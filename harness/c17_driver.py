"""Subprocess side of the C17 harness (run with PYTHONPATH=<tree under test>, private HOME).

  c17_driver.py load <yaml> [<yaml> ...]   non-lazy MachineModel(path_to_yaml=...) for each path, in ONE process
                                           (a repeated path exercises the in-process cache); one JSON line per load
  c17_driver.py inproc <steps.json> [<dir>:<dir>]   a list of steps in ONE process: ["analyse", arch, kernel] (the
                                           command line entry points called in-process), ["load", yaml], ["load_arch", arch],
                                           ["write", path, source-file] (edit a model file), ["chdir", dir]
  c17_driver.py cli <args...>              osaca.osaca.main() with the given argv
  c17_driver.py cli-noaccess <dir>:<dir> <args...>   the same with os.access(dir, W_OK) answering False for the
                                           listed directories (fallback when chattr +i is not available)
"""
import hashlib
import json
import os
import sys


def canon(x, depth=0):
    """Canonical, identity-free rendering of a loaded machine model (pickle bytes are not deterministic:
    the pickler memoises by object identity)."""
    if depth > 60:
        return "<deep>"
    if isinstance(x, bool) or x is None:
        return repr(x)
    if isinstance(x, int):
        return "i%d" % int(x)
    if isinstance(x, float):
        return "f" + float(x).hex()
    if isinstance(x, str):
        return "s" + repr(str(x))
    if isinstance(x, bytes):
        return "b" + repr(bytes(x))
    if isinstance(x, dict):
        items = sorted((canon(k, depth + 1), canon(v, depth + 1)) for k, v in x.items())
        return "{" + ",".join(k + ":" + v for k, v in items) + "}"
    if isinstance(x, (list, tuple)):
        return "[" + ",".join(canon(v, depth + 1) for v in x) + "]"
    if isinstance(x, (set, frozenset)):
        return "<" + ",".join(sorted(canon(v, depth + 1) for v in x)) + ">"
    d = getattr(x, "__dict__", None)
    if d is not None:
        return type(x).__name__ + canon(d, depth + 1)
    return type(x).__name__ + repr(x)


def fingerprint(data):
    return hashlib.sha256(canon(data).encode()).hexdigest()[:24]


def main():
    mode = sys.argv[1]
    if mode == "load":
        from osaca.semantics.hw_model import MachineModel
        for p in sys.argv[2:]:
            try:
                in_rt = p in MachineModel._runtime_cache
                mm = MachineModel(path_to_yaml=p)
                print(json.dumps({"path": p, "fp": fingerprint(mm._data), "iv": mm._data.get("internal_version"),
                                  "fpd": fingerprint({k: v for k, v in mm._data.items() if k != "internal_version"}),
                                  "was_in_runtime_cache": in_rt}), flush=True)
            except BaseException as e:  # noqa
                print(json.dumps({"path": p, "error": type(e).__name__ + ": " + str(e)[:200]}), flush=True)
        return 0
    if mode == "inproc":
        # a script of steps executed in ONE process (the in-process cache lives across them)
        import io
        import shutil
        steps = json.load(open(sys.argv[2]))
        blocked = [os.path.realpath(d) for d in (sys.argv[3].split(":") if len(sys.argv) > 3 else []) if d]
        if blocked:
            real_access = os.access

            def access(path, m, *a, **k):
                if m & os.W_OK and os.path.realpath(str(path)) in blocked:
                    return False
                return real_access(path, m, *a, **k)
            os.access = access
        from osaca.semantics.hw_model import MachineModel
        for st in steps:
            try:
                if st[0] == "analyse":
                    from osaca import osaca as cli
                    parser = cli.create_parser()
                    args = parser.parse_args(["--arch", st[1], st[2]])
                    cli.check_arguments(args, parser)
                    out = io.StringIO()
                    cli.run(args, output_file=out)
                    args.file.close()
                    print(json.dumps({"step": st[0], "report": out.getvalue()}), flush=True)
                elif st[0] in ("load", "load_arch"):
                    mm = MachineModel(path_to_yaml=st[1]) if st[0] == "load" else MachineModel(arch=st[1])
                    print(json.dumps({"step": st[0], "fp": fingerprint(mm._data),
                                      "iv": mm._data.get("internal_version")}), flush=True)
                elif st[0] == "write":
                    with open(st[2], "rb") as f:
                        raw = f.read()
                    with open(st[1], "wb") as f:
                        f.write(raw)
                    print(json.dumps({"step": st[0]}), flush=True)
                elif st[0] == "chdir":
                    os.chdir(st[1])
                    print(json.dumps({"step": st[0]}), flush=True)
                else:
                    raise ValueError(st[0])
            except BaseException as e:  # noqa
                print(json.dumps({"step": st[0], "error": type(e).__name__ + ": " + str(e)[:200]}), flush=True)
        return 0
    if mode in ("cli", "cli-noaccess"):
        args = sys.argv[2:]
        if mode == "cli-noaccess":
            blocked = [os.path.realpath(d) for d in args[0].split(":") if d]
            args = args[1:]
            real_access = os.access

            def access(path, m, *a, **k):
                if m & os.W_OK and os.path.realpath(str(path)) in blocked:
                    return False
                return real_access(path, m, *a, **k)
            os.access = access
        sys.argv = ["osaca"] + args
        from osaca.osaca import main as osaca_main
        osaca_main()
        return 0
    raise SystemExit("unknown mode " + mode)


if __name__ == "__main__":
    sys.exit(main())
