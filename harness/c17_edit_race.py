"""Stand-alone reproduction (not part of ./check C17) of the read-read-read race of MachineModel.__init__:
the model file is hashed for the cache probe, read again for the parse and hashed a third time for the cache write.
A save of the model file (os.replace, what editors do) between the parse and the third read stores the data of the
OLD content under the hash of the NEW content; every later run then silently uses stale data.
Coq: Props/C17.v load_refines_parse_unguarded_refuted.   Repair: patches/C17-fix-hash-parsed-bytes.diff.

  /venv/bin/python harness/c17_edit_race.py <repo> [delay_seconds=1.0]     exit 1 = stale data served
"""
import hashlib
import os
import shutil
import subprocess
import sys
import tempfile
import time


def main():
    repo = sys.argv[1] if len(sys.argv) > 1 else "/repo"
    delay = float(sys.argv[2]) if len(sys.argv) > 2 else 1.0
    root = tempfile.mkdtemp(prefix="osaca-verif.c17race.")
    try:
        d = os.path.join(root, "d")
        os.makedirs(d)
        yml = os.path.join(d, "zen2.yml")                     # parses for several seconds
        shutil.copy(os.path.join(repo, "osaca", "data", "zen2.yml"), yml)
        base = open(yml, "rb").read()
        new = base.replace(b"load_latency: {", b"load_latency: {zz: 99.0, ", 1)
        env = dict(os.environ, PYTHONPATH=repo, HOME=os.path.join(root, "home"), PYTHONDONTWRITEBYTECODE="1")
        code = ("from osaca.semantics.hw_model import MachineModel; mm = MachineModel(path_to_yaml=%r); "
                "print(mm._data['load_latency'].get('zz'))" % yml)
        p = subprocess.Popen(["/venv/bin/python", "-c", code], env=env, stdout=subprocess.PIPE, text=True)
        time.sleep(delay)
        with open(yml + ".new", "wb") as f:
            f.write(new)
        os.replace(yml + ".new", yml)
        first = p.communicate()[0].strip()
        later = subprocess.run(["/venv/bin/python", "-c", code], env=env, stdout=subprocess.PIPE, text=True).stdout.strip()
        caches = sorted(f[:24] for f in os.listdir(d) if f.endswith(".pickle"))
        print("load racing the edit returned zz=%s; cache files %s (old hash %s, new hash %s)" % (
            first, caches, hashlib.sha256(base).hexdigest()[:12], hashlib.sha256(new).hexdigest()[:12]))
        print("later load of the edited file returned zz=%s (file says 99.0)" % later)
        return 0 if later == "99.0" else 1
    finally:
        shutil.rmtree(root, ignore_errors=True)


if __name__ == "__main__":
    sys.exit(main())
