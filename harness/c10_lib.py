"""C10 helpers: canonical serialisation of what ParserAArch64 returns, Coq literals, case shards."""


def coq_str(s):
    """A Gallina string expression for an arbitrary str of code points < 256."""
    parts, cur = [], []
    for ch in s:
        o = ord(ch)
        if 32 <= o < 127:
            cur.append('""' if ch == '"' else ch)
        else:
            if cur:
                parts.append('"' + "".join(cur) + '"')
                cur = []
            parts.append("(ch %d)" % o)
    if cur or not parts:
        parts.append('"' + "".join(cur) + '"')
    if len(parts) == 1:
        return parts[0]
    return "(" + " ++ ".join(parts) + ")"


# ------------------------------------------------------------------ serialisation of the implementation's objects
def _o(x):
    return "-" if x is None else str(x)


def ser_reg(r):
    idx = r.index
    if idx is None:
        i = "-"
    elif isinstance(idx, str):
        i = "s" + idx
    elif isinstance(idx, int):
        i = "i%d" % idx
    else:
        i = "?%r" % (idx,)
    return "R:%s,%s,%s,%s,%s,%s" % (_o(r.prefix), _o(r.name), _o(r.shape), _o(r.lanes), i, _o(r.predication))


def ser_operand(o):
    from osaca.parser.register import RegisterOperand
    from osaca.parser.immediate import ImmediateOperand
    from osaca.parser.identifier import IdentifierOperand
    from osaca.parser.condition import ConditionOperand
    from osaca.parser.memory import MemoryOperand
    if isinstance(o, RegisterOperand):
        return ser_reg(o)
    if isinstance(o, ImmediateOperand):
        if o._shift is not None or o._identifier is not None:
            return "?imm-arith"
        t, v = o.imd_type, o.value
        if t == "int" and isinstance(v, int):
            return "I:int,%d" % v
        if t in ("double", "float") and isinstance(v, str):
            return "I:%s,%s" % (t, v)
        if t in ("double", "float") and isinstance(v, dict) and set(v) == {"mantissa", "e_sign", "exponent"}:
            return "I:%s,%s,%s,%s" % (t, v["mantissa"], v["e_sign"], v["exponent"])
        return "?imm %r %r" % (t, v)
    if isinstance(o, IdentifierOperand):
        if o.offset is not None or o.relocation is not None:
            return "?ident-ext"
        return "L:%s" % o.name
    if isinstance(o, ConditionOperand):
        return "C:%s" % o.ccode
    if isinstance(o, MemoryOperand):
        off = o.offset
        if off is None:
            so = "-"
        elif isinstance(off, ImmediateOperand) and isinstance(off.value, int) and off.imd_type is None:
            so = "i%d" % off.value
        elif isinstance(off, IdentifierOperand) and off.offset is None and off.relocation is None:
            so = "l%s" % off.name
        else:
            so = "?off"
        b = o.base
        ix = o.index
        if ix is None:
            si = "-"
        else:
            sh = ix.shift
            if sh is None:
                ss = "-"
            elif isinstance(sh, list) and len(sh) == 1 and isinstance(sh[0], dict) and set(sh[0]) == {"value"}:
                ss = sh[0]["value"]
            else:
                ss = "?shift"
            si = "%s~%s~%s~%s" % (_o(ix.prefix), _o(ix.name), _o(ix.shift_op), ss)
        post = o.post_indexed
        if post is False:
            sp = "-"
        elif isinstance(post, dict) and set(post) == {"value"} and isinstance(post["value"], int):
            sp = "%d" % post["value"]
        else:
            sp = "?post"
        if o.segment_ext is not None or o.mask is not None:
            return "?mem-ext"
        return "M:%s,%s,%s,%s,%s,%s,%s" % (so, _o(b.prefix), _o(b.name), si, _o(o.scale),
                                          "1" if o.pre_indexed else "0", sp)
    return "?%s" % type(o).__name__


def _so(x):
    return "N" if x is None else "S" + str(x)


def ser_form(f):
    d = f.directive
    dn = None if d is None else d.name
    com = f.comment
    if d is not None:
        com = None          # the comment of a directive line is not modelled (directive_option swallows it)
    return "m=%s|l=%s|d=%s|o=%s|c=%s" % (_so(f.mnemonic), _so(f.label), _so(dn),
                                         ";".join(ser_operand(o) for o in f.operands), _so(com))


def real_parse(parser, line, line_number=1):
    """canonical string of parse_line(line), or 'REJECT:<exception type>'"""
    try:
        f = parser.parse_line(line, line_number)
    except Exception as e:  # ValueError is the documented rejection; others are crashes
        return "REJECT:" + type(e).__name__
    return ser_form(f)


def kinds_of(f):
    """which of the four line kinds the returned form claims (for classify_exclusive)"""
    k = []
    if f.mnemonic is not None:
        k.append("instruction")
    if f.label is not None:
        k.append("label")
    if f.directive is not None:
        k.append("directive")
    if not k and f.comment is not None:
        k.append("comment")
    return k


SHARD_HEAD = """From Coq Require Import String Ascii List Bool Arith NArith ZArith.
From OV Require Import Model.LexA64 Model.ParseA64 Model.ParseFileA64.
Import ListNotations.
Open Scope string_scope.
Set Printing Width 100000. Set Printing Depth 100000.
Definition ch (n : nat) : string := String (ascii_of_nat n) "".
Definition nat_s (n : nat) : string := string_of_Z (Z.of_nat n).
Definition idxs (f : nat -> bool) (n : nat) : string := String.concat "," (map nat_s (filter f (seq 0 n))).
"""


FIX_FLAGS = ("word", "cond", "sxtx", "dir")      # order of the fields of Model/ParseA64.v `fixes`


def cfg_coq(cfg):
    """Gallina term of the configuration (which repairs the tree under test contains)"""
    return "(mkfx %s)" % " ".join("true" if cfg[k] else "false" for k in FIX_FLAGS)


def line_shard(cases, cfg):
    """cases: list of (line, expected).  Coq prints 'bad|unmodelled|rejected|parsed' (index lists / counts)."""
    body = ";\n".join("(%s, %s)" % (coq_str(l), coq_str(e)) for l, e in cases)
    return SHARD_HEAD + "Definition cfg : fixes := %s." % cfg_coq(cfg) + """
Definition cases : list (string * string) := [
%s ].
Definition res := map (fun c => (parse_line cfg (fst c), snd c)) cases.
Definition ok (c : result * string) : bool :=
  match fst c with
  | Unm => true
  | Rej => prefix_of "REJECT" (snd c)
  | Parsed p => String.eqb (show_pline p) (snd c)
  end.
Definition nth_ok (i : nat) : bool := match nth_error res i with Some c => negb (ok c) | None => true end.
Definition is_unm (i : nat) : bool := match nth_error res i with Some (Unm, _) => true | _ => false end.
Definition cnt (f : result -> bool) : string := nat_s (length (filter (fun c => f (fst c)) res)).
Eval vm_compute in (idxs nth_ok (length cases) ++ "|" ++ idxs is_unm (length cases) ++ "|" ++
  cnt (fun r => match r with Rej => true | _ => false end) ++ "|" ++
  cnt (fun r => match r with Parsed _ => true | _ => false end)).
""" % body
