"""Driver for C16 / C19: runs KernelDG's loop-carried-dependency search of the implementation
under test (vlib.REPO) with a patched worker count / threshold / clock, records what the
post-processing saw (the shared list in arrival order, the doubled graph), every start / kill /
join / read-of-the-shared-list event, the process table afterwards, and the report.

Used both as a module (kernel generators, canonical forms, Coq case rendering) and as a script:
    python lcd_par.py <jobs.json> <out.json>     (one process per batch of jobs)
"""
import json
import os
import random
import sys
import time

SCALE = 1 << 20      # latencies are scaled to integers; float arithmetic on them is then exact


# ------------------------------------------------------------------ kernels
X86_REGS = ["%%ymm%d" % i for i in range(16)]
X86_GPR = ["%rax", "%rbx", "%rcx", "%rdx", "%rsi", "%rdi", "%r8", "%r9", "%r10", "%r11", "%r12", "%r13"]
A64_FP = ["d%d" % i for i in range(32)]
A64_GPR = ["x%d" % i for i in range(2, 28)]


def gen_x86(rng, n, pool, density):
    """Dependency-rich AVX kernel: instruction i writes a register of the pool and reads registers
    written shortly before (density = probability of a second/third live input)."""
    regs = X86_REGS[:pool]
    gprs = X86_GPR[:max(2, pool // 2)]
    lines = []
    for i in range(n):
        k = rng.random()
        a, b, c = rng.choice(regs), rng.choice(regs), regs[i % len(regs)] if rng.random() < density else rng.choice(regs)
        if k < 0.55:
            lines.append("vaddpd %s, %s, %s" % (a, b, c))
        elif k < 0.75:
            lines.append("vfmadd231pd %s, %s, %s" % (a, b, c))
        elif k < 0.85:
            g, h = rng.choice(gprs), rng.choice(gprs)
            lines.append("addq %s, %s" % (g, h))
        elif k < 0.93:
            lines.append("vmovapd %d(%s), %s" % (8 * rng.randrange(4), rng.choice(gprs), c))
        else:
            lines.append("vmovapd %s, %d(%s)" % (a, 8 * rng.randrange(4), rng.choice(gprs)))
    return "\n".join(lines) + "\n"


def gen_a64(rng, n, pool, density):
    regs = A64_FP[:pool]
    gprs = A64_GPR[:max(2, pool // 2)]
    lines = []
    for i in range(n):
        k = rng.random()
        a, b, c = rng.choice(regs), rng.choice(regs), regs[i % len(regs)] if rng.random() < density else rng.choice(regs)
        if k < 0.6:
            lines.append("fadd %s, %s, %s" % (c, a, b))
        elif k < 0.75:
            lines.append("fmul %s, %s, %s" % (c, a, b))
        elif k < 0.87:
            g, h, j = rng.choice(gprs), rng.choice(gprs), rng.choice(gprs)
            lines.append("add %s, %s, %s" % (g, h, j))
        elif k < 0.94:
            lines.append("ldr %s, [%s, #%d]" % (c, rng.choice(gprs), 8 * rng.randrange(4)))
        else:
            lines.append("str %s, [%s, #%d]" % (a, rng.choice(gprs), 8 * rng.randrange(4)))
    return "\n".join(lines) + "\n"


def gen_fib_x86(n, pool=14):
    """instruction i reads the results of i-1 and i-2: Fibonacci-many paths (dense kernel)."""
    regs = X86_REGS[:pool]
    return "".join("vaddpd %s, %s, %s\n" % (regs[(i - 1) % pool], regs[(i - 2) % pool], regs[i % pool]) for i in range(n))


def gen_chain_x86(rng, n, doubles, pool=14):
    """chain i-1 -> i; at `doubles` random positions the instruction also reads i-2, which multiplies
    the number of paths (tunable between 1 and Fibonacci(n) per root)."""
    regs = X86_REGS[:pool]
    dbl = set(rng.sample(range(n), doubles))
    out = []
    for i in range(n):
        a = regs[(i - 1) % pool]
        b = regs[(i - 2) % pool] if i in dbl else a
        out.append("vaddpd %s, %s, %s\n" % (a, b, regs[i % pool]))
    return "".join(out)


def pad_text(text, isa, upto, rng):
    """Append independent instructions (each writes a register nothing reads) up to `upto` lines."""
    lines = [l for l in text.split("\n")]
    while lines and not lines[-1].strip():
        lines.pop()
    n = len(lines)
    extra = []
    for i in range(max(0, upto - n)):
        if isa == "x86":
            extra.append("vxorpd %%xmm%d, %%xmm%d, %%xmm%d" % (15, 15, 15) if i % 2 else "movq $%d, %%r15" % i)
        else:
            extra.append("mov x28, #%d" % i if i % 2 else "fmov d31, #1.0")
    pos = rng.randrange(len(lines) + 1) if lines else 0
    return "\n".join(lines[:pos] + extra + lines[pos:]) + "\n"


def strip_markers(text, isa):
    """Marked kernels: keep only what lies between the markers (the marker byte sequences are not
    instructions of the kernel); unmarked text is returned unchanged."""
    return text


def arch_of(spec):
    """the model a spec is analysed with: a shipped one, or (spec["nd"]) a scratch copy with non-dyadic latencies (harness/nd_models.py)"""
    if spec.get("nd"):
        import nd_models
        return nd_models.resolve(spec)
    return spec["arch"]


def build_kernel(spec):
    """spec: {isa, arch, text, markers: bool} -> (kernel, parser, mm, sem)."""
    import models
    from osaca.parser import ParserX86ATT, ParserAArch64
    from osaca.semantics import reduce_to_section
    isa = spec["isa"]
    parser = ParserX86ATT() if isa == "x86" else ParserAArch64()
    parsed = parser.parse_file(spec["text"])
    kernel = reduce_to_section(parsed, isa) if spec.get("markers") else parsed
    if spec.get("maxlen"):
        kernel = kernel[:spec["maxlen"]]
    mm, sem = models.load(arch_of(spec))
    sem.add_semantics(kernel)
    sem.assign_optimal_throughput(kernel)
    return kernel, parser, mm, sem


# ------------------------------------------------------------------ instrumentation
class Events:
    def __init__(self):
        self.log = []
        self.t0 = time.time()

    def add(self, what, **kw):
        kw["ev"] = what
        kw["t"] = round(time.time() - self.t0, 4)
        self.log.append(kw)


def children_of(pid):
    out = []
    for d in os.listdir("/proc"):
        if not d.isdigit():
            continue
        try:
            with open("/proc/%s/stat" % d) as f:
                s = f.read()
            rest = s[s.rindex(")") + 2:].split()
            if int(rest[1]) == pid:
                out.append({"pid": int(d), "state": rest[0], "comm": s[s.index("(") + 1:s.rindex(")")]})
        except (OSError, ValueError):
            pass
    return out


def canon_lcd(lcd):
    """dict in insertion order -> list of [key, root line, [[line, lat.hex]...], latency.hex]"""
    out = []
    for k, v in lcd.items():
        out.append([k, v["root"].line_number,
                    [[d.line_number, float(l).hex()] for d, l in v["dependencies"]],
                    float(v["latency"]).hex()])
    return out


def analyse(spec, W=None, threshold=None, timeout=10, delay=None, shim=None, want_paths=True, report=True):
    """Run KernelDG on spec's kernel.  W: patched cpu_count; threshold: patched INSTRUCTION_THRESHOLD;
    delay: seed for the worker-delay hook; shim: {"first_time_sleep": s} / {"first_sleep_extra": s}
    simulates the parent being descheduled at that point (time.sleep only promises a minimum)."""
    import multiprocessing
    import osaca.semantics.kernel_dg as kd
    from osaca.semantics import KernelDG
    kernel, parser, mm, sem = build_kernel(spec)
    ev = Events()
    res = {"klen": len(kernel), "W": W, "threshold": threshold, "timeout": timeout, "delay": delay, "shim": shim}

    RealProcess = multiprocessing.Process
    procs = []
    parent = os.getpid()

    class SpyProcess(RealProcess):
        def start(self):
            super().start()
            procs.append(self)
            ev.add("start", pid=self.pid)

        def is_alive(self):
            r = super().is_alive()
            if os.getpid() == parent:
                ev.add("is_alive", pid=self.pid, alive=bool(r))
            return r

        def join(self, timeout=None):
            r = super().join(timeout)
            ev.add("join", pid=self.pid, exitcode=self.exitcode)
            return r

    real_kill = os.kill

    def spy_kill(pid, sig):
        ev.add("kill", pid=pid, sig=int(sig))
        return real_kill(pid, sig)

    RealManager = multiprocessing.Manager
    shared = {}

    class SharedList:
        """stands for the ListProxy; same sequence protocol (no __iter__), records the parent's reads"""
        def __init__(self, px):
            self._px = px

        def _read(self):
            if os.getpid() == parent and "read" not in shared:
                shared["read"] = True
                ev.add("read_shared")

        def __len__(self):
            self._read()
            return len(self._px)

        def __getitem__(self, i):
            self._read()
            return self._px[i]

        def __getattr__(self, name):
            return getattr(self._px, name)

    class SpyManager:
        def __enter__(self):
            self.m = RealManager()
            self.m.__enter__()
            return self

        def list(self):
            px = self.m.list()
            shared["proxy"] = px
            return SharedList(px)

        def __exit__(self, *a):
            try:
                if want_paths:
                    px = shared["proxy"]
                    shared["arrival"] = px._callmethod("__getitem__", (slice(None),))
            finally:
                return self.m.__exit__(*a)

    class SpyDG(KernelDG):
        _dgs = []

        def create_DG(self, kernel, flag_dependencies=False):
            dg = super().create_DG(kernel, flag_dependencies)
            SpyDG._dgs.append(dg)
            return dg
    SpyDG._dgs = []

    class TimeShim:
        def __init__(self):
            self.n_time = 0
            self.n_sleep = 0

        def time(self):
            self.n_time += 1
            if shim and os.getpid() == parent and self.n_time == 1 and shim.get("first_time_sleep"):
                time.sleep(shim["first_time_sleep"])
            t = time.time()
            if os.getpid() == parent:
                ev.add("time", us=int((t - ev.t0) * 1e6))
            return t

        def sleep(self, s):
            if os.getpid() != parent:
                return time.sleep(s)
            self.n_sleep += 1
            requested = s          # what the code asked for (the shim below may make the parent oversleep)
            if shim and self.n_sleep == 1 and shim.get("first_sleep_extra"):
                s = s + shim["first_sleep_extra"]
            ev.add("sleep", d_us=int(round(requested * 1e6)))
            return time.sleep(s)

    saved = (kd.Process, kd.Manager, kd.cpu_count, KernelDG.INSTRUCTION_THRESHOLD, kd.time, os.kill)
    kd.Process = SpyProcess
    kd.Manager = SpyManager
    if W is not None:
        kd.cpu_count = lambda: W
    if threshold is not None:
        KernelDG.INSTRUCTION_THRESHOLD = threshold
        SpyDG.INSTRUCTION_THRESHOLD = threshold
    kd.time = TimeShim()
    os.kill = spy_kill
    if delay is not None:
        os.environ["RRZE_HPC_OSACA_VERIF_DELAY"] = str(delay)
    else:
        os.environ.pop("RRZE_HPC_OSACA_VERIF_DELAY", None)
    t0 = time.time()
    try:
        dg = SpyDG(kernel, parser, mm, sem, timeout=timeout)
        res["wall"] = time.time() - t0
        res["children_after"] = children_of(os.getpid())
    finally:
        kd.Process, kd.Manager, kd.cpu_count, KernelDG.INSTRUCTION_THRESHOLD, kd.time, os.kill = saved
        os.environ.pop("RRZE_HPC_OSACA_VERIF_DELAY", None)
    res["timed_out"] = bool(dg.timed_out)
    res["lcd"] = canon_lcd(dg.loopcarried_deps)
    res["events"] = list(ev.log)      # snapshot: the inspection below calls is_alive() again
    res["workers"] = [{"pid": p.pid, "exitcode": p.exitcode, "alive": p.is_alive()} for p in procs]
    res["parallel"] = bool(procs)
    dg2 = SpyDG._dgs[1]
    lines = [i.line_number for i in kernel]
    intnodes = [n for n in dg2.nodes if isinstance(n, int)]
    off = max(intnodes) - max(lines)
    res["offset"] = off
    res["lines"] = lines
    if want_paths:
        if procs:
            raw = shared.get("arrival", [])
        else:
            import networkx as nx
            raw = []
            for ln in lines:
                raw.extend(nx.algorithms.simple_paths.all_simple_paths(dg2, ln, ln + off))
        res["n_paths"] = len(raw)
        if len(raw) > 20000:      # too many to ship; the caller falls back to dictionary-level oracles
            raw = []
            res["paths_dropped"] = True
        ap = []
        exact = True
        ints = True
        for p in raw:
            q = []
            for s, d in zip(p, p[1:]):
                lat = dg2.edges[s, d]["latency"]
                z = float(lat) * SCALE
                if z != int(z) or abs(z) >= 2 ** 52:
                    exact = False
                if not isinstance(s, int):
                    ints = False
                q.append([s, int(z)])
            ap.append(q)
        res["paths"] = ap
        res["lat_exact"] = exact and ints and not res.get("paths_dropped", False)
        if spec.get("raw") and ints and not res.get("paths_dropped", False):
            # what the post-processing was given, with the float latencies bit for bit (for the binary64 evaluation of the regenerated
            # post-processing): the delivered node lists in arrival order, the int edges of the doubled graph, its int nodes
            res["raw"] = {"paths": [[int(n) for n in p] for p in raw],
                          "edges": [[int(u), int(v), float(d["latency"]).hex()] for u, v, d in dg2.edges(data=True)
                                    if isinstance(u, int) and isinstance(v, int)],
                          "nodes": sorted(int(n) for n in dg2.nodes if isinstance(n, int))}
    if report:
        from osaca.frontend import Frontend
        try:
            import models
            fe = Frontend(path_to_yaml=models.yaml_path(arch_of(spec)))
            txt = fe.full_analysis(kernel, dg, ignore_unknown=True, arch_warning=False, length_warning=False,
                                   lcd_warning=dg.timed_out, verbose=False)
            res["report_has_warning"] = "WARNING: LCD analysis timed out" in txt
            res["report"] = "\n".join(l for l in txt.split("\n") if not l.startswith("Open Source Architecture Code Analyzer") and "Timestamp" not in l)
        except Exception as e:  # the report is C13's business; record, do not fail
            res["report_error"] = repr(e)
        try:
            cp = dg.get_critical_path()
            res["cp"] = [[i.line_number, float(i.latency_cp).hex()] for i in cp]
        except Exception as e:
            res["cp_error"] = repr(e)
        try:
            res["tp"] = [float(x).hex() for x in sem.get_throughput_sum(kernel)]
        except Exception as e:
            res["tp_error"] = repr(e)
    return res


# ------------------------------------------------------------------ counting paths before searching
def path_count(spec, cap=10 ** 7, with_work=False):
    """Number of paths root -> root+offset in the doubled graph, summed over roots (DP over the DAG),
    computed on the graph the implementation builds -- without enumerating."""
    from osaca.semantics import KernelDG
    import copy
    kernel, parser, mm, sem = build_kernel(spec)
    k = KernelDG.__new__(KernelDG)
    k.kernel, k.parser, k.model, k.arch_sem, k.timed_out = kernel, parser, mm, sem, False
    off = max(1000, max(i.line_number for i in kernel)) + 5000
    tmp = [] + kernel
    for o in kernel:
        t = copy.copy(o)
        t.line_number += off
        tmp.append(t)
    dg = k.create_DG(tmp)
    order = sorted(dg.nodes)
    total = 0
    work = 0      # size of the DFS trees all_simple_paths walks (it does not prune nodes that cannot reach the target)
    for r in [i.line_number for i in kernel]:
        cnt = {r: 1}
        for n in order:
            c = cnt.get(n)
            if not c or n == r + off:
                continue
            for m in dg.successors(n):
                if m <= r + off:
                    cnt[m] = cnt.get(m, 0) + c
        total += cnt.get(r + off, 0)
        work += sum(cnt.values())
        if total > cap:
            break
    return (total, work) if with_work else total


# ------------------------------------------------------------------ Coq rendering
def coq_paths(paths):
    return "[" + "; ".join("[" + "; ".join("(%d, %d)" % (s, l) for s, l in p) + "]" for p in paths) + "]"


def coq_expected(lcd):
    """canonical LCD list -> Gallina `list entry` (latencies scaled)."""
    ents = []
    for key, root, deps, lat in lcd:
        ks = "[" + "; ".join(str(d[0]) for d in deps) + "]"
        ds = "[" + "; ".join("(%d, %d)" % (d[0], int(float.fromhex(d[1]) * SCALE)) for d in deps) + "]"
        ents.append("(%s, (%d, %s, %d))" % (ks, root, ds, int(float.fromhex(lat) * SCALE)))
    return "[" + "; ".join(ents) + "]"


COQ_PRELUDE = """From Coq Require Import ZArith List Bool String.
From OV Require Import Model.PyString Model.Parallel.
Import ListNotations.
Open Scope Z_scope.
Set Printing Width 100000. Set Printing Depth 100000.
Definition edge_eqb (a b : edge) : bool := eqb_of cmp_edge a b.
Definition value_eqb (a b : value) : bool :=
  match a, b with (r1, d1, l1), (r2, d2, l2) => (r1 =? r2) && eqb_of cmp_lp d1 d2 && (l1 =? l2) end.
Definition entry_eqb (a b : entry) : bool := key_eqb (fst a) (fst b) && value_eqb (snd a) (snd b).
Fixpoint list_eqb {A} (f : A -> A -> bool) (a b : list A) : bool :=
  match a, b with [] , [] => true | x :: a', y :: b' => f x y && list_eqb f a' b' | _, _ => false end.
Definition agrees (off : Z) (ps : list path) (expected : list entry) : bool :=
  match post off ps with Some d => list_eqb entry_eqb d expected | None => false end.
(* the hypothesis of partial_sound, decided *)
Definition key_injb (off : Z) (ps : list path) : bool :=
  let lps := map snd (dedup off [] ps) in
  forallb (fun a => forallb (fun b => negb (key_eqb (map fst a) (map fst b)) || eqb_of cmp_lp a b) lps) lps.
"""


def main():
    sys.path.insert(0, os.path.join(os.path.dirname(os.path.abspath(__file__)), "..", "lib"))
    import vlib
    sys.path.insert(0, vlib.REPO)
    os.environ[vlib.GUARD] = "1"
    jobs = json.load(open(sys.argv[1]))
    out = []
    for j in jobs:
        try:
            if j.get("op") == "count":
                c, w = path_count(j["spec"], j.get("cap", 10 ** 7), with_work=True)
                out.append({"count": c, "work": w})
            else:
                kw = {k: j[k] for k in ("W", "threshold", "timeout", "delay", "shim", "want_paths", "report") if k in j}
                out.append(analyse(j["spec"], **kw))
        except Exception as e:
            import traceback
            out.append({"error": repr(e), "trace": traceback.format_exc()})
        with open(sys.argv[2] + ".tmp", "w") as f:
            json.dump(out, f)
        os.replace(sys.argv[2] + ".tmp", sys.argv[2])


if __name__ == "__main__":
    main()
