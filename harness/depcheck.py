"""Shared runner of the dependency-graph checks C03 / C04 / C05 / C06 / C14 (DESIGN.md).
Every check runs the same bit-exact correspondence (Model/Deps.v + Model/CritPath.v vs KernelDG) on its own
cases and adds its own independent oracle on the implementation's outputs."""
import itertools
import json
import os

import vlib
import deps
import gen_c12


# ------------------------------------------------------------------ shared set-up
def prepare(ctx, props_file):
    ctx.trusted += ["hand model Model/Deps.v, Model/CritPath.v tied to KernelDG by bit-exact correspondence on edges, CP cells and LCD entries",
                    "inputs of the model per line (semantic operand sets, latencies, get_reg_changes results) are taken from the implementation's earlier stages",
                    "register alias test = the definition regenerated from the parsers (Gen/RegDep*.v, property C12)",
                    "networkx all_simple_paths / dag_longest_path are not modelled: the LCD set and the CP certificate are compared"]
    ctx.ensure_static()
    gen = gen_c12.generate(vlib.REPO, os.path.join(vlib.COQ, "Gen"))
    okg = True
    for fn, (ok, text) in gen.items():
        c = False
        if ok:
            c, out, _ = ctx.coqc_gen(os.path.join(vlib.COQ, "Gen", fn))
        okg = okg and ok and c
    ctx.obligation("register alias functions regenerated and compiled (Gen/RegDep*.v)", "translation", okg, "" if okg else str(gen)[:1500])
    ctx.compile_theorems(props_file)
    return okg


def run_shards(ctx, cases, label, size=12):
    shards = [("%s_%03d" % (label, i // size), deps.coq_shard(cases[i:i + size])) for i in range(0, len(cases), size)]
    res = ctx.coq_eval_many(shards, timeout=900)
    bad = {"edges": [], "cp": [], "lcd": [], "roles": []}
    errs = []
    for si, (ok, out) in enumerate(res):
        if not ok:
            errs.append("shard %d failed: %s" % (si, out[0][-1200:]))
            continue
        e, c, l, ro, n = out[0].split("|")
        for name, s in (("edges", e), ("cp", c), ("lcd", l), ("roles", ro)):
            bad[name] += [si * size + int(x) for x in s.split(",") if x]
    for name, what in (("edges", "dependency edges and weights"), ("cp", "critical-path certificate and optimum"), ("lcd", "loop-carried dependency entries"),
                       ("roles", "role assignment: source / destination / src_dst sets of every line")):
        detail = ""
        if bad[name] or errs:
            detail = "\n".join(errs[:2] + ["case %d: %s" % (i, cases[i]["text"][:600]) for i in bad[name][:3]])
            d = os.path.join(vlib.VERIF, "replays", ctx.prop)
            os.makedirs(d, exist_ok=True)
            for i in bad[name][:3]:
                with open(os.path.join(d, "disagree-%s-%s-%d.json" % (label, name, i)), "w") as f:
                    json.dump({"property": ctx.prop, "key": "correspondence", "replay": {k: cases[i][k] for k in ("isa", "text", "flagdeps") if k in cases[i]} | {"origin": cases[i].get("origin")}}, f, default=str)
        ctx.obligation("correspondence %s: model = implementation (%s) on %d kernels" % (label, what, len(cases)),
                       "correspondence", not bad[name] and not errs, detail)


# ------------------------------------------------------------------ case sources
ALLFORMS = {}


def synthetic(ctx, n, maxlen=None, regs_only=False):
    """yields (case, kernel, dg, isa, gen_lines, pipe)"""
    out = []
    for _ in range(n):
        isa = ctx.rng.choice(["x86", "aarch64"])
        forms, iy, ay, fwd, pidx = deps.gen_db(ctx.rng, isa)
        ALLFORMS["forms"] = list(forms)
        if regs_only:
            forms = [f for f in forms if "mem" not in f["kinds"]] or forms
        pipe = deps.Pipeline(ctx, isa, iy, ay)
        gl = deps.gen_kernel(ctx.rng, isa, forms, n=maxlen and ctx.rng.randint(2, maxlen))
        tl = [t for t, _, _ in gl]
        if ctx.rng.random() < 0.3:
            # empty lines inside the kernel: parse_file drops them, so the line numbers of the kernel have gaps
            for _ in range(ctx.rng.choice([1, 1, 2])):
                tl.insert(ctx.rng.randrange(1, len(tl)) if len(tl) > 1 else 0, "")
            ctx.coverage["synthetic_kernels_with_line_gaps"] = ctx.coverage.get("synthetic_kernels_with_line_gaps", 0) + 1
        text = "\n".join(tl) + "\n"
        fd = ctx.rng.random() < 0.5
        case, kernel, dg = deps.build_case(pipe, text, fd)
        case["origin"] = "synthetic"
        case["db"] = {"isa_yaml": iy, "arch_yaml": ay}
        ctx.coverage["synthetic_kernels_with_load_node"] = ctx.coverage.get("synthetic_kernels_with_load_node", 0) + any(l["loadnode"] for l in case["lines"])
        out.append((case, kernel, dg, isa, gl, pipe))
        if ctx.rng.random() < 0.2:
            # the very same kernel text again, in the same process, on a model that differs only in its latencies (and forwarding /
            # write-back latencies): nothing of the first analysis may survive into the second one
            import re
            lats = [1.0, 2.0, 3.0, 4.0, 5.0, 7.0, 0.0]
            ay2 = re.sub(r"(?m)^(    latency: )\S+$", lambda m: m.group(1) + str(ctx.rng.choice(lats)), ay)
            ay2 = re.sub(r"(?m)^(store_to_load_forward_latency: )\S+$", lambda m: m.group(1) + str(ctx.rng.choice([0.0, 1.5, 2.0, 3.0])), ay2)
            ay2 = re.sub(r"(?m)^(p_index_latency: )\S+$", lambda m: m.group(1) + str(ctx.rng.choice([1.0, 0.5, 2.0])), ay2)
            # the generator's view of the forms (used by the oracles) with the latencies of the second model
            newl = [float(x) for x in re.findall(r"(?m)^    latency: (\S+)$", ay2)]
            pipe2 = deps.Pipeline(ctx, isa, iy, ay2)
            case2, kernel2, dg2 = deps.build_case(pipe2, text, fd)
            case2["origin"] = "synthetic (same text, second model)"
            case2["db"] = {"isa_yaml": iy, "arch_yaml": ay2}
            ctx.coverage["synthetic_kernels_reanalysed_on_second_model"] = ctx.coverage.get("synthetic_kernels_reanalysed_on_second_model", 0) + 1
            gl2 = gl
            if ALLFORMS.get("forms") is not None and len(newl) == len(ALLFORMS["forms"]):
                idx = {id(f): i for i, f in enumerate(ALLFORMS["forms"])}
                gl2 = [(t, dict(f, lat=newl[idx[id(f)]]) if id(f) in idx else f, infos) for t, f, infos in gl]
            out.append((case2, kernel2, dg2, isa, gl2, pipe2))
    return out


def real(ctx, npairs, fast_only=True):
    import models
    import pressure
    pairs = []
    for f in pressure.kernel_files():
        isa = pressure.isa_of_file(f)
        for a in (models.X86 if isa == "x86" else models.A64):
            if a in models.nonempty_archs() and (not fast_only or a in models.SMALL + ["zen2"]):
                pairs.append((a, f, isa))
    ctx.rng.shuffle(pairs)
    # every chosen kernel file is analysed on TWO models of its ISA, one right after the other and with the same options, in this
    # process: the second analysis must not see anything of the first (graphs, weights, annotations)
    chosen, fdof = [], {}
    for a, f, isa in pairs:
        if len(chosen) >= npairs:
            break
        if any(f == f2 for _, f2, _ in chosen):
            continue
        second = [(a2, f2, i2) for a2, f2, i2 in pairs if f2 == f and a2 != a][:1]
        chosen += [(a, f, isa)] + second
        fdof[f] = ctx.rng.random() < 0.3
    out = []
    for a, f, isa in chosen[:max(npairs, 2)]:
        pipe = deps.Pipeline(ctx, isa, arch=a)
        text = open(f).read()
        fd = fdof[f]
        try:
            case, kernel, dg = deps.build_case(pipe, text, fd, reduce=True)
        except Exception as e:  # noqa
            ctx.coverage.setdefault("real_skipped", []).append("%s %s: %r" % (a, os.path.basename(f), e))
            continue
        if len(kernel) > 60:
            case.pop("lcd", None)       # path enumeration in Coq is exponential; LCD of big kernels is compared in Python only
        case["origin"] = "%s on %s" % (os.path.relpath(f, vlib.REPO), a)
        out.append((case, kernel, dg, isa, None, pipe))
    return out


# ------------------------------------------------------------------ oracles
def raw_oracle(ctx, case, isa, gl):
    """C03: edge set == architectural read-after-write relation (store->load pairs excluded), forward, weights."""
    nos = [l["no"] for l in case["lines"]]
    got = {}
    for (u, ld, v), w in case["edges"].items():
        if ld:
            continue
        got[(nos.index(u), nos.index(v))] = w
        if not nos.index(u) < nos.index(v):
            ctx.violation("edge-not-forward", "edge %d -> %d does not point forward in program order" % (u, v),
                          {"isa": isa, "text": case["text"], "flagdeps": case["flagdeps"], "db": case.get("db")})
    ref = deps.reference_raw(isa, gl, case["flagdeps"])

    def stld(i, j):
        return any(k == "mem" for k, _ in gl[i][2]) and any(k == "mem" for k, _ in gl[j][2])
    missing = sorted(ref - set(got))
    extra = sorted(e for e in set(got) - ref if not stld(*e))
    rep = {"isa": isa, "text": case["text"], "flagdeps": case["flagdeps"], "db": case.get("db")}
    if missing:
        i, j = missing[0]
        ctx.violation("raw-edge-missing", "line %d writes a register that line %d reads (no overwrite between) but there is no edge: %s -> %s"
                      % (nos[i], nos[j], gl[i][0].strip(), gl[j][0].strip()), rep)
    if extra:
        i, j = extra[0]
        ctx.violation("raw-edge-spurious", "edge %d -> %d without a read-after-write register dependency: %s -> %s"
                      % (nos[i], nos[j], gl[i][0].strip(), gl[j][0].strip()), rep)
    # weights: producer latency (forms are direct hits: latency_wo_load = latency), p_index latency, or + forwarding
    for (i, j), w in got.items():
        lat = gl[i][1]["lat"]
        allowed = {lat, case["pidx"], lat + case["fwd"]}
        if all(abs(w - a) > 1e-12 for a in allowed):
            ctx.violation("edge-weight", "edge %d -> %d carries %s, producer latency is %s" % (nos[i], nos[j], w, lat), rep)


def chain_value(path, edges, lat, loadw):
    v = sum(edges[(a, False, b)] for a, b in zip(path, path[1:])) + lat[path[-1]]
    if len(path) >= 2:
        v += loadw.get(path[0], 0.0)
    return v


def cp_oracle(ctx, case, limit=200000):
    """C04: the reported CP equals the longest chain by brute-force enumeration on the implementation's own graph."""
    edges = case["edges"]
    lat = {l["no"]: l["lat"] for l in case["lines"]}
    loadw = {u: w for (u, ld, v), w in edges.items() if ld}
    lat_wo = {l["no"]: l["lat_wo"] for l in case["lines"]}
    for u, w in loadw.items():
        if abs(w - (lat[u] - lat_wo[u])) > 1e-12:
            ctx.violation("load-stage-weight", "line %d: the separately modelled load stage weighs %s, but latency %s - latency without load %s = %s "
                          "(the load stage would be counted more than once along a chain)" % (u, w, lat[u], lat_wo[u], lat[u] - lat_wo[u]),
                          {"isa": case["isa"], "text": case["text"], "flagdeps": case["flagdeps"], "db": case.get("db"), "origin": case.get("origin")})
    succ = {}
    for (u, ld, v), w in edges.items():
        if not ld:
            succ.setdefault(u, []).append(v)
    best = [0.0, None]
    count = [0]

    def dfs(path):
        count[0] += 1
        if count[0] > limit:
            return
        v = chain_value(path, edges, lat, loadw)
        if v > best[0] + 1e-12 or best[1] is None:
            best[0], best[1] = v, list(path)
        for n in succ.get(path[-1], []):
            dfs(path + [n])
    for n in lat:
        dfs([n])
    if count[0] > limit:
        return None
    cells = case["cp"]
    total = sum(x for _, x in cells)
    if case.get("cp_first_call") is not None and case["cp_first_call"] != cells:
        ctx.violation("cp-changes-on-second-call", "get_critical_path() returned %s on the first call and %s on the second (text report vs machine-readable output)"
                      % (case["cp_first_call"], cells),
                      {"isa": case["isa"], "text": case["text"], "flagdeps": case["flagdeps"], "db": case.get("db"), "origin": case.get("origin")})
    rep = {"isa": case["isa"], "text": case["text"], "flagdeps": case["flagdeps"], "db": case.get("db"), "origin": case.get("origin")}
    if total < best[0] - 1e-9:
        ctx.violation("cp-shorter-than-longest-chain", "reported critical path %s but the chain %s has length %s" % (total, best[1], best[0]), rep)
    elif total > best[0] + 1e-9:
        ctx.violation("cp-longer-than-any-chain", "reported critical path %s exceeds the longest chain %s" % (total, best[0]), rep)
    for (a, _), (b, _) in zip(cells, cells[1:]):
        if (a, False, b) not in edges:
            ctx.violation("cp-lines-not-linked", "consecutive critical-path lines %d, %d are not joined by a dependency" % (a, b), rep)
    if lat and total < max(lat.values()) - 1e-9:
        ctx.violation("cp-below-single-latency", "critical path %s < latency %s of one instruction" % (total, max(lat.values())), rep)
    return best[0]


def lcd_reference(isa, gl, flagdeps):
    """C05: winding-number-1 cycles over the reference RAW relation of two concatenated iterations, as member sets."""
    n = len(gl)
    ref = deps.reference_raw(isa, gl + gl, flagdeps)
    succ = {}
    for a, b in ref:
        succ.setdefault(a, []).append(b)
    cycles = set()

    def dfs(path, target):
        for nx in succ.get(path[-1], []):
            if nx == target:
                cycles.add(frozenset(p % n for p in path))
            elif nx < target:
                dfs(path + [nx], target)
    for i in range(n):
        dfs([i], i + n)
    return cycles


def lcd_oracle(ctx, case, isa, gl):
    if any(k == "mem" for _, _, infos in gl for k, _ in infos):
        return False
    nos = [l["no"] for l in case["lines"]]
    ref = lcd_reference(isa, gl, case["flagdeps"])
    got = {}
    for s, members in case["lcd"]:
        got.setdefault(frozenset(nos.index(m) for m, _ in members), []).append((s, members))
    rep = {"isa": isa, "text": case["text"], "flagdeps": case["flagdeps"], "db": case.get("db")}
    for cyc in ref - set(got):
        ctx.violation("lcd-cycle-missing", "cross-iteration cycle through lines %s is not reported" % sorted(nos[i] for i in cyc), rep)
    for cyc in set(got) - ref:
        ctx.violation("lcd-spurious", "reported loop-carried dependency %s is not a cross-iteration cycle" % sorted(nos[i] for i in cyc), rep)
    lat = {nos[i]: gl[i][1]["lat"] for i in range(len(gl))}
    for cyc, ents in got.items():
        for s, members in ents:
            want = sum(lat[m] for m, _ in members)
            if abs(s - want) > 1e-9:
                ctx.violation("lcd-latency", "loop-carried dependency %s reports latency %s, the latencies along it add up to %s"
                              % ([m for m, _ in members], s, want), rep)
    return True


def lcd_of_text(pipe, text, flagdeps):
    """canonical LCD set of a kernel: frozenset of (sorted member instruction texts, latency)"""
    kernel, dg = pipe.analyse(text, flagdeps)
    out = set()
    for key, v in dg.get_loopcarried_dependencies().items():
        members = tuple(sorted(i.line.strip() for i, _ in v["dependencies"]))
        out.add((members, round(float(v["latency"]), 9)))
    lcd = dg.get_loopcarried_dependencies()
    return out, (max([v["latency"] for v in lcd.values()]) if lcd else 0)


def rotation_oracle(ctx, pipe, text, flagdeps, isa, origin, max_rot=None, rots=None, fresh=None):
    """C14: every rotation of the loop body reports the same set of cycles (as instruction texts) and the same maximum.
    fresh: callable returning a NEW pipeline (new MachineModel / ArchSemantics objects, as every command line run has): each rotation is
    then analysed on objects that have seen nothing before, so per-object memos filled in line order cannot hide behind a shared model."""
    lines = [l for l in text.split("\n") if l.strip()]
    if fresh:
        pipe = fresh()
    base, bmax = lcd_of_text(pipe, "\n".join(lines) + "\n", flagdeps)
    rots = list(range(1, len(lines))) if rots is None else [r % len(lines) for r in rots if r % len(lines)]
    if max_rot and len(rots) > max_rot:
        rots = ctx.rng.sample(rots, max_rot)
    n = 0
    for r in rots:
        rot = lines[r:] + lines[:r]
        if fresh:
            pipe = fresh()
        got, gmax = lcd_of_text(pipe, "\n".join(rot) + "\n", flagdeps)
        n += 1
        ctx.count()
        if got != base or abs(gmax - bmax) > 1e-9:
            only_b = sorted(base - got)[:2]
            only_r = sorted(got - base)[:2]
            ctx.violation("lcd-changes-under-rotation",
                          "%s: rotating the body by %d lines changes the loop-carried dependencies (only unrotated: %s; only rotated: %s; max %s vs %s)"
                          % (origin, r, only_b, only_r, bmax, gmax),
                          {"isa": isa, "text": "\n".join(lines) + "\n", "rotation": r, "flagdeps": flagdeps, "origin": origin})
            break
    return n
