"""Scratch copies of the shipped model files, keyed by a hash of the implementation's code.

The pickles next to /repo/osaca/data/*.yml are keyed by the YAML content only, so after a change
to the loader they would be stale.  Checks therefore load models from a copy under
/verif/.cache/data-<hash of every osaca/*.py>/ (the implementation writes its companion pickle
there on first load; a code change gives a fresh directory)."""
import os
import shutil
import glob
import vlib

X86 = ["zen1", "zen2", "zen3", "zen4", "snb", "ivb", "hsw", "icl", "icx", "spr"]
A64 = ["n1", "tx2", "a64fx", "a72", "tsv110", "m1", "v2"]
SMALL = ["zen1", "n1", "tx2", "a64fx", "a72", "tsv110", "m1", "v2", "zen4", "spr", "zen3"]   # load in < 1.5 s cold


def data_dir():
    d = os.path.join(vlib.VERIF, ".cache", "data-" + vlib.code_hash())
    if not os.path.isdir(d):
        tmp = d + ".tmp%d" % os.getpid()
        os.makedirs(os.path.join(tmp, "isa"), exist_ok=True)
        src = os.path.join(vlib.REPO, "osaca", "data")
        for f in glob.glob(os.path.join(src, "*.yml")):
            shutil.copy(f, tmp)
        for f in glob.glob(os.path.join(src, "isa", "*.yml")):
            shutil.copy(f, os.path.join(tmp, "isa"))
        try:
            os.rename(tmp, d)
        except OSError:
            shutil.rmtree(tmp, ignore_errors=True)
        # prune old copies
        for old in glob.glob(os.path.join(vlib.VERIF, ".cache", "data-*")):
            if old != d and not old.startswith(d) and os.path.getmtime(old) < os.path.getmtime(d) - 3600:
                shutil.rmtree(old, ignore_errors=True)
    return d


def nonempty_archs():
    d = data_dir()
    return sorted(os.path.basename(f)[:-4] for f in glob.glob(os.path.join(d, "*.yml")) if os.path.getsize(f) > 0)


def yaml_path(arch):
    return os.path.join(data_dir(), arch + ".yml")


def isa_path(isa):
    return os.path.join(data_dir(), "isa", isa + ".yml")


_cache = {}


def load(arch):
    """(MachineModel, ArchSemantics) for a shipped model, loaded through the implementation's own loader."""
    if arch not in _cache:
        from osaca.semantics import MachineModel, ArchSemantics
        mm = MachineModel(path_to_yaml=yaml_path(arch))
        sem = ArchSemantics(mm, path_to_yaml=isa_path(mm.get_ISA().lower()))
        _cache[arch] = (mm, sem)
    return _cache[arch]


def load_fresh(arch):
    """new MachineModel / ArchSemantics objects on every call (what each command line run builds)"""
    from osaca.semantics import MachineModel, ArchSemantics
    mm = MachineModel(path_to_yaml=yaml_path(arch))
    return mm, ArchSemantics(mm, path_to_yaml=isa_path(mm.get_ISA().lower()))
