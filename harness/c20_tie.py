"""C20, translator tie (T) for the benchmark-import GLUE (notes/C20-glue.md).

  1. tools/gen_c20b.py translates the CURRENT source of _get_ibench_output, _get_asmbench_output,
     import_benchmark_output (db_interface.py) and MachineModel.get_ISA / _check_*_operands / _match_operands /
     get_instruction / set_instruction / set_instruction_entry (hw_model.py) into ImportGlue.v, and tools/gen_c20.py
     the snapping function and the decoders into ImportFns.v -- both in the run's OWN scratch directory (logical root
     OVC), so that concurrent runs (a mutant tree next to the unchanged tree) never share generated text;
  2. a copy of coq/PropsGen/C20glue.v is compiled against that text: regenerated code = Model/Import.v on every
     input, and the C20 statements restated for the regenerated code (one obligation per theorem);
  3. the regenerated g_import_benchmark_output is EVALUATED (binary64 instance, float() as a table) on the benchmark
     files the check generated and compared with what the real import_benchmark_output emitted for them (bit for bit,
     exception classes included) -- this validates the translator and its prelude Model/ImportGlue.v;
  4. the keys of a dumped imported entry are compared with the attribute order read from InstructionForm.__init__.
"""
import os
import re

import vlib
import gen_c20
import gen_c20b
import c20_import as H
from vlib import coq_string as cs

PROPS = "PropsGen/C20glue.v"
SELF_ISA = {"x86": "x86", "aarch64": "AArch64"}      # _data["isa"] of zen1.yml / n1.yml

CASE_HEADER = """From Coq Require Import String Ascii List Bool ZArith Uint63 PrimFloat.
From OV Require Import Model.PyString Model.ImportPre Model.Import Model.ImportGlue.
From OVC Require Import ImportFns ImportGlue.
Import ListNotations.
Open Scope string_scope.
Set Printing Width 100000. Set Printing Depth 100000.
Definition table : list (string * float) := [%s].
Definition pf (s : string) : option float := assoc s table.
Definition ex_x86 : list (string * list nat) := [%s].
Definition ex_a64 : list (string * list nat) := [%s].
Definition ship (n : nat) : list oper := repeat (OObj KRegister (fun _ => PNone)) n.
Definition g0 (ex : list (string * list nat)) : gmm float := mkgmm [] [] (map (fun p => (fst p, map RExisting (snd p))) ex).
Definition run (x86 ibench : bool) (lines : list string) :=
  g_import_benchmark_output float FNum pf (if x86 then %s else %s) ship (if ibench then "ibench" else "asmbench")
                            (g0 (if x86 then ex_x86 else ex_a64)) lines false.
Definition oeq (a b : option float) : bool :=
  match a, b with Some x, Some y => f_biteq x y | None, None => true | _, _ => false end.
Definition feq (a b : iform float) : bool :=
  andb (String.eqb (f_mnemonic a) (f_mnemonic b))
       (andb (ops_eqb (f_operands a) (f_operands b)) (andb (oeq (f_tp a) (f_tp b)) (oeq (f_lt a) (f_lt b)))).
Fixpoint leq (a b : list (iform float)) : bool :=
  match a, b with [] , [] => true | x :: r, y :: s => andb (feq x y) (leq r s) | _, _ => false end.
Inductive xres := XOk (l : list (iform float)) | XErr (e : gerr) | XOther.
Definition req (a : gres (option (list (iform float)))) (b : xres) : bool :=
  match a, b with
  | GOk (Some x), XOk y => leq x y
  | GErr GIndex, XErr GIndex | GErr GValue, XErr GValue | GErr GKey, XErr GKey | GErr GType, XErr GType => true
  | _, _ => false
  end.
Definition cases : list (bool * bool * list string * xres) := [
%s
].
Definition bad : list nat :=
  map fst (filter (fun p => match snd p with (x86, ib, ls, exp) => negb (req (run x86 ib ls) exp) end)
                  (combine (seq 0 (length cases)) cases)).
Definition show := (String.concat "," (map string_of_nat (firstn 20 bad)) ++ "|" ++ string_of_nat (length cases))%%string.
Eval vm_compute in show.
"""
GERR = {"IndexError": "GIndex", "ValueError": "GValue", "KeyError": "GKey", "TypeError": "GType"}


def theorem_names():
    src = open(os.path.join(vlib.COQ, PROPS)).read()
    return re.findall(r"^(?:Theorem|Corollary)\s+([A-Za-z0-9_']+)", src, re.M)


def xres(res):
    if res[0] == "err":
        e = GERR.get(res[1])
        return "(XErr %s)" % e if e else "XOther"
    if any(g[0] is None or g[1] is None for g in res[1]):
        return "XOther"
    return "(XOk [" + "; ".join(H.coq_form(g) for g in res[1]) + "])"


def case_file(cases, existing):
    table = {}
    rows = []
    for isa, bench, text, result in cases:
        lines = H.split_lines(text)
        for ln in lines:
            toks = ln.split()
            if len(toks) > 1:
                try:
                    v = float(toks[1])
                except ValueError:
                    continue
                table[toks[1]] = v
        rows.append("  (%s, %s, [%s], %s)" % ("true" if isa == "x86" else "false", "true" if bench == "ibench" else "false",
                                             "; ".join(H.coq_line(l) for l in lines), xres(result)))

    def ex(d):
        return "; ".join("(%s, [%s]%%nat)" % (cs(k), "; ".join(str(n) for n in v)) for k, v in d.items())
    return CASE_HEADER % ("; ".join("(%s, %s)" % (cs(k), H.coq_float(v)) for k, v in table.items()),
                          ex(existing["x86"]), ex(existing["aarch64"]), cs(SELF_ISA["x86"]), cs(SELF_ISA["aarch64"]), ";\n".join(rows))


def fail_all(ctx, why):
    for nme in theorem_names():
        ctx.obligation("theorem %s (%s)" % (nme, PROPS), "theorem", False, why)


def run_T(ctx):
    """regenerate, compile, prove.  Returns dict(ok=translated and compiled, proved=bool, meta=...)."""
    d = os.path.join(ctx.scratch, "cases")
    os.makedirs(d, exist_ok=True)
    out = {"ok": False, "proved": False, "meta": {}, "dir": d}
    try:
        fns = gen_c20.gen_import(vlib.REPO)
        with open(os.path.join(d, "ImportFns.v"), "w") as f:
            f.write(fns)
        okf, errf = True, ""
    except (gen_c20.Unsupported, SyntaxError, OSError) as e:
        okf, errf = False, "%s: %s" % (type(e).__name__, e)
    ok, text, meta = gen_c20b.generate(vlib.REPO, d, root="OVC", fns="ImportFns") if okf else (False, errf, {})
    ctx.obligation("translate the import glue from the current source (tools/gen_c20b.py: _get_ibench_output, _get_asmbench_output, "
                   "import_benchmark_output, MachineModel.set_instruction_entry/set_instruction/get_instruction/_match_operands/"
                   "_check_operands/_check_x86_operands/_check_AArch64_operands/get_ISA, InstructionForm shape)", "translation", ok,
                   "" if ok else text)
    out["meta"] = meta
    if not ok:
        fail_all(ctx, "generated definitions unavailable: " + text)
        return out
    if vlib.REPO == "/repo":
        try:        # a copy for the reader (never compiled from there)
            os.makedirs(os.path.join(vlib.COQ, "Gen"), exist_ok=True)
            tmp = os.path.join(vlib.COQ, "Gen", "ImportGlue.v.tmp%d" % os.getpid())
            with open(tmp, "w") as f:
                f.write(text.replace("From OVC Require Import ImportFns.", "From OV Require Import Gen.Import."))
            os.replace(tmp, os.path.join(vlib.COQ, "Gen", "ImportGlue.v"))
        except OSError:
            pass
    c1, o1, _ = ctx.coqc(os.path.join(d, "ImportFns.v"), extra_q=[(d, "OVC")])
    c2, o2, dt = ctx.coqc(os.path.join(d, "ImportGlue.v"), extra_q=[(d, "OVC")]) if c1 else (False, o1, 0.0)
    ctx.obligation("generated ImportGlue.v type-checks", "translation", c1 and c2, o2)
    bad = [b for b in vlib.hygiene_scan(d) if "ImportGlue.v" in b or "ImportFns.v" in b]
    ctx.obligation("generated ImportGlue.v declares no axiom", "hygiene", not bad, "\n".join(bad))
    if not (c1 and c2):
        fail_all(ctx, "generated definitions do not compile")
        return out
    out["ok"] = True
    src = open(os.path.join(vlib.COQ, PROPS)).read()
    vfile = os.path.join(d, "C20glue.v")
    with open(vfile, "w") as f:
        f.write(src)
    c3, o3, dt3 = ctx.coqc(vfile, timeout=900, extra_q=[(d, "OVC")])
    for nme in theorem_names():
        ctx.obligation("theorem %s (%s)" % (nme, PROPS), "theorem", c3, "" if c3 else o3)
    if c3:
        ctx.print_assumptions[PROPS] = vlib.parse_assumptions(o3)
    ctx.checker_cmds.append("coqc -Q coq OV -Q <scratch> OVC PropsGen/C20glue.v")
    ctx.log("T(glue): ImportGlue.v generated (%d lines), coqc %.1fs; %s: %s in %.1fs (%d theorems)" % (
        text.count("\n"), dt, PROPS, "ok" if c3 else "FAILED", dt3, len(theorem_names())))
    out["proved"] = c3
    return out


def check_dump_keys(ctx, meta):
    """the keys of a dumped imported entry = the attributes InstructionForm.__init__ assigns, in that order"""
    import io
    import warnings
    import ruamel.yaml
    import osaca.db_interface as dbi
    path = os.path.join(ctx.scratch, "bench_keys.dat")
    with open(path, "w") as f:
        f.write("tiekeys-r_r-TP: 1.0 (clock cycles)\ntiekeys-r_r-LT: 0.0 (clock cycles)\n")
    out = io.StringIO()
    try:
        with warnings.catch_warnings():
            warnings.simplefilter("ignore")
            dbi.import_benchmark_output(H.ARCH["x86"], "ibench", path, output=out)
        s = out.getvalue()
        tail = s[s.index("\n- mnemonic:") + 1:]
        forms = ruamel.yaml.YAML(typ="safe").load(tail)
        keys = list(forms[0].keys())
        val = (forms[0]["mnemonic"], forms[0]["throughput"], forms[0]["latency"], forms[0]["port_pressure"], forms[0]["uops"])
    except Exception as e:  # noqa: BLE001
        keys, val = "%s: %s" % (type(e).__name__, e), None
    want = meta.get("instruction_form_attrs")
    good = keys == want and val == ("tiekeys", 1.0, 0.0, None, None)
    ctx.obligation("dump of an imported entry emits exactly the attributes of InstructionForm.__init__ (%d keys, in order), "
                   "latency 0.0 emitted as a value, port_pressure / uops None" % (len(want) if want else 0), "correspondence", good,
                   "" if good else "dumped keys %r values %r, InstructionForm.__init__ assigns %r" % (keys, val, want))
    ctx.count()


def run(ctx, cases, existing):
    """cases: the (isa, bench, text, real result) tuples of the check's file stage"""
    ctx.trusted += [
        "translator tools/gen_c20b.py + prelude Model/ImportGlue.v for the import glue (the regenerated import_benchmark_output is "
        "compared with the real one on every generated benchmark file each run); representation choices listed in notes/C20-glue.md "
        "(InstructionForm cells with four tracked fields, shipped objects abstracted to their operand count, MachineModel.dump not translated)",
    ]
    st = run_T(ctx)
    if not st["ok"]:
        return st
    check_dump_keys(ctx, st["meta"])
    per = 80
    shards = [("c20_tie_%d" % (s // per), case_file(cases[s:s + per], existing)) for s in range(0, len(cases), per)]
    res = ctx.coq_eval_many(shards, timeout=600)
    nbad = 0
    for si, (okc, out) in enumerate(res):
        n = len(cases[si * per:(si + 1) * per])
        name = "tie shard %d: regenerated g_import_benchmark_output (binary64) = real import_benchmark_output on %d files, bit for bit" % (si, n)
        if not okc:
            ctx.obligation(name, "correspondence", False, out[0])
            nbad += 1
            continue
        bad, cnt = out[0].split("|")
        detail = ""
        if bad:
            j = int(bad.split(",")[0]) + si * per
            detail = "disagreeing files (first 20, shard-relative): %s; first: %r -> implementation %r" % (bad, cases[j][:3], cases[j][3])
            nbad += 1
        ctx.obligation(name, "correspondence", bad == "" and int(cnt) == n, detail)
    ctx.coverage["glue_tie"] = {"files_cross_checked": len(cases), "shards": len(shards), "theorems": len(theorem_names()),
                                "proved": st["proved"]}
    ctx.log("tie(glue): %d files in %d shards, %d disagreeing shard(s)" % (len(cases), len(shards), nbad))
    return st
