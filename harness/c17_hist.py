"""C17 harness: drive the real command line tool through cache histories in private worlds.

A *world* is a private HOME:  ~/.osaca/data/<arch>.yml, ~/.osaca/data/isa/<isa>.yml (found first by
osaca.utils.find_datafile, so `--arch <arch>` uses them and the companion caches are written next to them),
~/.osaca/cache (home caches) and an `other/` directory with a different file of the same name.
In `home` mode the data directories are made immutable (chattr +i: os.access(dir, W_OK) is False even for root,
the genuine code path of a read-only installation); if chattr is unavailable os.access is patched in the driver.

Every operation is executed on the implementation, its outcome and the complete observable file-system state are
recorded, and the whole history is rendered as a list of Model/Cache.v events for `trace_fail`.
"""
import glob
import hashlib
import json
import os
import pickle
import re
import shutil
import subprocess
import time

import vlib
from c17_driver import fingerprint

HERE = os.path.dirname(os.path.abspath(__file__))
DRIVER = os.path.join(HERE, "c17_driver.py")
NCH = 4
ISA_OF = {"zen1": "x86", "n1": "aarch64", "tx2": "aarch64", "zen4": "x86", "a72": "aarch64"}
KERNELS = {
    "x86": ["tests/test_files/kernel_x86.s", "tests/test_files/triad_x86_iaca.s", "tests/test_files/kernel_x86_memdep.s"],
    "aarch64": ["tests/test_files/kernel_aarch64.s", "tests/test_files/triad_arm_iaca.s", "tests/test_files/kernel_aarch64_memdep.s"],
}
CID_ISA, CID_OTHER, CID_ARCH0 = 1, 20, 10


def hook_present():
    src = open(os.path.join(vlib.REPO, "osaca", "semantics", "hw_model.py")).read()
    return "RRZE_HPC_OSACA_VERIF_CRASH" in src


def rehash_in_source():
    """Does _write_in_cache take the cache key from another read of the model file (True) or is it handed the hash of
    the bytes that were parsed (False)?  Decides the w_rehash flag of the Coq setup; the generated histories contain
    no edit inside a load, so the flag selects which theorems apply, not whether a trace is accepted."""
    import ast
    src = open(os.path.join(vlib.REPO, "osaca", "semantics", "hw_model.py")).read()
    for node in ast.walk(ast.parse(src)):
        if (isinstance(node, ast.Call) and isinstance(node.func, ast.Attribute) and node.func.attr == "_write_in_cache"
                and (len(node.args) >= 2 or node.keywords)):
            return False
    return True


def internal_version():
    from osaca.semantics.hw_model import MachineModel
    return MachineModel.INTERNAL_VERSION


def sha(b):
    return hashlib.sha256(b).hexdigest()


def variant(base, v):
    """Content variants of a model file: 0 = as shipped; odd v = every instruction latency raised by v (the report
    changes); even v > 0 = a trailing comment (other hash, same report)."""
    if v == 0:
        return base
    if v % 2 == 0:
        return base + b"\n# verification edit %d\n" % v
    out, n = re.subn(rb"(?m)^(  latency: )([0-9]+(?:\.[0-9]+)?)(?=[ \t]*(?:#.*)?$)",
                     lambda m: (m.group(1).decode() + repr(float(m.group(2)) + v)).encode(), base)
    assert n > 0
    return out


def isa_variant(isa, base):
    """A content variant of an ISA semantics file that changes the report of the C17 kernels: the first `add` entry (x86: add imm,gpr;
    AArch64: add x,x,imm) no longer declares its register SOURCE (`addq $32, %rax` / `add x10, x10, #64` stop carrying a loop dependency)."""
    m = re.search(rb"(?m)^( *)- name: add\n", base)
    assert m, "no `add` entry in the ISA file"
    start = m.end()
    nxt = re.search(rb"(?m)^" + m.group(1) + rb"- name:", base[start:])
    end = start + (nxt.start() if nxt else len(base) - start)
    entry = base[start:end]
    hits = [x.start() for x in re.finditer(rb"source: true", entry)]
    k = 1 if isa == "x86" else 0
    assert len(hits) > k
    entry = entry[:hits[k]] + b"source: false" + entry[hits[k] + len(b"source: true"):]
    return base[:start] + entry + base[end:]


def isa_edit_history(scratch, arch, kernel, mode):
    """Edits of the ISA semantics file (a model file like any other).  Returns (log, bad): in ONE process analyse / edit ISA / analyse / restore /
    analyse, then across processes cli / edit ISA / cli / restore / cli; every report must equal the cold report of a fresh world that holds the
    same file contents."""
    isa = ISA_OF[arch]
    log, bad = [], []
    refs = {}
    for v in (0, 1):
        root = os.path.join(scratch, "isaref-%s-%s-%d-%d" % (arch, mode, v, int(time.time() * 1000) % 100000))
        w = World(root, arch, kernel, "comp", [0])
        if v:
            open(w.isayml, "wb").write(isa_variant(isa, w.isa_bytes))
        n, p = w.start_cli()
        rc, out, err = w.finish_cli(p)
        refs[v] = strip_report(out) if rc == 0 else "FAILED: " + err[-300:]
        w.close()
    if refs[0] == refs[1] or refs[1].startswith("FAILED"):
        return log, [("harness", "the ISA edit does not change the cold report (or the cold run failed): %s" % refs[1][:200])]
    root = os.path.join(scratch, "isaedit-%s-%s-%d" % (arch, mode, int(time.time() * 1000) % 100000))
    w = World(root, arch, kernel, mode, [0])
    try:
        cdir = os.path.join(w.root, "isa-contents")
        os.makedirs(cdir)
        srcs = {}
        for v, b in ((0, w.isa_bytes), (1, isa_variant(isa, w.isa_bytes))):
            srcs[v] = os.path.join(cdir, "%d.yml" % v)
            open(srcs[v], "wb").write(b)
        was = list(w.immutable)

        def unlock():
            for d in was:
                chattr("-i", d)

        def lock():
            for d in was:
                chattr("+i", d)
        # (a) one process
        steps, expect = [], []
        for v in (0, 1, 0, 1):
            steps.append(["write", w.isayml, srcs[v]])
            steps.append(["analyse", arch, w.kernel])
            expect += [None, v]
        unlock()      # the process itself edits the file: the data directory must be writable for the edit, read-only mode is covered in (b)
        sfile = os.path.join(w.root, "isa-steps.json")
        json.dump(steps, open(sfile, "w"))
        rc, out = vlib.sh([vlib.PY, DRIVER, "inproc", sfile], env=w.env(), cwd=w.root, timeout=600)
        lock()
        lines = [json.loads(l) for l in out.splitlines() if l.startswith("{")]
        for i, v in enumerate(expect):
            if v is None:
                continue
            r = lines[i] if i < len(lines) else {"error": "no output: " + out[-200:]}
            if "error" in r:
                bad.append(("cache-run-raises", "in-process analysis %d after an ISA-file edit failed with %s" % (i // 2 + 1, r["error"])))
                break
            rep = strip_report(r["report"])
            log.append("in-process analysis %d with ISA content #%d -> %s" % (i // 2 + 1, v, "ok" if rep == refs[v] else "the report of content #%d" % (1 - v) if rep == refs[1 - v] else "another report"))
            if rep != refs[v]:
                bad.append(("isa-edit-not-picked-up", "one process: analysis %d ran after the ISA semantics file had been given content #%d but printed %s"
                            % (i // 2 + 1, v, "the report of content #%d (stale in-process model)" % (1 - v) if rep == refs[1 - v] else "a report that matches neither content")))
                break
        # (b) separate processes, on-disk caches of both contents accumulate
        for j, v in enumerate((0, 1, 1, 0, 1)):
            unlock()
            open(w.isayml, "wb").write(open(srcs[v], "rb").read())
            lock()
            n, p = w.start_cli()
            rc, out, err = w.finish_cli(p)
            rep = strip_report(out)
            log.append("cli run %d with ISA content #%d -> %s" % (j + 1, v, "ok" if rc == 0 and rep == refs[v] else "rc=%d" % rc))
            if rc != 0:
                bad.append(("cache-run-raises", "run %d after an ISA-file edit failed: %s" % (j + 1, err.strip().splitlines()[-1][:160] if err.strip() else rc)))
                break
            if rep != refs[v]:
                bad.append(("isa-edit-not-picked-up", "separate processes: run %d (ISA semantics file content #%d) printed %s"
                            % (j + 1, v, "the report of content #%d (stale cache entry served)" % (1 - v) if rep == refs[1 - v] else "a report that matches neither content")))
                break
    finally:
        w.close()
    return log, bad


def fp_data(data):
    """Fingerprint of a loaded model without its internal_version stamp."""
    if not isinstance(data, dict):
        return "notadict"
    d = dict(data)
    d.pop("internal_version", None)
    return fingerprint(d)


def strip_report(text):
    return "\n".join(l for l in text.splitlines() if not l.startswith("Timestamp:"))


def chattr(flag, path):
    return subprocess.run(["chattr", flag, path], stdout=subprocess.DEVNULL, stderr=subprocess.DEVNULL).returncode == 0


class World:
    def __init__(self, root, arch, kernel, mode, variants, other_variant=1):
        self.root, self.arch, self.isa, self.mode = root, arch, ISA_OF[arch], mode
        self.kernel = os.path.join(vlib.REPO, kernel)
        self.home = os.path.join(root, "home")
        self.data = os.path.join(self.home, ".osaca", "data")
        self.isadir = os.path.join(self.data, "isa")
        self.cache = os.path.join(self.home, ".osaca", "cache")
        self.other = os.path.join(root, "other")
        for d in (self.isadir, self.other):
            os.makedirs(d)
        src = os.path.join(vlib.REPO, "osaca", "data")
        self.base = open(os.path.join(src, arch + ".yml"), "rb").read()
        self.isa_bytes = open(os.path.join(src, "isa", self.isa + ".yml"), "rb").read()
        self.contents = {CID_ARCH0 + v: variant(self.base, v) for v in variants}
        self.contents[CID_OTHER] = variant(self.base, other_variant) + b"\n# other file of the same name\n"
        self.contents[CID_ISA] = self.isa_bytes
        self.cid_of_hash = {sha(b): c for c, b in self.contents.items()}
        self.yml = os.path.join(self.data, arch + ".yml")
        self.isayml = os.path.join(self.isadir, self.isa + ".yml")
        self.otheryml = os.path.join(self.other, arch + ".yml")
        open(self.yml, "wb").write(self.contents[CID_ARCH0])
        open(self.isayml, "wb").write(self.isa_bytes)
        open(self.otheryml, "wb").write(self.contents[CID_OTHER])
        self.cur = CID_ARCH0
        self.immutable = []
        self.noaccess = ""
        if mode == "home":
            for d in (self.data, self.isadir, self.other):
                if chattr("+i", d):
                    self.immutable.append(d)
            if len(self.immutable) < 3:
                self.noaccess = ":".join([self.data, self.isadir, self.other])
        self.ncli = 0
        self.mid_sizes = set()    # exact sizes of files cut mid-stream by this harness (pickle sizes vary between processes)
        self.nload = 1000
        self.ospid = {}           # os pid -> cli run number
        self.events = []          # Coq events (strings)
        self.log = []             # human readable
        self.bad = []             # oracle failures: (key, what)
        self.unexpected = []

    def close(self):
        for d in self.immutable:
            chattr("-i", d)
        self.immutable = []

    # ------------------------------------------------------------------ running the implementation
    def env(self, extra=None):
        e = vlib.repo_env(extra, home=self.home)
        e.pop("RRZE_HPC_OSACA_VERIF_CRASH", None)
        if extra:
            e.update(extra)
        return e

    def cli_cmd(self):
        if self.noaccess:
            return [vlib.PY, DRIVER, "cli-noaccess", self.noaccess, "--arch", self.arch, self.kernel]
        return [vlib.PY, DRIVER, "cli", "--arch", self.arch, self.kernel]

    def start_cli(self, crash_env=None):
        p = subprocess.Popen(self.cli_cmd(), env=self.env({"RRZE_HPC_OSACA_VERIF_CRASH": crash_env} if crash_env else None),
                             stdout=subprocess.PIPE, stderr=subprocess.PIPE, text=True, cwd=self.root)
        n = self.ncli
        self.ncli += 1
        self.ospid[p.pid] = n
        return n, p

    def finish_cli(self, p, timeout=300):
        try:
            out, err = p.communicate(timeout=timeout)
        except subprocess.TimeoutExpired:
            p.kill()
            out, err = p.communicate()
            err += "\n[timeout]"
        return p.returncode, out, err

    # ------------------------------------------------------------------ locations
    def loc_path(self, loc):
        kind, a, b = loc
        if kind == "comp":
            d, stem = (self.data, self.arch) if a == 0 else (self.isadir, self.isa) if a == 1 else (self.other, self.arch)
            return os.path.join(d, ".%s_%s.pickle" % (stem, sha(self.contents[b])))
        stem = self.arch if a == 0 else self.isa
        return os.path.join(self.cache, "%s_%s.pickle" % (stem, sha(self.contents[b])))

    def coq_loc(self, loc):
        kind, a, b = loc
        if kind == "comp":
            return "(Comp %d %d %d)" % (a, 0 if a != 1 else 1, b)
        if kind == "home":
            return "(Home %d %d)" % (a, b)
        return "(Tmp %d)" % a

    def universe(self):
        u = []
        for c in sorted(self.contents):
            if c == CID_ISA:
                u += [("comp", 1, c), ("home", 1, c)]
            elif c == CID_OTHER:
                u += [("comp", 2, c), ("home", 0, c)]
            else:
                u += [("comp", 0, c), ("home", 0, c)]
        return u

    def observe_file(self, path, refs, prefer=None):
        """-> Coq obs term for an existing file (contents with equal parsed data, e.g. a comment-only edit, cannot be
        told apart from the pickle: the content of the file's own key is preferred)"""
        raw = open(path, "rb").read()
        try:
            data = pickle.loads(raw)
            ok = isinstance(data, dict)
        except Exception:
            ok = False
        if ok:
            iv = data.get("internal_version")
            iv = iv if isinstance(iv, int) and iv >= 0 else 77
            cands = refs["cid_of_fp"].get(fp_data(data), [])
            cid = prefer if prefer in cands else (min(cands) if cands else None)
            return "(OComplete (mkData %d %d %d))" % ((iv, 0, cid) if cid is not None else (iv, 99, 0))
        size = len(raw)
        k = 0 if size == 0 else 1 if size <= 64 else 2 if (size in self.mid_sizes or size == refs["size"] // 2) else 3
        return "(OPartial %d)" % k

    def observe_all(self, refs):
        """EvSeeFile for every location of the universe and every temp file; unexpected names are recorded."""
        expected = {}
        for loc in self.universe():
            expected[self.loc_path(loc)] = loc
        seen_tmp = {}
        for d in (self.data, self.isadir, self.cache, self.other):
            if not os.path.isdir(d):
                continue
            for f in sorted(os.listdir(d)):
                p = os.path.join(d, f)
                if os.path.isdir(p) or f.endswith(".yml"):
                    continue
                if p in expected:
                    continue
                m = re.match(r"^\.?([A-Za-z0-9]+)_([0-9a-f]{64})\.pickle\.(\d+)\.tmp$", f)
                if m and int(m.group(3)) in self.ospid:
                    n = self.ospid[int(m.group(3))]
                    # the temp file is identified by the key in its own name (the content it was written for), never by
                    # the current content of the model file: it does not change when the model file is edited later
                    seen_tmp[3 * n + (1 if m.group(1) == self.isa else 0)] = (p, self.cid_of_hash.get(m.group(2)))
                else:
                    if f not in self.unexpected:
                        self.unexpected.append(f)
        state = []
        for p, loc in expected.items():
            obs = self.observe_file(p, refs, prefer=loc[2]) if os.path.exists(p) else "OAbsent"
            self.events.append("EvSeeFile %s %s" % (self.coq_loc(loc), obs))
            if obs != "OAbsent":
                state.append("%s=%s" % (self.coq_loc(loc), obs))
        for n in range(self.ncli):
            for pid in (3 * n, 3 * n + 1):
                obs = self.observe_file(seen_tmp[pid][0], refs, prefer=seen_tmp[pid][1]) if pid in seen_tmp else "OAbsent"
                self.events.append("EvSeeFile (Tmp %d) %s" % (pid, obs))
                if obs != "OAbsent":
                    state.append("Tmp%d=%s" % (pid, obs))
        self.log.append("   fs: " + (" ".join(state) or "(no cache files)"))

    # ------------------------------------------------------------------ outcome of one command line run
    def judge_cli(self, n, rc, out, err, refs, crashed_ok=False):
        """-> Coq outcome term; records oracle failures."""
        rep = strip_report(out)
        want = refs["report"][self.cur]
        if rc == 0:
            if rep == want:
                return "(ODone (mkData %d 0 %d))" % (refs["iv"], self.cur)
            for c, r in refs["report"].items():
                if r == rep:
                    self.bad.append(("cache-report-differs", "run %d printed the report of model content #%d while the model "
                                     "file has content #%d (stale or foreign cache entry served)" % (n, c, self.cur)))
                    return "(ODone (mkData %d 0 %d))" % (refs["iv"], c)
            self.bad.append(("cache-report-differs", "run %d printed a report that differs from the cold report" % n))
            return "(ODone (mkData %d 99 0))" % refs["iv"]
        if "Traceback" not in err and crashed_ok and rc == 1:
            return "OCrashed"
        last = [l for l in err.strip().splitlines() if l.strip()][-1:] or ["rc=%d" % rc]
        exc = last[0].split(":")[0].strip()
        self.bad.append(("cache-run-raises", "run %d failed with %s" % (n, last[0][:160])))
        self.last_exc = exc
        return "ORaised"

    # ------------------------------------------------------------------ operations
    def op(self, o, refs):
        kind = o[0]
        iv = refs["iv"]
        if kind == "cli":
            n, p = self.start_cli()
            rc, out, err = self.finish_cli(p)
            oc = self.judge_cli(n, rc, out, err, refs)
            self.events += ["EvCli %d apath ipath None" % n, "EvSeeCli %d %s" % (n, oc)]
            self.log.append("cli run %d -> %s" % (n, oc))
        elif kind == "cli_crash":
            k = o[1]
            envv = {0: "0", 1: "11", 2: str(refs["size"] // 2), 3: "-1", 4: "999999999"}[k]
            n, p = self.start_cli(envv)
            rc, out, err = self.finish_cli(p)
            oc = self.judge_cli(n, rc, out, err, refs, crashed_ok=True)
            self.events += ["EvCli %d apath ipath (Some %d)" % (n, k), "EvSeeCli %d %s" % (n, oc)]
            self.log.append("cli run %d, writer killed after byte class %d -> %s" % (n, k, oc))
        elif kind == "edit":
            c = CID_ARCH0 + o[1]
            with open(self.yml, "wb") as f:
                f.write(self.contents[c])
            self.cur = c
            self.events.append("EvEdit apath %d" % c)
            self.log.append("edit model file -> content #%d" % c)
        elif kind == "plant":
            # ("plant", where, k, data_variant | "cur", iv_delta): first k byte-classes of the pickle of parse(content)
            where, k, dv, ivd = o[1:]
            loc = ("comp" if where == "comp" else "home", 0, self.cur)
            path = self.loc_path(loc)
            dc = self.cur if dv == "cur" else CID_ARCH0 + dv
            raw = refs["pickle"][dc]
            div = iv
            if ivd:
                data = pickle.loads(raw)
                div = iv + ivd
                data["internal_version"] = div
                raw = pickle.dumps(data)
            cut = {0: 0, 1: 11, 2: len(raw) // 2, 3: len(raw) - 1, 4: len(raw)}[k]
            if k == 2:
                self.mid_sizes.add(cut)
            was = [d for d in self.immutable]
            for d in was:
                chattr("-i", d)
            os.makedirs(os.path.dirname(path), exist_ok=True)
            with open(path, "wb") as f:
                f.write(raw[:cut])
            for d in was:
                chattr("+i", d)
            cands = refs["cid_of_fp"].get(fp_data(pickle.loads(refs["pickle"][dc])), [dc])
            dcm = self.cur if self.cur in cands else min(cands)      # same identification as observe_file
            self.events.append("EvPlant %s %d (mkData %d 0 %d)" % (self.coq_loc(loc), k, div, dcm))
            self.log.append("plant %s: byte class %d of the pickle of content #%d (internal_version %d)" % (os.path.basename(path)[:20], k, dc, div))
        elif kind in ("load_other", "load2"):
            paths = [self.otheryml] if kind == "load_other" else [self.yml, self.yml]
            ppath, cid = ("opath", CID_OTHER) if kind == "load_other" else ("apath", self.cur)
            rc, out = vlib.sh([vlib.PY, DRIVER, "load"] + paths, env=self.env(), cwd=self.root, timeout=300)
            lines = [json.loads(l) for l in out.splitlines() if l.startswith("{")]
            for i, _ in enumerate(paths):
                pid = self.nload
                self.nload += 1
                r = lines[i] if i < len(lines) else {"error": "no output: " + out[-200:]}
                if "error" in r:
                    oc = "ORaised"
                    self.bad.append(("cache-run-raises", "in-process load of %s failed with %s" % (os.path.basename(paths[i]), r["error"])))
                else:
                    cands = refs["cid_of_fp_full"].get(r["fp"], [])
                    got = cid if cid in cands else (min(cands) if cands else None)
                    if got != cid:
                        self.bad.append(("cache-report-differs", "in-process load %d of %s returned the data of content #%s, the file has content #%d"
                                         % (i + 1, os.path.basename(paths[i]), got, cid)))
                    oc = "(ODone (mkData %d 0 %d))" % ((iv, got) if got is not None else (iv + 50, 0))
                self.events += ["EvLoad %d %s false" % (pid, ppath), "EvSeeLoad %d %s" % (pid, oc)]
                self.log.append("in-process load of %s (#%d in that process) -> %s" % (os.path.basename(paths[i]), i + 1, oc))
        elif kind == "inproc":
            self.op_inproc(o[1], refs)
        elif kind == "race":
            ps = [self.start_cli() for _ in range(o[1])]
            res = [(n,) + self.finish_cli(p) for n, p in ps]
            ns = [n for n, _ in ps]
            judged = [(n, self.judge_cli(n, rc, out, err, refs)) for n, rc, out, err in res]
            self.events.append("EvRace [%s] apath" % "; ".join(str(3 * n) for n in ns))
            # runs that failed are taken to have failed in their first (arch) load
            self.events.append("EvRace [%s] ipath" % "; ".join(str(3 * n + 1) for n, oc in judged if oc.startswith("(ODone")))
            ocs = []
            for n, oc in judged:
                ocs.append(oc)
                if oc.startswith("(ODone"):
                    self.events.append("EvLoad %d apath true" % (3 * n + 2))
                self.events.append("EvSeeCli %d %s" % (n, oc))
            self.log.append("%d simultaneous runs -> %s" % (o[1], " ".join(ocs)))
        else:
            raise ValueError(kind)
        self.observe_all(refs)

    def op_inproc(self, subs, refs):
        """Several analyses / loads / edits inside ONE process.  subs: "analyse" | "load" | "load_arch" | "load_rel" |
        ["edit", v].  Events are emitted per step; a load names the previous completed load of the same path *string* in
        this process (the key of MachineModel._runtime_cache) as its `prev`."""
        iv = refs["iv"]
        cdir = os.path.join(self.root, "contents")
        os.makedirs(cdir, exist_ok=True)
        steps, plan = [], []
        cur = self.cur
        for sub in subs:
            if sub == "analyse":
                steps.append(["analyse", self.arch, self.kernel])
            elif sub == "load":
                steps.append(["load", self.yml])
            elif sub == "load_arch":
                steps.append(["load_arch", self.arch])
            elif sub == "load_rel":
                steps.append(["chdir", self.data])
                plan.append(None)
                steps.append(["load", os.path.basename(self.yml)])
            else:
                c = CID_ARCH0 + sub[1]
                src = os.path.join(cdir, "%d.yml" % c)
                with open(src, "wb") as f:
                    f.write(self.contents[c])
                steps.append(["write", self.yml, src])
            plan.append(sub)
        sfile = os.path.join(self.root, "steps-%d.json" % self.nload)
        json.dump(steps, open(sfile, "w"))
        rc, out = vlib.sh([vlib.PY, DRIVER, "inproc", sfile] + ([self.noaccess] if self.noaccess else []),
                          env=self.env(), cwd=self.root, timeout=600)
        lines = [json.loads(l) for l in out.splitlines() if l.startswith("{")]
        prev = {}          # runtime-cache key (path string) -> pid of the last completed non-lazy load in this process
        for i, sub in enumerate(plan):
            if sub is None:
                continue
            r = lines[i] if i < len(lines) else {"error": "no output: " + out[-200:]}
            if sub == "analyse":
                n = self.ncli
                self.ncli += 1
                if "error" in r:
                    oc = self.judge_cli(n, 1, "", "Traceback\n" + r["error"], refs)
                else:
                    oc = self.judge_cli(n, 0, r["report"], "", refs)
                if self.bad and self.bad[-1][1].startswith("run %d " % n):
                    self.bad[-1] = (self.bad[-1][0], "in-process analysis: " + self.bad[-1][1])
                opt = lambda k: "(Some %d)" % prev[k] if k in prev else "None"
                self.events += ["EvCliP %d apath ipath %s %s" % (n, opt(self.yml), opt(self.isayml)), "EvSeeCli %d %s" % (n, oc)]
                if oc.startswith("(ODone"):
                    prev[self.yml], prev[self.isayml] = 3 * n, 3 * n + 1
                self.log.append("in-process analysis (run %d, same process) -> %s" % (n, oc))
            elif sub in ("load", "load_arch", "load_rel"):
                key = os.path.basename(self.yml) if sub == "load_rel" else self.yml
                pid = self.nload
                self.nload += 1
                if "error" in r:
                    oc = "ORaised"
                    self.bad.append(("cache-run-raises", "in-process %s failed with %s" % (sub, r["error"])))
                else:
                    cands = refs["cid_of_fp_full"].get(r["fp"], [])
                    got = self.cur if self.cur in cands else (min(cands) if cands else None)
                    if got != self.cur:
                        self.bad.append(("inprocess-stale-model", "a process loaded the model, the model file was edited to content #%d, "
                                         "and a later %s in the SAME process returned the data of content #%s" % (self.cur, sub, got)))
                    oc = "(ODone (mkData %d 0 %d))" % ((iv, got) if got is not None else (iv + 50, 0))
                self.events += [("EvLoadP %d apath %d" % (pid, prev[key])) if key in prev else ("EvLoad %d apath false" % pid),
                                "EvSeeLoad %d %s" % (pid, oc)]
                if oc.startswith("(ODone"):
                    prev[key] = pid
                self.log.append("in-process %s (same process) -> %s" % (sub, oc))
            else:
                self.cur = CID_ARCH0 + sub[1]
                self.events.append("EvEdit apath %d" % self.cur)
                self.log.append("edit model file -> content #%d (process keeps running)" % self.cur)

    # ------------------------------------------------------------------ Coq rendering
    def coq_setup(self, disc, iv):
        w = "(mkSetup %d (mkCfg %d 0) %s (mkEnv (fun _ => %s) true) %s" % (
            NCH, iv, disc, "false" if self.mode == "home" else "true", "true" if rehash_in_source() else "false") + " RtIgnored)"
        s0 = ("(empty_state (fun p => if path_eqb p (mkPath 0 0) then %d else if path_eqb p (mkPath 2 0) then %d else %d))"
              % (CID_ARCH0, CID_OTHER, CID_ISA))
        return w, s0


class Refs:
    """Cold references for one (arch, kernel, variant set): cold report per content, fingerprints, a donor pickle."""
    _memo = {}

    @classmethod
    def get(cls, scratch, arch, kernel, variants):
        key = (arch, kernel, tuple(variants))
        if key in cls._memo:
            return cls._memo[key]
        iv = internal_version()
        refs = {"iv": iv, "report": {}, "pickle": {}, "cid_of_fp": {}, "cid_of_fp_full": {}, "size": 0, "errors": [], "lossy": []}
        for v in list(variants) + ["other", "isa"]:
            root = os.path.join(scratch, "ref-%s-%s-%s" % (arch, os.path.basename(kernel), v))
            if os.path.isdir(root):
                shutil.rmtree(root)
            w = World(root, arch, kernel, "comp", variants)
            cid = CID_OTHER if v == "other" else CID_ISA if v == "isa" else CID_ARCH0 + v
            if v not in ("other", "isa"):
                open(w.yml, "wb").write(w.contents[cid])
                n, p = w.start_cli()
                rc, out, err = w.finish_cli(p)
                if rc != 0:
                    refs["errors"].append("cold run for content #%d failed: %s" % (cid, err[-300:]))
                refs["report"][cid] = strip_report(out)
                path = w.loc_path(("comp", 0, cid))
                target = w.yml
            elif v == "other":
                path, target = w.loc_path(("comp", 2, cid)), w.otheryml
            else:
                path, target = w.loc_path(("comp", 1, cid)), w.isayml
            # the data a cold in-process load builds (independent of any cache file of this world: fresh directory)
            fresh = os.path.join(root, "fresh")
            os.makedirs(fresh)
            t2 = os.path.join(fresh, os.path.basename(target))
            shutil.copy(target, t2)
            rc, out = vlib.sh([vlib.PY, DRIVER, "load", t2], env=w.env(), cwd=root, timeout=300)
            r = {}
            try:
                r = json.loads([l for l in out.splitlines() if l.startswith("{")][0])
                refs["cid_of_fp_full"].setdefault(r["fp"], []).append(cid)
            except Exception:
                refs["errors"].append("cold in-process load for content #%d failed: %s" % (cid, out[-300:]))
            # a second process, served from the companion cache the first one wrote, must build the very same data
            # (every attribute of every entry, not only what InstructionForm.__eq__ compares)
            rc, out = vlib.sh([vlib.PY, DRIVER, "load", t2], env=w.env(), cwd=root, timeout=300)
            try:
                r2 = json.loads([l for l in out.splitlines() if l.startswith("{")][0])
                if r.get("fpd") and r2.get("fpd") != r["fpd"]:
                    refs["lossy"].append((os.path.basename(target), cid, "a load served from the cache builds other model data than the load that parsed the file"))
            except Exception:
                refs["errors"].append("warm in-process load for content #%d failed: %s" % (cid, out[-300:]))
            cand = glob.glob(os.path.join(fresh, ".*.pickle"))
            if cand:
                raw = open(cand[0], "rb").read()
                try:
                    if r.get("fpd") and fp_data(pickle.loads(raw)) != r["fpd"] and not refs["lossy"]:
                        refs["lossy"].append((os.path.basename(target), cid, "the cache file written by a cold load does not hold the data that load built"))
                    refs["cid_of_fp"].setdefault(fp_data(pickle.loads(raw)), []).append(cid)
                    if cid >= CID_ARCH0 and cid != CID_OTHER:
                        refs["pickle"][cid] = raw
                        refs["size"] = max(refs["size"], len(raw))
                except Exception as e:
                    refs["errors"].append("cannot read back the cache written by a cold load: %r" % e)
            else:
                refs["errors"].append("cold load wrote no companion cache for content #%d" % cid)
            w.close()
        cls._memo[key] = refs
        return refs


def run_history(scratch, idx, spec):
    """spec = dict(arch, kernel, mode, variants, ops).  Returns the world after executing all operations."""
    refs = Refs.get(scratch, spec["arch"], spec["kernel"], spec["variants"])
    root = os.path.join(scratch, "hist-%d-%d" % (idx, int(time.time() * 1000) % 100000))
    w = World(root, spec["arch"], spec["kernel"], spec["mode"], spec["variants"])
    w.refs = refs
    try:
        for o in spec["ops"]:
            w.op(tuple(o), refs)
    finally:
        w.close()
    return w
