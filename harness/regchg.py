"""C06 / C03 -- ISASemantics.get_reg_changes and the `operation:` strings of the ISA data bases inside the model.

T  tools/gen_regchg.py re-reads the CURRENT isa/x86.yml and isa/aarch64.yml through the implementation's loader and
   regenerates coq/Gen/Operations.v (fail closed); PropsGen/C06ops.v is re-checked against it (every operation string is
   the architectural effect of its instruction; composition with Proofs/MemDep.v).
X  the real get_reg_changes (both modes) vs Model/RegChanges.v on generated instructions of both ISAs: every ISA entry
   with an operation (all register choices incl. the same register as source and destination, immediates), instructions
   without operation, memory operands with pre-/post-index write-back, lines without mnemonic.  The model executes the
   statement list of the REGENERATED table, so a wrong translation shows up here as well.
O  independent oracle: a tiny concrete interpreter (architectural registers with 64/32/16/8-bit views, zero-extension of
   32-bit writes, wrap-around) executes the instruction text on random register files; every reported change must be
   the effect modulo the register's width, and every FULL-WIDTH register that is not reported must be unchanged (KernelDG
   treats an absent register as unchanged).
S  sub-register rule (1eb913c): the full-width names the parser helper get_full_width_reg_name gives for the destination
   registers are an INPUT of the model (`fulls`; [] on a tree without the helper) and are compared with independent
   register tables; a narrow write whose full-width register is not reported is the finding
   store-load-edge-spurious:subregister-write.
"""
import os
import re

import vlib
import models
import gen_regchg
from vlib import coq_string as cs

ERR = {"NameError": "ENameError", "KeyError": "EKeyError", "TypeError": "ETypeError", "ValueError": "EValueError",
       "AttributeError": "EAttributeError", "IndexError": "EIndexError"}

M64 = (1 << 64) - 1
M32 = (1 << 32) - 1


# ------------------------------------------------------------------ the implementation under test
class Impl:
    def __init__(self, isa):
        from osaca.semantics import ISASemantics
        from osaca.parser import ParserX86ATT, ParserAArch64
        self.isa = isa
        self.sem = ISASemantics(isa, path_to_yaml=models.isa_path(isa))
        self.parser = ParserX86ATT() if isa == "x86" else ParserAArch64()
        self.idmap = {}
        for name, forms in self.sem._isa_model["instruction_forms_dict"].items():
            for idx, f in enumerate(forms):
                self.idmap[id(f)] = (name, idx)

    def run(self, line):
        """-> dict(form=..., full=('ok', dict)|('err', cls, text), post=..., isa_data=entry or None)"""
        form = self.parser.parse_line(line, 1)
        self.sem.assign_src_dst(form)
        rec = []
        model = self.sem._isa_model
        orig = model.get_instruction

        def wrap(name, operands):
            r = orig(name, operands)
            rec.append(r)
            return r
        model.get_instruction = wrap
        out = {"form": form}
        try:
            for key, flag in (("full", False), ("post", True)):
                del rec[:]
                try:
                    out[key] = ("ok", self.sem.get_reg_changes(form, flag))
                except Exception as e:  # noqa
                    out[key] = ("err", type(e).__name__, repr(e))
                if key == "full":
                    out["isa_data"] = rec[-1] if rec else None
        finally:
            del model.get_instruction
        return out


# ------------------------------------------------------------------ serialisation for Model/RegChanges.v
class Unmodelled(Exception):
    pass


def z(v):
    return "(%d)%%Z" % v


def oz(v):
    if v is None:
        return "None"
    if type(v) is int:
        return "(Some %s)" % z(v)
    raise Unmodelled("immediate value %r" % (v,))


def full_name(r):
    return (r.prefix if r.prefix is not None else "") + str(r.name)


def coq_iop(o):
    from osaca.parser.register import RegisterOperand
    from osaca.parser.memory import MemoryOperand
    from osaca.parser.immediate import ImmediateOperand
    if isinstance(o, RegisterOperand):
        return "(IReg %s)" % cs(full_name(o))
    if isinstance(o, ImmediateOperand):
        return "(IImm %s)" % oz(o.value)
    if isinstance(o, MemoryOperand):
        base = "None" if o.base is None else "(Some %s)" % cs(full_name(o.base))
        if o.offset is None:
            off = "OffNone"
        elif isinstance(o.offset, ImmediateOperand):
            off = "(OffImm %s)" % oz(o.offset.value)
        else:
            off = "OffOther"
        pi = o.post_indexed
        if isinstance(pi, dict):
            post = "(PostImm %s)" % z(pi["value"]) if "value" in pi and type(pi["value"]) is int else ("PostOther" if "value" not in pi else None)
            if post is None:
                raise Unmodelled("post_indexed %r" % (pi,))
        elif not pi:
            post = "PostFalse"
        else:
            raise Unmodelled("post_indexed %r" % (pi,))
        return "(IMem %s %s %s %s)" % (base, off, "true" if o.pre_indexed else "false", post)
    return "IOther"


def coq_result(r):
    if r[0] == "err":
        if r[1] not in ERR:
            raise Unmodelled("exception %s" % r[2])
        return "(RcErr %s)" % ERR[r[1]]
    items = []
    for k, v in r[1].items():
        if v is None:
            items.append("(%s, None)" % cs(k))
        else:
            extra = set(v) - {"name", "value"}
            if extra or "value" not in v or not (v["value"] is None or type(v["value"]) is int) or not isinstance(v.get("name", ""), str):
                raise Unmodelled("operand state %r" % (v,))
            nm = "(Some %s)" % cs(v["name"]) if "name" in v else "None"
            items.append("(%s, Some (mkO %s %s))" % (cs(k), nm, oz(v["value"])))
    return "(RcOk [%s])" % "; ".join(items)


def dest_info(impl, form):
    """-> (dest_reg_names, fulls as the implementation's parser helper gives them ([] when there is no helper),
    fulls as the independent register tables give them)"""
    from osaca.parser.register import RegisterOperand
    so = form.semantic_operands or {"destination": [], "src_dst": []}
    regs = [o for o in list(so["destination"]) + list(so["src_dst"]) if isinstance(o, RegisterOperand)]
    dests = [full_name(o) for o in regs]
    helper = getattr(impl.parser, "get_full_width_reg_name", None)
    fulls = []
    if helper is not None and form.mnemonic is not None:
        try:
            fulls = [f for f in (helper(o) for o in regs) if f is not None]
        except NotImplementedError:
            fulls = []
    want = [f for f in (full_width_name(impl.isa, d) for d in dests) if f is not None] if form.mnemonic is not None else []
    return dests, fulls, want


def coq_case(impl, res):
    form = res["form"]
    dests, fulls, _ = dest_info(impl, form)
    ops = form.operands or []
    e = res["isa_data"]
    if e is None:
        isa = "(Some None)"
    else:
        name, idx = impl.idmap[id(e)]
        dst = "[%s]" % "; ".join("true" if getattr(o, "destination", False) else "false" for o in e.operands)
        isa = "(isa_of %s %s %d%%nat %s %s)" % ("true" if impl.isa == "x86" else "false", cs(name), idx, dst,
                                              "true" if e.operation is not None else "false")
    return "(mkCase %s [%s] [%s] [%s] %s %s %s)" % (
        "true" if form.mnemonic is not None else "false", "; ".join(cs(d) for d in dests), "; ".join(cs(f) for f in fulls),
        "; ".join(coq_iop(o) for o in ops), isa, coq_result(res["full"]), coq_result(res["post"]))


SHARD_HEADER = """From Coq Require Import ZArith List Bool String.
From OV Require Import Model.Num Model.Pressure Model.Deps Model.PyString Model.RegChanges Gen.Operations.
Import ListNotations.
Open Scope string_scope.
Set Printing Width 100000. Set Printing Depth 100000.
Definition isa_of (x86 : bool) (name : string) (idx : nat) (dst : list bool) (hasop : bool) : option (option rc_entry) :=
  if hasop then match lookup_op operations x86 name idx with
                | Some e => Some (Some (mkRC dst (Some (oe_stmts e))))
                | None => None                      (* the implementation used an operation the table does not have *)
                end
  else Some (Some (mkRC dst None)).
Record rcase := mkCase { c_mnem : bool; c_dests : list string; c_fulls : list string; c_ops : list iop; c_isa : option (option rc_entry);
                         c_full : rc_result; c_post : rc_result }.
Definition check (c : rcase) : bool :=
  match c_isa c with
  | None => false
  | Some isa => andb (rc_eqb (get_reg_changes (c_mnem c) (c_dests c) (c_fulls c) (c_ops c) isa false) (c_full c))
                     (rc_eqb (get_reg_changes (c_mnem c) (c_dests c) (c_fulls c) (c_ops c) isa true) (c_post c))
  end.
"""
SHARD_FOOTER = """
Definition summary :=
  let rs := map check cases in
  String.concat "," (map (fun p => string_of_nat (fst p)) (filter (fun p => negb (snd p)) (combine (seq 0 (List.length rs)) rs)))
  ++ "|" ++ string_of_nat (List.length rs).
Eval vm_compute in summary.
"""


# ------------------------------------------------------------------ instruction generator
X64 = ["rax", "rbx", "rcx", "rsi"]
X32 = ["eax", "ebx", "ecx"]
AX = ["x1", "x2", "x3", "sp"]
AW = ["w1", "w2", "w3"]
IMMS = [0, 1, 4, 8, 16, -8, 255, 4096, 24]


def x86_imm(rng, v):
    return "$" + (hex(v) if v >= 0 and rng.random() < 0.25 else str(v))


def a64_imm(rng, v):
    if v > 0 and v % 4096 == 0 and rng.random() < 0.7:
        return "#%d, lsl #12" % (v // 4096)
    return "#" + (hex(v) if v >= 0 and rng.random() < 0.25 else str(v))


def entry_instances(rng, e, per_entry):
    """instruction texts that should hit ISA entry e: every register choice from a small pool (incl. repeated registers)
    x a few immediates, with and without a GAS suffix"""
    import itertools
    pat = e["pat"]
    out = []
    if e["isa"] == "x86":
        variants = [("", X64), ("q", X64), ("l", X32)]
    else:
        pref = [p["prefix"] for p in pat if p["kind"] == "reg"]
        pool = AW if pref and all(p == "w" for p in pref) else AX
        variants = [("", pool)]
    nreg = sum(1 for p in pat if p["kind"] == "reg")
    for suffix, pool in variants:
        combos = list(itertools.product(pool, repeat=nreg))
        for regs in combos:
            for _ in range(2 if any(p["kind"] == "imm" for p in pat) else 1):
                it = iter(regs)
                ops = []
                for p in pat:
                    if p["kind"] == "reg":
                        r = next(it)
                        ops.append("%" + r if e["isa"] == "x86" else r)
                    elif p["kind"] == "imm":
                        v = rng.choice(IMMS + [rng.randrange(-2000, 2000)])
                        if e["isa"] != "x86" and v < 0:
                            v = -v
                        ops.append(x86_imm(rng, v) if e["isa"] == "x86" else a64_imm(rng, v))
                    else:
                        ops.append("8(%rdx)" if e["isa"] == "x86" else "[x9, #8]")
                out.append("%s%s %s" % (e["name"].lower(), suffix, ", ".join(ops)))
    rng.shuffle(out)
    return out[:per_entry]


def other_instances(rng, isa, n):
    """instructions without operation, write-back forms, lines without mnemonic"""
    out = []
    if isa == "x86":
        R = lambda: "%" + rng.choice(X64)
        E = lambda: "%" + rng.choice(X32)
        mem = lambda: rng.choice(["(%s)", "8(%s)", "-16(%s)", "(%s,%%rdx,8)", "24(%s,%%rdx,4)"]) % R()
        tmpl = [lambda: "addq %s, %s" % (R(), R()), lambda: "subq %s, %s" % (R(), R()), lambda: "addl %s, %s" % (E(), E()),
                lambda: "imulq %s, %s" % (R(), R()), lambda: "xorq %s, %s" % ((lambda r: (r, r))(R())),
                lambda: "movq %s, %s" % (mem(), R()), lambda: "movq %s, %s" % (R(), mem()), lambda: "leaq %s, %s" % (mem(), R()),
                lambda: "addq $%d, %s" % (rng.choice(IMMS), mem()), lambda: "incq %s" % mem(), lambda: "movq $%d, %s" % (rng.choice(IMMS), R()),
                lambda: "cmpq $%d, %s" % (rng.choice(IMMS), R()), lambda: "sbbq %s, %s" % (R(), R()), lambda: "adcq %s, %s" % (R(), R()),
                lambda: "vaddpd %ymm0, %ymm1, %ymm2", lambda: "movq %xmm0, " + R(), lambda: "jmp .L3", lambda: "nop", lambda: "ret",
                lambda: "addq $foo, " + R(), lambda: "shlq $3, " + R(), lambda: ".L3:", lambda: ".align 16",
                lambda: "# just a comment", lambda: "movq %s, foo(%%rip)" % R(),
                lambda: "addq %s, %s" % (mem(), R()), lambda: "movslq %s, %s" % (E(), R()),
                lambda: "addw $8, %ax", lambda: "addb $1, %al", lambda: "movb $1, %ah", lambda: "addl $%d, %%r8d" % rng.choice(IMMS),
                lambda: "xorl %s, %s" % ((lambda r: (r, r))(E())), lambda: "movw %ax, %bx", lambda: "decw %cx", lambda: "movl %s, %s" % (mem(), E())]
    else:
        X = lambda: rng.choice(AX[:3])
        W = lambda: rng.choice(AW)
        K = lambda: rng.choice([8, 16, -16, 32, 0, 4, -8])

        def two():
            a = X()
            return a, rng.choice([r for r in AX[:3] if r != a])
        tmpl = [lambda: "add %s, %s, %s" % (X(), X(), X()), lambda: "sub %s, %s, %s" % (X(), X(), X()), lambda: "adds %s, %s, %s" % (X(), X(), X()),
                lambda: "subs %s, %s, %s" % (W(), W(), W()), lambda: "add %s, %s, #%d" % (W(), W(), abs(K())), lambda: "mul %s, %s, %s" % (X(), X(), X()),
                lambda: "add %s, %s, %s, lsl #2" % (X(), X(), X()), lambda: "add %s, %s, :lo12:foo" % (X(), X()),
                lambda: "ldr %s, [%s, #%d]!" % (two() + (K(),)), lambda: "ldr %s, [%s], #%d" % (two() + (K(),)),
                lambda: "str %s, [%s, #%d]!" % (two() + (K(),)), lambda: "str %s, [%s], #%d" % (two() + (K(),)),
                lambda: "ldr %s, [%s, #%d]" % (X(), X(), abs(K())), lambda: "str %s, [%s, %s]" % (X(), X(), X()),
                lambda: "ldp x4, x5, [%s], #%d" % (X(), K()), lambda: "ldp x4, x5, [%s, #%d]!" % (X(), K()), lambda: "stp x4, x5, [%s, #%d]!" % (X(), K()),
                lambda: "ld1 {v0.2d}, [%s], #16" % X(), lambda: "ld1 {v0.2d}, [%s], %s" % two(), lambda: "st1 {v0.2d}, [%s], %s" % two(),
                lambda: "ldr %s, [%s], #8" % ((lambda r: (r, r))(X())), lambda: "ldr %s, [%s, #8]!" % ((lambda r: (r, r))(X())),
                lambda: "ldr d0, [%s], #8" % X(), lambda: "ldr q1, [%s, #32]!" % X(), lambda: "ldr x1, [sp], #16", lambda: "str x1, [sp, #-16]!",
                lambda: "mov %s, #%d" % (X(), abs(K())), lambda: "mov %s, %s" % (W(), W()), lambda: "fadd d0, d1, d2", lambda: "b.ne .L4",
                lambda: "cmp %s, #3" % X(), lambda: ".L4:", lambda: ".align 4", lambda: "// comment", lambda: "ret", lambda: "nop",
                lambda: "madd %s, %s, %s, %s" % (X(), X(), X(), X()), lambda: "ldr %s, [%s, foo]!" % two(), lambda: "neg %s, %s" % (X(), X()),
                lambda: "ldr w%s, [x%s], #4" % tuple(rng.sample("123", 2)), lambda: "ldr w%s, [x%s, #4]!" % tuple(rng.sample("123", 2)),
                lambda: "ldr w%s, [x%s, #8]" % tuple(rng.sample("123", 2)), lambda: "ldp w4, w5, [%s], #8" % X(), lambda: "mov %s, #7" % W(),
                lambda: "sub %s, %s, #8" % (W(), W()), lambda: "mul %s, %s, %s" % (W(), W(), W())]
    for i in range(n):
        out.append(tmpl[i % len(tmpl)]())
    return out


# ------------------------------------------------------------------ the independent oracle: a tiny concrete interpreter
KNOWN_SUBREG = "store-load-edge-spurious:subregister-write"

X86_REGS = {}                      # name -> (family, width, shift)
for _b in "abcd":
    X86_REGS["r%sx" % _b] = ("g" + _b, 64, 0)
    X86_REGS["e%sx" % _b] = ("g" + _b, 32, 0)
    X86_REGS["%sx" % _b] = ("g" + _b, 16, 0)
    X86_REGS["%sl" % _b] = ("g" + _b, 8, 0)
    X86_REGS["%sh" % _b] = ("g" + _b, 8, 8)
for _b in ("si", "di", "sp", "bp"):
    X86_REGS["r" + _b] = ("g" + _b, 64, 0)
    X86_REGS["e" + _b] = ("g" + _b, 32, 0)
    X86_REGS[_b] = ("g" + _b, 16, 0)
    X86_REGS[_b + "l"] = ("g" + _b, 8, 0)
for _n in range(8, 16):
    X86_REGS["r%d" % _n] = ("g%d" % _n, 64, 0)
    X86_REGS["r%dd" % _n] = ("g%d" % _n, 32, 0)
    X86_REGS["r%dw" % _n] = ("g%d" % _n, 16, 0)
    X86_REGS["r%db" % _n] = ("g%d" % _n, 8, 0)
X86_FULL = {v[0]: k for k, v in X86_REGS.items() if v[1] == 64}


def reg_info(isa, name):
    """-> (family, width, shift) of a general purpose register name as get_reg_changes spells it, or None"""
    if isa == "x86":
        return X86_REGS.get(name.lower())
    m = re.fullmatch(r"([xw])(\d+|sp)", name.lower())
    if m:
        return ("g" + m.group(2), 64 if m.group(1) == "x" else 32, 0)
    return None


def full_width_name(isa, name):
    """independent of the implementation: the full-width (address-capable) register a narrower name is part of, else None"""
    info = reg_info(isa, name)
    if info is None or info[1] == 64:
        return None
    return X86_FULL[info[0]] if isa == "x86" else "x" + info[0][1:]


def rd(isa, st, name):
    fam, w, sh = reg_info(isa, name)
    return (st[fam] >> sh) & ((1 << w) - 1)


def wr(isa, st, name, v):
    fam, w, sh = reg_info(isa, name)
    if w >= 32:
        st[fam] = v & ((1 << w) - 1)                       # 32-bit writes zero-extend on both ISAs
    else:
        mask = ((1 << w) - 1) << sh                        # 16/8-bit writes keep the rest of the register
        st[fam] = (st[fam] & ~mask & M64) | ((v << sh) & mask)


def a64_name(tok):
    tok = tok.strip()
    return "xsp" if tok == "sp" else ("wsp" if tok == "wsp" else tok)


def parse_x86_operand(t):
    t = t.strip()
    if t.startswith("$"):
        try:
            return ("imm", int(t[1:], 0))
        except ValueError:
            return ("sym", t)
    if t.startswith("%"):
        return ("reg", t[1:])
    return ("mem", t)


def split_operands(s):
    out, depth, cur = [], 0, ""
    for ch in s:
        if ch in "([{":
            depth += 1
        if ch in ")]}":
            depth -= 1
        if ch == "," and depth == 0:
            out.append(cur)
            cur = ""
        else:
            cur += ch
    if cur.strip():
        out.append(cur)
    return [o.strip() for o in out]


def interpret(isa, text, rng):
    """-> None (line outside the vocabulary) or a function  before -> (mid, final) | None  on register files
    {family: 64-bit value}: `mid` = after the instruction except for a post-index bump, `final` = after everything.
    Results the vocabulary does not define (loads, multiplications, ...) are random values."""
    text = text.strip()
    if not text or text.endswith(":") or text.startswith(".") or text.startswith("//") or text.startswith("#"):
        return lambda before: (dict(before), dict(before))
    parts = text.split(None, 1)
    mn = parts[0].lower()
    ops = split_operands(parts[1]) if len(parts) > 1 else []
    if isa == "x86":
        base = mn[:-1] if mn[-1] in "qlwb" and mn[:-1] in ("add", "sub", "sbb", "adc", "inc", "dec", "mov", "imul", "xor", "cmp", "lea", "neg", "shl", "xchg") else mn
        P = [parse_x86_operand(o) for o in ops]
        gpr = lambda p: p[0] == "reg" and reg_info("x86", p[1]) is not None

        def val(st, p):
            return p[1] if p[0] == "imm" else rd("x86", st, p[1])

        def f(before):
            st = dict(before)
            if base in ("cmp", "jmp", "nop", "ret") or not P or not gpr(P[-1]):
                return st, dict(st)
            d = P[-1]
            known_src = len(P) == 1 or P[0][0] == "imm" or gpr(P[0])
            if base == "add" and known_src:
                wr("x86", st, d[1], rd("x86", st, d[1]) + val(before, P[0]))
            elif base == "sub" and known_src:
                wr("x86", st, d[1], rd("x86", st, d[1]) - val(before, P[0]))
            elif base == "sbb" and known_src:
                wr("x86", st, d[1], rd("x86", st, d[1]) - val(before, P[0]) - rng.randrange(2))
            elif base == "adc" and known_src:
                wr("x86", st, d[1], rd("x86", st, d[1]) + val(before, P[0]) + rng.randrange(2))
            elif base == "inc":
                wr("x86", st, d[1], rd("x86", st, d[1]) + 1)
            elif base == "dec":
                wr("x86", st, d[1], rd("x86", st, d[1]) - 1)
            elif base == "neg":
                wr("x86", st, d[1], -rd("x86", st, d[1]))
            elif base == "mov" and known_src:
                wr("x86", st, d[1], val(before, P[0]))
            elif base == "xor" and P[0] == d:
                wr("x86", st, d[1], 0)
            elif base == "xchg" and gpr(P[0]):
                a, b = rd("x86", before, P[0][1]), rd("x86", before, d[1])
                wr("x86", st, d[1], a)
                wr("x86", st, P[0][1], b)
            else:                       # loads, lea, imul, shifts, symbolic immediates, movslq ...: arbitrary result
                wr("x86", st, d[1], rng.getrandbits(64))
            return st, dict(st)
        return f
    # ---- AArch64
    def imm_of(toks):
        """'#4' or '#1', 'lsl #12' -> int or None"""
        if not toks or not toks[0].startswith("#"):
            return None
        try:
            v = int(toks[0][1:], 0)
        except ValueError:
            return None
        if len(toks) == 2:
            m = re.fullmatch(r"lsl\s+#(\d+)", toks[1])
            if not m:
                return None
            v <<= int(m.group(1))
        return v if len(toks) <= 2 else None

    isreg = lambda t: reg_info("aarch64", a64_name(t)) is not None
    mem_i = [i for i, o in enumerate(ops) if o.startswith("[")]

    def f(before):
        st = dict(before)
        base = mn.split(".")[0]
        if mem_i:
            i = mem_i[0]
            m = re.fullmatch(r"\[\s*(\w+)\s*(?:,\s*([^\]]+))?\]\s*(!?)", ops[i])
            if not m:
                return None
            b = a64_name(m.group(1))
            inner, pre = m.group(2), m.group(3) == "!"
            is_load = base.startswith("ld")
            if (pre or ops[i + 1:]) and is_load and any(isreg(t.strip("{} ")) and reg_info("aarch64", a64_name(t.strip("{} ")))[0] == reg_info("aarch64", b)[0] for t in ops[:i]):
                return None                      # write-back base is also loaded: architecturally unpredictable
            if is_load:
                for t in ops[:i]:
                    t = t.strip("{} ")
                    if isreg(t):
                        wr("aarch64", st, a64_name(t), rng.getrandbits(64))
            mid = dict(st)
            if pre:
                k = imm_of([inner.strip()]) if inner else None
                if k is None:
                    return None
                wr("aarch64", st, b, rd("aarch64", before, b) + k)
                return st, dict(st)
            post = ops[i + 1:]
            fin = dict(mid)
            if post:
                k = imm_of(post)
                if k is not None:
                    wr("aarch64", fin, b, rd("aarch64", mid, b) + k)
                elif len(post) == 1 and isreg(post[0]):
                    wr("aarch64", fin, b, rd("aarch64", mid, b) + rd("aarch64", mid, a64_name(post[0])))
                else:
                    return None
            return mid, fin
        if base in ("cmp", "b", "ret", "nop", "fadd") or not ops:
            return st, dict(st)
        d = a64_name(ops[0])
        if not isreg(ops[0]):
            return st, dict(st)
        srcs = ops[1:]
        if base in ("add", "adds", "sub", "subs") and len(srcs) >= 2 and isreg(srcs[0]):
            k = imm_of(srcs[1:])
            if k is None and len(srcs) == 2 and isreg(srcs[1]):
                k = rd("aarch64", before, a64_name(srcs[1]))
            if k is not None:
                n = rd("aarch64", before, a64_name(srcs[0]))
                wr("aarch64", st, d, n + k if base.startswith("add") else n - k)
                return st, dict(st)
        if base == "mov" and len(srcs) == 1:
            if isreg(srcs[0]):
                wr("aarch64", st, d, rd("aarch64", before, a64_name(srcs[0])))
                return st, dict(st)
            k = imm_of(srcs)
            if k is not None:
                wr("aarch64", st, d, k)
                return st, dict(st)
        wr("aarch64", st, d, rng.getrandbits(64))
        return st, dict(st)
    return f


def oracle_check(isa, d, A, B):
    """dict d claims to describe A -> B.  Returns None or (failure key, description of the first wrong claim)."""
    fams = set()
    for reg, ch in d.items():
        info = reg_info(isa, reg)
        if info is None:
            continue                           # vector / floating-point register: outside the interpreter
        fams.add(info[0])
        if ch is None:
            continue
        if "name" not in ch or type(ch.get("value")) is not int or reg_info(isa, ch["name"]) is None:
            return "regchange-malformed", "%s: malformed change %r" % (reg, ch)
        mask = (1 << info[1]) - 1
        want = (rd(isa, A, ch["name"]) + ch["value"]) & mask
        if rd(isa, B, reg) != want:
            return "regchange-wrong-constant", "%s reported as %s%+d = %#x but the instruction leaves %#x" % (reg, ch["name"], ch["value"], want, rd(isa, B, reg))
    keys = {k.lower() for k in d}
    for fam in A:
        full = X86_FULL[fam] if isa == "x86" else "x" + fam[1:]
        if full not in keys and A[fam] != B[fam]:
            # KernelDG treats a register that is not reported as unchanged
            if fam in fams:
                return KNOWN_SUBREG, ("%s changes (%#x -> %#x) because a narrower part of it is written, but it is not reported "
                                      "(the tracker keeps treating it as unchanged)" % (full, A[fam], B[fam]))
            return "regchange-unreported-register", "%s changes (%#x -> %#x) but no register of it is reported" % (full, A[fam], B[fam])
    return None


def universe(isa):
    names = (X64 + X32 + ["rdx", "rdi", "rsp", "r8"]) if isa == "x86" else (["x%d" % i for i in range(1, 10)] + ["xsp"])
    return sorted({reg_info(isa, n)[0] for n in names})


def run_oracle(ctx, isa, line, res, rng):
    """-> True when the line was checked"""
    f = interpret(isa, line, rng)
    if f is None or res["full"][0] != "ok" or res["post"][0] != "ok":
        return False
    for _ in range(3):
        before = {fam: rng.getrandbits(64) for fam in universe(isa)}
        r = f(before)
        if r is None:
            return False
        mid, fin = r
        for which, d, A, B in (("get_reg_changes", res["full"][1], before, mid), ("get_reg_changes(only_postindexed)", res["post"][1], mid, fin)):
            bad = oracle_check(isa, d, A, B)
            if bad:
                ctx.violation(bad[0], "%s `%s`: %s returns %r -- %s" % (isa, line, which, d, bad[1]), {"regchg": True, "isa": isa, "line": line})
                return True
    return True


# ------------------------------------------------------------------ the sub-check
def translate(ctx):
    paths = {isa: models.isa_path(isa) for isa in ("x86", "aarch64")}
    ok, ents = gen_regchg.generate(paths, os.path.join(vlib.COQ, "Gen"), os.path.join(vlib.REPO, "osaca/data/isa"))
    ctx.obligation("operation strings of isa/x86.yml + isa/aarch64.yml translated into the statement AST (Gen/Operations.v)", "translation", ok,
                   "" if ok else str(ents))
    if not ok:
        return None
    c, out, _ = ctx.coqc(os.path.join(vlib.COQ, "Gen", "Operations.v"))
    ctx.obligation("generated Gen/Operations.v type-checks", "translation", c, out)
    return ents if c else None


def run(ctx):
    ctx.trusted += ["hand model Model/RegChanges.v of ISASemantics.get_reg_changes, tied by exact correspondence of both returned dicts / raised exception classes",
                    "architectural semantics arch_effect (Proofs/RegChanges.v): registers hold unbounded integers, identified by prefix+name "
                    "in the composition with Proofs/MemDep.v; the Alias section (fam/width/full_of arbitrary) and the Python interpreter of the oracle "
                    "have sub-register views and wrap-around",
                    "parser.get_full_width_reg_name is an input of the model (compared with independent x86/AArch64 register tables on every generated destination)",
                    "translator tools/gen_regchg.py (fail closed; its output is executed by the model in the correspondence)"]
    ctx.assumptions += ["immediate operand values reaching get_reg_changes are Python ints (or None)",
                        "the base of a pre-/post-indexed access is not also a transfer register of the same instruction (architecturally unpredictable)"]
    ents = translate(ctx)
    if ents is not None:
        ctx.compile_theorems("PropsGen/C06ops.v")
    else:
        ctx.obligation("theorems of PropsGen/C06ops.v", "theorem", False, "regenerated table unavailable")
    rng = ctx.rng
    impls = {isa: Impl(isa) for isa in ("x86", "aarch64")}
    lines = []                       # (isa, text, wanted entry or None)
    if ents is None:                 # translator refused: still exercise every entry with an operation (search for a failing input)
        ents = []
        for isa, impl in impls.items():
            for name, forms in impl.sem._isa_model["instruction_forms_dict"].items():
                for idx, f in enumerate(forms):
                    if f.operation is not None:
                        try:
                            pat = [{"kind": {"RegisterOperand": "reg", "ImmediateOperand": "imm"}.get(type(o).__name__, "mem"),
                                    "prefix": getattr(o, "prefix", None)} for o in f.operands]
                            ents.append({"isa": isa, "name": name, "idx": idx, "pat": pat, "text": str(f.operation), "stmts": None})
                        except Exception:  # noqa
                            pass
        table_ok = False
    else:
        table_ok = True
    per_entry = ctx.n(40, 400)
    for e in ents:
        for t in entry_instances(rng, e, per_entry):
            lines.append((e["isa"], t, (e["name"], e["idx"])))
    for isa in ("x86", "aarch64"):
        for t in other_instances(rng, isa, ctx.n(150, 1500)):
            lines.append((isa, t, None))
    cases, case_lines, hit = [], [], set()
    unmodelled, checked = [], 0
    kinds = {"operation": 0, "no_operation": 0, "pre_indexed": 0, "post_indexed": 0, "no_mnemonic": 0, "raises": 0}
    for isa, text, want in lines:
        impl = impls[isa]
        try:
            res = impl.run(text)
        except Exception as ex:  # noqa  -- parser / assign_src_dst failure on a generated line: not this sub-check's subject
            ctx.coverage.setdefault("regchg_skipped", []).append("%s: %r" % (text, ex))
            continue
        ctx.count()
        e = res["isa_data"]
        dests, fulls, want_fulls = dest_info(impl, res["form"])
        if [f.lower() for f in fulls] != want_fulls:
            ctx.violation(KNOWN_SUBREG, "%s `%s` writes %s: the full-width register(s) %s must be reported as changed beyond reconstruction, "
                          "the implementation names %s (get_reg_changes -> %r)" % (isa, text, dests, want_fulls, fulls, res["full"][1:]),
                          {"regchg": True, "isa": isa, "line": text})
        if want_fulls:
            kinds["sub_register_write"] = kinds.get("sub_register_write", 0) + 1
        if e is not None and e.operation is not None:
            hit.add((isa,) + impl.idmap[id(e)])
            kinds["operation"] += 1
            ctx.nontriv("regchg " + text)
        elif res["form"].mnemonic is None:
            kinds["no_mnemonic"] += 1
        else:
            kinds["no_operation"] += 1
        if "]!" in text:
            kinds["pre_indexed"] += 1
        if re.search(r"\],", text):
            kinds["post_indexed"] += 1
        for key in ("full", "post"):
            if res[key][0] == "err":
                kinds["raises"] += 1
                if isa == "x86" or "foo]!" not in text:
                    ctx.violation("regchange-raises", "%s `%s`: get_reg_changes(only_postindexed=%s) raises %s" % (isa, text, key == "post", res[key][2]),
                                  {"regchg": True, "isa": isa, "line": text})
        if run_oracle(ctx, isa, text, res, rng):
            checked += 1
        if len(ctx.samples) < 6 and want is not None and rng.random() < 0.05:
            ctx.sample({"isa": isa, "line": text, "get_reg_changes": repr(res["full"][1:]), "only_postindexed": repr(res["post"][1:])})
        if table_ok:
            try:
                cases.append(coq_case(impl, res))
                case_lines.append((isa, text))
            except Unmodelled as u:
                unmodelled.append("%s `%s`: %s" % (isa, text, u))
    ctx.coverage["regchg"] = {"cases": len(lines), "oracle_checked": checked, "kinds": kinds,
                              "entries_with_operation": len(ents), "entries_exercised": len(hit), "unmodelled": unmodelled[:5]}
    want_all = {(e["isa"], e["name"], e["idx"]) for e in ents}
    ctx.obligation("every ISA entry with an operation is exercised by a generated instruction that the look-up resolves to it (%d entries)" % len(want_all),
                   "coverage", want_all <= hit, "not reached: %s" % sorted(want_all - hit))
    ctx.obligation("every generated instruction is inside the model's input domain", "correspondence", not unmodelled, "\n".join(unmodelled[:5]))
    if not table_ok:
        return
    size = 400
    shards = [("regchg_%03d" % (i // size), SHARD_HEADER + "Definition cases : list rcase := [\n" + ";\n".join(cases[i:i + size]) + "]." + SHARD_FOOTER)
              for i in range(0, len(cases), size)]
    results = ctx.coq_eval_many(shards, timeout=600)
    bad, errs = [], []
    total = 0
    for si, (ok, out) in enumerate(results):
        if not ok:
            errs.append("shard %d failed: %s" % (si, out[0][-1500:]))
            continue
        b, n = out[0].split("|")
        total += int(n)
        bad += [si * size + int(x) for x in b.split(",") if x]
    detail = "\n".join(errs[:2] + ["%s `%s`" % case_lines[i] for i in bad[:8]])
    ctx.obligation("correspondence regchg: Model/RegChanges.v (running the regenerated operation table) = ISASemantics.get_reg_changes, "
                   "both modes, on %d instructions" % len(cases), "correspondence", not bad and not errs and total == len(cases), detail)
    for i in bad[:3]:
        isa, text = case_lines[i]
        d = os.path.join(vlib.VERIF, "replays", ctx.prop)
        os.makedirs(d, exist_ok=True)
        import json
        with open(os.path.join(d, "disagree-regchg-%d.json" % i), "w") as f:
            json.dump({"property": ctx.prop, "key": "correspondence", "replay": {"regchg": True, "isa": isa, "line": text}}, f)
    ctx.log("regchg: %d instructions (%d entries with operation, %d oracle-checked), %d model/implementation mismatches"
            % (len(cases), len(ents), checked, len(bad)))


def replay(ctx, r):
    impl = Impl(r["isa"])
    res = impl.run(r["line"])
    ctx.count()
    ctx.log("replay `%s`: get_reg_changes -> %r ; only_postindexed -> %r" % (r["line"], res["full"][1:], res["post"][1:]))
    for key in ("full", "post"):
        if res[key][0] == "err":
            ctx.violation("regchange-raises", "%s `%s`: get_reg_changes raises %s" % (r["isa"], r["line"], res[key][2]), r)
    dests, fulls, want_fulls = dest_info(impl, res["form"])
    if [f.lower() for f in fulls] != want_fulls:
        ctx.violation(KNOWN_SUBREG, "%s `%s` writes %s: the full-width register(s) %s must be reported as changed beyond reconstruction, "
                      "the implementation names %s" % (r["isa"], r["line"], dests, want_fulls, fulls), r)
    run_oracle(ctx, r["isa"], r["line"], res, ctx.rng)
