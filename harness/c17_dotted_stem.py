"""Stand-alone reproduction (not run by the check) of a C17 defect found while modelling the cache file names for the
translator tie (coq/Model/PyCache.v, `name_has_suffix`): for a model file whose stem contains a '.', e.g. `my.model.yml`,

    p.with_name("." + p.stem + "_" + hexhash).with_suffix(".pickle")

REPLACES the "suffix" `.model_<sha256>` by `.pickle`: the companion cache is `.my.pickle` (home cache: `my.pickle`), the
content hash is no longer part of the key, and an edit of the model file is not picked up -- the stale cache entry is served.

usage: python c17_dotted_stem.py [repo]      exit 1 = defect present"""
import os
import re
import shutil
import subprocess
import sys
import tempfile

repo = sys.argv[1] if len(sys.argv) > 1 else "/repo"
CHILD = r'''
import os, re, sys
from osaca.semantics.hw_model import MachineModel
p = os.path.abspath(sys.argv[1])
m1 = MachineModel(path_to_yaml=p)
lat1 = [f["latency"] for f in m1._data["instruction_forms"][:50]]
print("cache files:", sorted(f for f in os.listdir(os.path.dirname(p)) if f.endswith(".pickle")))
src = open(p).read()
src2 = re.sub(r"(?m)^(  latency: )([0-9]+(?:\.[0-9]+)?)", lambda m: m.group(1) + repr(float(m.group(2)) + 7), src)
assert src2 != src
open(p, "w").write(src2)
MachineModel._runtime_cache.clear()        # what a fresh process has
m2 = MachineModel(path_to_yaml=p)
lat2 = [f["latency"] for f in m2._data["instruction_forms"][:50]]
print("edit picked up:", lat1 != lat2)
sys.exit(0 if lat1 != lat2 else 1)
'''
d = tempfile.mkdtemp(prefix="c17dot")
try:
    rc = 0
    for name in ("mymodel.yml", "my.model.yml"):
        w = os.path.join(d, name.replace(".", "_"))
        os.makedirs(os.path.join(w, "home"))
        shutil.copy(os.path.join(repo, "osaca", "data", "tx2.yml"), os.path.join(w, name))
        env = dict(os.environ, HOME=os.path.join(w, "home"), PYTHONPATH=repo)
        r = subprocess.run([sys.executable, "-c", CHILD, os.path.join(w, name)], env=env, capture_output=True, text=True)
        print(name, "->", r.stdout.strip().replace("\n", "; "), "" if r.returncode in (0, 1) else r.stderr[-300:])
        if name == "my.model.yml" and r.returncode != 0:
            rc = 1
    sys.exit(rc)
finally:
    shutil.rmtree(d, ignore_errors=True)
