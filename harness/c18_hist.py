"""C18 -- generation, execution and judging of call histories (check-process side; the histories themselves run in
harness/c18_driver.py, one fresh python process per history)."""
import concurrent.futures
import glob
import hashlib
import json
import os

import vlib
import models

DRIVER = os.path.join(vlib.VERIF, "harness", "c18_driver.py")

X86_QUICK = ["zen1", "zen2", "zen4", "spr"]
A64_QUICK = ["n1", "tx2", "a64fx", "a72"]
X86_MORE = ["zen3", "icx", "hsw", "snb"]
A64_MORE = ["tsv110", "m1", "v2"]
A64_NAMES = set(models.A64)


def isa_of_arch(a):
    return "aarch64" if a in A64_NAMES else "x86"


# ----------------------------------------------------------------------------------------------- environment
def prepare(ctx):
    """private HOME whose ~/.osaca/data is the scratch copy of the model files (found first by utils.find_datafile)"""
    d = models.data_dir()
    oh = os.path.join(ctx.home, ".osaca")
    os.makedirs(oh, exist_ok=True)
    link = os.path.join(oh, "data")
    if not os.path.lexists(link):
        os.symlink(d, link)
    os.makedirs(os.path.join(ctx.scratch, "c18"), exist_ok=True)
    return d


_n = [0]


def run_driver(ctx, spec, timeout=900):
    _n[0] += 1
    base = os.path.join(ctx.scratch, "c18", "d%05d" % _n[0])
    with open(base + ".in.json", "w") as f:
        json.dump(spec, f)
    rc, out = vlib.sh([vlib.PY, DRIVER, base + ".in.json", base + ".out.json"], timeout=timeout,
                      env=vlib.repo_env(home=ctx.home), cwd=ctx.scratch)
    if rc != 0 or not os.path.exists(base + ".out.json"):
        return {"driver_error": "rc=%s\n%s" % (rc, out[-2000:])}
    res = json.load(open(base + ".out.json"))
    os.remove(base + ".out.json")
    return res


def pristine(ctx, archs, want=None, jobs=8):
    """reference digests of every model file's loaded content (fresh processes that only load)"""
    dig, content, statics, errs = {}, {}, None, []
    with concurrent.futures.ThreadPoolExecutor(max_workers=jobs) as ex:
        futs = [ex.submit(run_driver, ctx, {"mode": "pristine", "archs": [a], "want": want or {}}) for a in archs]
        for a, f in zip(archs, futs):
            r = f.result()
            if "driver_error" in r:
                errs.append("%s: %s" % (a, r["driver_error"]))
                continue
            for p, d in r["digests"].items():
                if p in dig and dig[p] != d:
                    errs.append("two pristine loads of %s differ" % p)
                dig[p] = d
            content.update(r.get("content", {}))
            statics = r["statics"]
    return dig, content, statics, errs


# ----------------------------------------------------------------------------------------------- kernels
X86_LINES = [
    "addq $1, (%rax)", "addl %eax, 4(%rsi)", "subq %rbx, 8(%rdi,%rcx,8)", "incq (%rdx)", "orl $3, 16(%rsp)",
    "xorq %r8, (%r9,%r10,4)", "andl $7, -8(%rbp)",
    "vaddpd (%rax), %xmm0, %xmm1", "vaddpd 8(%rax,%rbx,8), %ymm0, %ymm1", "vmulpd (%rdi), %ymm2, %ymm3",
    "vfmadd231pd (%rsi,%rcx,8), %ymm4, %ymm5", "addq (%rax), %rbx", "addsd (%rax), %xmm0", "mulsd 8(%rdx), %xmm3",
    "vmovapd (%rax), %ymm0", "vmovapd %ymm0, (%rbx)", "vmovupd %ymm1, 32(%rbx,%rcx,8)", "movq %rax, (%rsp)",
    "movq (%rsp), %rax", "movl %eax, 4(%rsi)", "vmovsd %xmm0, (%rdi)", "vmovsd (%rdi), %xmm0",
    "vaddpd %xmm2, %xmm3, %xmm4", "vmulpd %ymm0, %ymm1, %ymm2", "addq $8, %rax", "cmpq %rax, %rbx", "subl $1, %ecx",
    "vxorpd %xmm0, %xmm0, %xmm0", "xorl %eax, %eax", "leaq 8(%rax,%rbx,4), %rcx", "imulq %rax, %rbx", "vdivpd %ymm0, %ymm1, %ymm2",
    "frobnicate %rax, %rbx", "vfoobar (%rax), %ymm1, %ymm2", "xyzzyq $1, (%rax)", "vplughpd %zmm1, %zmm2, %zmm3",
    "cmpxchgq %rbx, (%rcx)", "xaddq %rax, (%rdx)", "pushq %rbx", "popq %rbx", "nop",
    "# a comment line", ".L5:", ".p2align 4", "jne .L5", "ja .L5",
]
A64_LINES = [
    "ldr x1, [x2, #8]!", "ldr x1, [x2], #8", "str x1, [x2, #16]!", "str x1, [x2], #16", "ldp x1, x3, [x2], #16",
    "stp x1, x3, [x2, #-16]!", "ldr q0, [x0], #16", "str q0, [x1], #16", "ldr d0, [x0, x1, lsl #3]", "str d0, [x0, x1, lsl #3]",
    "ldr x1, [x2]", "str x1, [x2]", "ldr q1, [x3, #32]", "str q1, [x3, #32]", "ldp q0, q1, [x0]", "stp q0, q1, [x1]",
    "ldur d2, [x4, #-8]", "stur d2, [x4, #-8]", "ld1 {v0.2d}, [x0], #16", "st1 {v0.2d}, [x1], #16",
    "fadd v0.2d, v1.2d, v2.2d", "fmul d0, d1, d2", "fmla v0.2d, v1.2d, v2.2d", "add x1, x1, #8", "add x0, x1, x2", "subs x3, x3, #1",
    "cmp x1, x2", "mov x5, x6", "fmadd d0, d1, d2, d3", "fdiv d0, d1, d2",
    "frobnicate x1, x2", "vfoobar v0.2d, [x1]", "ldxyz x1, [x2, #8]!", "ldadd x1, x2, [x3]", "swp x1, x2, [x3]",
    "// a comment line", ".L7:", ".p2align 4", "b.ne .L7", "bne .L7", "cbnz x3, .L7",
]


def shipped_kernels():
    """[(isa, path)] -- files of the repo's corpus, classified by the implementation's own ISA detection"""
    from osaca.parser import BaseParser
    res = []
    fs = sorted(glob.glob(os.path.join(vlib.REPO, "examples", "*", "*.s")) + glob.glob(os.path.join(vlib.REPO, "tests", "test_files", "*.s")))
    for f in fs:
        if f.endswith(".copy.s"):
            continue
        b = os.path.basename(f)
        text = open(f).read()
        if any(t in b for t in ("aarch64", "tx2", "arm", "a64fx")):
            isa = "aarch64"
        elif any(t in b for t in ("x86", "csx", "zen", "icl", "skx")):
            isa = "x86"
        else:
            isa = BaseParser.detect_ISA(text)
        res.append((isa, f, len(text.split("\n"))))
    return res


def write_kernel(ctx, isa, lines):
    text = "\n".join(lines) + "\n"
    d = os.path.join(ctx.scratch, "c18", "kernels")
    os.makedirs(d, exist_ok=True)
    p = os.path.join(d, "%s_%s.s" % (isa, hashlib.sha1(text.encode()).hexdigest()[:10]))
    if not os.path.exists(p):
        with open(p, "w") as f:
            f.write(text)
    return p


def gen_kernel(ctx, isa):
    voc = X86_LINES if isa == "x86" else A64_LINES
    n = ctx.rng.randint(2, 9)
    return write_kernel(ctx, isa, [ctx.rng.choice(voc) for _ in range(n)])


def witness_files(ctx):
    rmw = write_kernel(ctx, "x86", ["addq $1, (%rax)", "vaddpd %xmm2, %xmm3, %xmm4"])
    load = write_kernel(ctx, "x86", ["vaddpd (%rax), %xmm0, %xmm1"])
    rmw2 = write_kernel(ctx, "x86", ["addl %eax, 4(%rsi)", "subq %rbx, 8(%rdi,%rcx,8)", "movq (%rsp), %rax"])
    load2 = write_kernel(ctx, "x86", ["addq 4(%rsi), %rbx", "vmulpd 8(%rdi,%rcx,8), %ymm2, %ymm3", "frobnicate %rax, %rbx"])
    a1 = write_kernel(ctx, "aarch64", ["ldr x1, [x2, #8]!", "str x1, [x2], #16", "ldadd x1, x2, [x3]", "fadd v0.2d, v1.2d, v2.2d"])
    a2 = write_kernel(ctx, "aarch64", ["ldr x1, [x2]", "ldr q1, [x3, #32]", "ldr x1, [x2], #8", "frobnicate x1, x2"])
    # names shared between files: one file DEFINES assembler symbols / labels that another file only USES (a parser that
    # remembers anything from one file to the next -- symbol tables, label maps -- shows here)
    xdef = write_kernel(ctx, "x86", [".set OFF, 16", ".equ DISP, 8", ".equiv STEP, 32", ".L5:", "movq %rcx, (%rsi)", "addq $STEP, %rax", "jne .L5"])
    xuse = write_kernel(ctx, "x86", ["movq %rcx, OFF(%rsi)", "movq 16(%rsi), %rdx", "addq %rdx, %rcx", "movq %rax, DISP(%rdi)", "movq 8(%rdi), %rbx",
                                     "addq $STEP, %rax", "jne .L5"])
    adef = write_kernel(ctx, "aarch64", [".set OFF, 16", ".equ K, 8", ".L7:", "str x1, [x2]", "add x5, x5, #K", "b.ne .L7"])
    ause = write_kernel(ctx, "aarch64", ["str x1, [x2, #OFF]", "ldr x3, [x2, #16]", "add x1, x3, x3", "add x5, x5, #K", "b.ne .L7"])
    return dict(rmw=rmw, load=load, rmw2=rmw2, load2=load2, a1=a1, a2=a2, xdef=xdef, xuse=xuse, adef=adef, ause=ause)


def req(arch, path, opts=()):
    return {"arch": arch, "file": path, "opts": list(opts)}


def rkey(r):
    return json.dumps([r["arch"], r["file"], r["opts"]])


def core_histories(ctx, x86, a64):
    w = witness_files(ctx)
    hs = []
    for style in ("reuse", "cli"):
        for arch in [a for a in ("zen2", "zen1", "zen4", "spr") if a in x86][:(4 if style == "reuse" else 2)]:
            hs.append({"style": style, "calls": [req(arch, w["load"]), req(arch, w["rmw"]), req(arch, w["load"]),
                                                 req(arch, w["rmw"]), req(arch, w["load2"]), req(arch, w["rmw2"]),
                                                 req(arch, w["load2"], ["--fixed"]), req(arch, w["load"])]})
        for arch in a64[:(3 if style == "reuse" else 1)]:
            hs.append({"style": style, "calls": [req(arch, w["a2"]), req(arch, w["a1"]), req(arch, w["a2"]),
                                                 req(arch, w["a1"], ["--consider-flag-deps"]), req(arch, w["a2"], ["--fixed"])]})
    for style in ("reuse", "cli"):
        if x86:
            hs.append({"style": style, "calls": [req(x86[0], w["xuse"]), req(x86[0], w["xdef"]), req(x86[0], w["xuse"]),
                                                 req(x86[-1], w["xuse"], ["--consider-flag-deps"]), req(x86[0], w["xdef"])]})
        if a64:
            hs.append({"style": style, "calls": [req(a64[0], w["ause"]), req(a64[0], w["adef"]), req(a64[0], w["ause"]),
                                                 req(a64[-1], w["ause"], ["--fixed"]), req(a64[0], w["adef"])]})
    # both ISAs in one process, alternating
    if x86 and a64:
        hs.append({"style": "reuse", "calls": [req(x86[0], w["rmw"]), req(a64[0], w["a1"]), req(x86[0], w["load"]), req(a64[0], w["a2"]),
                                               req(x86[-1], w["rmw2"]), req(x86[0], w["load2"]), req(a64[-1], w["a1"]), req(a64[0], w["a2"])]})
    return hs


def random_histories(ctx, count, x86, a64, ncalls=8):
    ship = shipped_kernels()
    hs = []
    for h in range(count):
        style = "reuse" if ctx.rng.random() < 0.6 else "cli"
        # a small pool of requests, drawn with repetition: repeats and interleavings are what the property is about
        pool = []
        one_isa = ctx.rng.random() < 0.35
        isa0 = ctx.rng.choice(["x86", "aarch64"])
        for _ in range(ctx.rng.randint(3, 5)):
            isa = isa0 if one_isa else ctx.rng.choice(["x86", "aarch64"])
            archs = x86 if isa == "x86" else a64
            arch = archs[0] if (pool and ctx.rng.random() < 0.5 and isa_of_arch(pool[0]["arch"]) == isa and False) else ctx.rng.choice(archs)
            if pool and ctx.rng.random() < 0.5:
                same = [r for r in pool if isa_of_arch(r["arch"]) == isa]
                if same:
                    arch = ctx.rng.choice(same)["arch"]      # same model again, other kernel: the shared tables matter
            r = ctx.rng.random()
            if r < 0.55:
                path = gen_kernel(ctx, isa)
            else:
                cands = [f for (i, f, n) in ship if i == isa and n <= (400 if ctx.tier == "thorough" else 250)]
                path = ctx.rng.choice(cands)
            o = ctx.rng.random()
            opts = [] if o < 0.55 else ["--fixed"] if o < 0.75 else ["--consider-flag-deps"] if o < 0.9 else ["--fixed", "--consider-flag-deps"]
            pool.append(req(arch, path, opts))
        calls = [ctx.rng.choice(pool) for _ in range(ncalls)]
        hs.append({"style": style, "calls": calls})
    return hs


# ----------------------------------------------------------------------------------------------- execution
class Refs(object):
    """fresh-process result of every distinct request (the right-hand side of the property)"""

    def __init__(self, ctx, pristine_digests):
        self.ctx, self.memo, self.pd = ctx, {}, pristine_digests

    def ensure(self, requests, jobs=12):
        todo = {}
        for r in requests:
            if rkey(r) not in self.memo:
                todo[rkey(r)] = r
        with concurrent.futures.ThreadPoolExecutor(max_workers=jobs) as ex:
            futs = {k: ex.submit(run_driver, self.ctx, {"mode": "history", "style": "cli", "calls": [r], "pristine": {}})
                    for k, r in todo.items()}
            for k, f in futs.items():
                res = f.result()
                if "driver_error" in res:
                    self.memo[k] = {"report": None, "error": "DRIVER: " + res["driver_error"]}
                else:
                    c = res["results"][0]
                    self.memo[k] = {"report": c["report"], "error": c["error"]}

    def get(self, r):
        return self.memo[rkey(r)]


def execute(ctx, hists, pristine_digests, observe=True, jobs=10):
    def one(h):
        paths = set()
        spec = {"mode": "history", "style": h["style"], "calls": h["calls"], "observe": observe, "pristine": pristine_digests}
        return run_driver(ctx, spec)
    with concurrent.futures.ThreadPoolExecutor(max_workers=jobs) as ex:
        return list(ex.map(one, hists))


def first_diff(a, b):
    a, b = (a or "").split("\n"), (b or "").split("\n")
    for i in range(max(len(a), len(b))):
        x = a[i] if i < len(a) else "<no line>"
        y = b[i] if i < len(b) else "<no line>"
        if x != y:
            return "line %d: in this process %r / fresh process %r" % (i + 1, x.rstrip()[-150:], y.rstrip()[-150:])
    return "equal"


HARD = ("model-data-mutated-in-place", "shared-default-or-global-mutated", "static-removed", "parser-object-replaced")
SOFT = ("model-data-extended", "parser-singleton-state-changed")


def judge_history(h, res, refs):
    """-> list of findings {key, what, index, hard}.  Oracle 1: report == fresh-process report for every call.
    Oracle 2 (frame): the shared store is unchanged by every call."""
    out = []
    if "driver_error" in res:
        return [{"key": "history-driver-failed", "what": res["driver_error"][-600:], "index": len(h["calls"]) - 1, "hard": True}]
    for i, (c, r) in enumerate(zip(h["calls"], res["results"])):
        ref = refs.get(c)
        if r["report"] != ref["report"] or r["error"] != ref["error"]:
            if r["error"] != ref["error"]:
                d = "in this process: %s / fresh process: %s" % (r["error"] or "report", ref["error"] or "report")
            else:
                d = first_diff(r["report"], ref["report"])
            out.append({"key": "report-depends-on-history", "index": i, "hard": True,
                        "what": "call %d (%s --arch %s %s, %s objects) differs from a fresh process: %s" % (
                            i + 1, os.path.basename(c["file"]), c["arch"], " ".join(c["opts"]),
                            "reused model" if h["style"] == "reuse" else "per-call", d)})
        for f in r.get("frame", []):
            hard = f["kind"] in HARD
            where = f.get("path", "") and os.path.basename(f.get("path", ""))
            out.append({"key": f["kind"], "index": i, "hard": hard, "frame": f,
                        "what": "after call %d (%s --arch %s %s): %s %s is no longer what a pristine load gives: %s" % (
                            i + 1, os.path.basename(c["file"]), c["arch"], " ".join(c["opts"]), where, f["component"], f.get("now", "")[:300])})
    return out


def kernel_texts(h):
    return {c["file"]: open(c["file"]).read() for c in h["calls"] if os.path.exists(c["file"])}
