"""C13 harness: run the real osaca.osaca.run (-> inspect) with --yaml-out, tokenise the text report by layout only,
load the YAML back, snapshot the analysed objects (a recording wrapper around Frontend.full_analysis that does not
change what is printed), and judge text vs YAML with an independent Python oracle.

Everything a worker returns is plain data (picklable); floats travel as float.hex() strings."""
import contextlib
import glob
import io
import os
import re
import tempfile

import vlib
import models

_ready = False
_captured = {}


def setup():
    """DATA_DIRS -> scratch copy of the model files; install the recording wrapper (idempotent)."""
    global _ready
    if _ready:
        return
    import osaca.utils
    d = models.data_dir()
    if d not in osaca.utils.DATA_DIRS:
        osaca.utils.DATA_DIRS.insert(0, d)
    from osaca.frontend import Frontend
    orig = Frontend.full_analysis

    def recording_full_analysis(self, kernel, kernel_dg, *a, **kw):
        text = orig(self, kernel, kernel_dg, *a, **kw)
        _captured.clear()
        _captured.update(frontend=self, kernel=kernel, dg=kernel_dg)
        return text

    Frontend.full_analysis = recording_full_analysis
    _ready = True


def hx(v):
    return float(v).hex()


def snapshot():
    """Plain-data picture of the analysed kernel, CP list and LCD dict, taken after inspect has returned."""
    fe, kernel, dg = _captured["frontend"], _captured["kernel"], _captured["dg"]
    ports = list(fe._machine_model.get_ports())
    lines = []
    for x in kernel:
        used = sorted(set(p for u in x.port_uops for p in list(u[1])))
        lines.append(dict(num=x.line_number, press=[hx(v) for v in x.port_pressure], used=used,
                          tp=hx(x.throughput), lat=hx(x.latency), lat_cp=hx(x.latency_cp),
                          flags=sorted(x.flags), instr=x.mnemonic is not None))
    cp = [(x.line_number, hx(x.latency_cp)) for x in dg.get_critical_path()]
    cp_same_objects = all(any(x is k for k in kernel) for x in dg.get_critical_path())
    dep = dg.get_loopcarried_dependencies()
    lcd = [(key, hx(dep[key]["latency"]), [(n.line_number, hx(lat)) for n, lat in dep[key]["dependencies"]]) for key in dep]
    return dict(ports=ports, lines=lines, cp=cp, cp_same_objects=cp_same_objects, lcd=lcd, timed_out=bool(dg.timed_out))


def run_osaca(argv):
    """-> (report text, None) or (None, 'ExcType: msg')"""
    import osaca.osaca as O
    setup()
    _captured.clear()
    p = O.create_parser()
    with contextlib.redirect_stderr(io.StringIO()):
        try:
            a = p.parse_args(argv)
            O.check_arguments(a, p)
        except SystemExit as e:
            return None, "SystemExit(%s)" % e
    out = io.StringIO()
    try:
        with contextlib.redirect_stdout(io.StringIO()), contextlib.redirect_stderr(io.StringIO()):
            O.run(a, output_file=out)
    except Exception as e:  # noqa
        return None, "%s: %s" % (type(e).__name__, e)
    finally:
        for f in (a.file, getattr(a, "yaml_out", None)):
            try:
                f.close()
            except Exception:
                pass
    return out.getvalue(), None


# ----------------------------------------------------------------------------------------- tokeniser (layout only)
class Layout(Exception):
    pass


NUM = r"-?(?:[0-9]+(?:\.[0-9]*)?(?:e[-+]?[0-9]+)?|inf|nan)"
ARCH_W = "WARNING: No micro-architecture was specified"
LEN_W = "WARNING: You are analyzing a large amount of instruction forms"
LCD_W = "WARNING: LCD analysis timed out"
MISS_W = re.compile(r"WARNING: The performance data for (\S+) instructions is missing\.")


def header_columns(hline):
    """Header line '     | p0 | p1 - p1DV |...||  CP  | LCD  |' -> (names, widths, seps); seps[i] in '|-' follows column i."""
    if not hline.startswith("     |"):
        raise Layout("header line does not start with the line-number filler and '|': %r" % hline[:20])
    m = re.search(r"\|\|\s*CP\s*\|\s*LCD\s*\|\s*$", hline)
    if not m:
        raise Layout("header line does not end with the CP and LCD columns")
    body = hline[6:m.start() + 1]           # 'name |name - name |'
    names, widths, seps = [], [], []
    for fm in re.finditer(r"(\s*)(\S+)(\s*)([|-])", body):
        names.append(fm.group(2))
        widths.append(len(fm.group(1)) + len(fm.group(2)) + len(fm.group(3)))
        seps.append(fm.group(4))
    if "".join(fm.group(0) for fm in re.finditer(r"(\s*)(\S+)(\s*)([|-])", body)) != body:
        raise Layout("header line has text between port columns")
    return names, widths, seps


def row_regex(widths, seps):
    parts = [r"^\s*(?P<num>\d+) \|"]
    for i, (w, s) in enumerate(zip(widths, seps)):
        sep = r"\|" if s == "|" else " "
        parts.append(r" (?P<c%d> {%d}|%s) %s" % (i, w - 2, NUM, sep))
    parts.append(r"\| (?P<cp> *%s| {4}) \| (?P<lcd> *%s| {4}) \| (?P<rest>.*)$" % (NUM, NUM))
    return re.compile("".join(parts))


def tokenise(report):
    """Text report -> dict(ports, rows, summary, warnings, lcd_list).  No number is interpreted here beyond
    recognising its spelling; cells are returned as the printed strings ('' for a blank cell)."""
    t = {"arch_warning": ARCH_W in report, "length_warning": LEN_W in report, "lcd_warning": LCD_W in report}
    mm = MISS_W.findall(report)
    if len(mm) > 1:
        raise Layout("more than one missing-data warning")
    t["missing"] = mm[0] if mm else None
    m = re.search(r"^Architecture:\s+(\S+)$", report, re.M)
    t["arch"] = m.group(1) if m else None
    i = report.find("\nCombined Analysis Report\n")
    j = report.find("\nLoop-Carried Dependencies Analysis Report\n")
    if i < 0 or j < i:
        raise Layout("report sections not found")
    lines = report[i + 1:j].split("\n")
    # lines[0] title, [1] dashes, [2] centred headline, [3] header, [4] dashes, rows..., '', summary or warning
    hline = lines[3]
    names, widths, seps = header_columns(hline)
    t["ports"] = names
    rx = row_regex(widths, seps)
    rows = []
    k = 5
    while k < len(lines) and lines[k] != "":
        m = rx.match(lines[k])
        if not m:
            raise Layout("table row does not follow the header layout: %r" % lines[k][:160])
        rest = m.group("rest")
        if rest.startswith("  "):
            flags, text = " ", rest[2:]
        else:
            fm = re.match(r"([*XP]+) (.*)$", rest)
            if not fm:
                raise Layout("flag field not recognised: %r" % rest[:40])
            flags, text = fm.group(1), fm.group(2)
        rows.append(dict(num=int(m.group("num")), cells=[m.group("c%d" % c).strip() for c in range(len(names))],
                         cp=m.group("cp").strip(), lcd=m.group("lcd").strip(), flags=flags, text=text))
        k += 1
    t["rows"] = rows
    tail = [l for l in lines[k:] if l.strip() != ""]
    t["summary"] = None
    if t["missing"] is None:
        # the first non-blank line after the table rows
        if not tail or not tail[0].startswith("      "):
            raise Layout("summary row not found after the table")
        t["summary"] = summary_tokens(tail[0], widths)
    # LCD list
    lcd = []
    for l in report[j + 1:].split("\n")[2:]:
        if l.strip() == "":
            continue
        m = re.match(r"^\s*(\d+) \| +(%s) \| (.*)\| \[([0-9, ]*)\]$" % NUM, l)
        if not m:
            raise Layout("LCD list row not recognised: %r" % l[:160])
        lcd.append(dict(first=int(m.group(1)), lat=m.group(2), text=m.group(3).strip(),
                        members=[int(x) for x in m.group(4).replace(" ", "").split(",") if x]))
    t["lcd_list"] = lcd
    return t


def summary_tokens(line, widths):
    """Summary row (blank-separated): assign each number to the column whose character span contains its start.
    Column i spans [starts[i], starts[i] + widths[i] + 1) of the header (one separator character after each)."""
    starts, pos = [], 6
    for w in widths:
        starts.append(pos)
        pos += w + 1
    end_ports = pos                      # position of the second '|' of '||'
    cells = [""] * len(widths)
    extra = []
    for m in re.finditer(r"\S+", line):
        s = m.start()
        if s >= end_ports:
            extra.append(m.group(0))
            continue
        col = max(c for c in range(len(widths)) if starts[c] <= s) if s >= 6 else None
        if col is None or cells[col] != "":
            raise Layout("summary row: token %r at %d does not fall into a free port column" % (m.group(0), s))
        cells[col] = m.group(0)
    if len(extra) != 2:
        raise Layout("summary row: expected CP and LCD totals after the port columns, found %r" % (extra,))
    for c in cells + extra:
        if c and not re.fullmatch(NUM, c):
            raise Layout("summary row: %r is not a number" % c)
    return dict(cells=cells, cp=extra[0], lcd=extra[1])


# ----------------------------------------------------------------------------------------- YAML side
def load_yaml(path):
    from ruamel.yaml import YAML
    y = YAML(typ="unsafe", pure=True)
    with open(path) as f:
        d = y.load(f)
    ports = list(d["Target"]["Ports"])
    out = dict(ports=ports, arch=d["Target"]["Name"], warnings=list(d["Warnings"]),
               summary=dict(press=[hx(d["Summary"]["PortPressure"][p]) for p in ports],
                            cp=hx(d["Summary"]["CriticalPath"]), lcd=hx(d["Summary"]["LCD"])),
               kernel=[])
    if len(set(ports)) != len(ports) or set(d["Summary"]["PortPressure"]) != set(ports):
        raise Layout("YAML port names are not unique / do not match Target.Ports")
    for k in d["Kernel"]:
        out["kernel"].append(dict(num=k["LineNumber"], press=[hx(k["PortPressure"][p]) for p in ports],
                                  used=sorted(set(p for u in k["PortUops"] for p in u["Ports"])),
                                  tp=hx(k["Throughput"]), lat=hx(k["Latency"]), lat_cp=hx(k["LatencyCP"]),
                                  lat_lcd=hx(k["LatencyLCD"]), flags=sorted(k["Flags"]), instr=k["Instruction"] is not None))
    return out


# ----------------------------------------------------------------------------------------- one case, end to end
MARKER_RX = re.compile(r"OSACA-BEGIN|OSACA-END|LLVM-MCA-BEGIN|LLVM-MCA-END|IACA[ _]?START|IACA[ _]?END|"
                       r"mov[lq]?\s+\$(?:111|222)\s*,\s*%ebx|mov\s+x1\s*,\s*#?(?:111|222)\b")


def request_facts(case):
    """What the request says, independent of the implementation."""
    text = case["text"]
    nonblank = sum(1 for l in text.split("\n") if l.strip() != "")
    marked = case.get("marked")
    if marked is None:
        marked = bool(MARKER_RX.search(text))
    return dict(arch_given=case.get("arch") is not None, lines_given=case.get("lines") is not None,
                marked=marked, n_parsed=nonblank, ignore_unknown=bool(case.get("ignore_unknown")),
                must_x=list(case.get("must_x") or []))


def isa_counts(text):
    """The two register-spelling counts detect_ISA bases its choice on (regexes as documented in the anchor)."""
    x86 = len(re.findall(r"%[xyz]mm[0-9]", text)) + len(re.findall(r"%[er][abcd]x[0-9]", text))
    a64 = len(re.findall(r"[vz][0-9][0-9]?\.[0-9][0-9]?[bhsd]", text)) + len(re.findall(r"[wx][0-9]", text))
    return x86, a64


def run_case(case):
    """case: dict(name, text, arch|None, fixed, ignore_unknown, lines|None, marked|None) -> result dict"""
    d = tempfile.mkdtemp(prefix="c13case.", dir=case.get("scratch"))
    src = os.path.join(d, "k.s")
    yml = os.path.join(d, "out.yml")
    with open(src, "w") as f:
        f.write(case["text"])
    argv = []
    if case.get("arch"):
        argv += ["--arch", case["arch"]]
    if case.get("fixed"):
        argv += ["--fixed"]
    if case.get("ignore_unknown"):
        argv += ["--ignore-unknown"]
    if case.get("lines"):
        argv += ["--lines", case["lines"]]
    argv += ["--lcd-timeout", str(case.get("lcd_timeout", 10)), "--yaml-out", yml, src]
    res = dict(name=case["name"], argv=argv[:-3], facts=request_facts(case), counts=isa_counts(case["text"]))
    if not case.get("arch"):
        # does the parser of the detected ISA accept the file?  (inspect falls back to the other ISA if not)
        from osaca.parser import get_parser
        setup()
        try:
            get_parser("aarch64" if res["counts"][1] > res["counts"][0] else "x86").parse_file(case["text"])
            res["first_parse_ok"] = True
        except Exception:
            res["first_parse_ok"] = False
    try:
        text, err = run_osaca(argv)
        res["error"] = err
        if err is None:
            res["report"] = text
            res["snap"] = snapshot()
            try:
                # translation tie: the objects the frontend received + what its methods return on them (harness/c13_tie.py)
                import zlib
                import c13_tie
                dg = _captured["dg"]
                h = zlib.crc32(case["name"].encode())
                res["tie"] = c13_tie.snapshot(_captured["frontend"], _captured["kernel"], dg.get_critical_path(),
                                              dg.get_loopcarried_dependencies(), bool(case.get("ignore_unknown")),
                                              [bool(h & 1), bool(h & 2), bool(h & 4)])
            except Exception as e:  # noqa
                res["tie"] = {"error": "%s: %s" % (type(e).__name__, e)}
            try:
                res["tok"] = tokenise(text)
            except Layout as e:
                res["layout_error"] = str(e)
            try:
                res["yaml"] = load_yaml(yml)
            except Layout as e:
                res["layout_error"] = "yaml: " + str(e)
    finally:
        import shutil
        shutil.rmtree(d, ignore_errors=True)
    return res


def shipped_kernels():
    fs = sorted(glob.glob(os.path.join(vlib.REPO, "examples", "*", "*.s")) + glob.glob(os.path.join(vlib.REPO, "tests", "test_files", "*.s")))
    return [f for f in fs if not f.endswith(".copy.s")]


def isa_of_file(path, text):
    b = os.path.basename(path)
    if any(t in b for t in ("aarch64", "tx2", "arm", "a64fx")):
        return "aarch64"
    if any(t in b for t in ("x86", "csx", "zen", "icl", "skx")):
        return "x86"
    x, a = isa_counts(text)
    return "aarch64" if a > x else "x86"
