"""C03 / C06, translation tie (T) for the dependency predicates of osaca/semantics/kernel_dg.py:
regenerate -> compile -> re-prove -> cross-check of the translator.

  1. tools/gen_deps.py translates the CURRENT source of KernelDG.is_read / is_written / is_memstore / is_memload /
     _update_reg_changes / find_depending (and both parsers' is_flag_dependend_of) into coq/Gen/DepsGen.v (fail closed);
  2. coq/PropsGen/C03deps.v (and C06deps.v for C06) re-prove, against that text, that the regenerated functions are the hand
     model's (Model/Deps.v) on every input of the model's types, and restate the C03 / C06 theorems for them;
  3. the regenerated Gallina is evaluated (vm_compute) on DUMPS OF THE REAL OBJECTS of the check's kernels and compared with
     what the Python methods themselves return (results and exception classes) -- this validates the translator and its
     prelude; the same calls are evaluated on the EMBEDDING of the harness' model serialisation (deps.serialise), which
     validates the embedding the theorems quantify over.

One call from checks/c03.py / c06.py: deps_gen.run(ctx, items, props).  coq/Gen and coq/PropsGen are shared between
concurrent runs (C03 next to C06, a mutant tree under VERIF_REPO next to the unchanged tree): the stage holds a file lock."""
import copy
import fcntl
import os
import random
import time

import vlib
import deps
import gen_deps
import gen_c12
from vlib import coq_string as cs

GEN = gen_deps.GEN
TRANSIENT = ("inconsistent assumptions", "bad magic number", "is corrupted", "truncated", "End_of_file", "Unable to locate library",
             "Cannot find a physical path")      # a concurrent check is rewriting a .vo this compilation reads


def transient(out):
    return any(t in out for t in TRANSIENT)


ERR = {"AttributeError": "EAttribute", "KeyError": "EKey", "TypeError": "EType", "ValueError": "EValue", "IndexError": "EIndex"}


# ------------------------------------------------------------------ dump of real objects as Model/DepsDyn.pv terms
class Dumper:
    """one per kernel: MemoryOperand ==-classes are numbered over the kernel with the implementation's own =="""

    def __init__(self, sem):
        self.sem = sem
        self.mems = []
        self.bad = None

    def memkey(self, m):
        for i, o in enumerate(self.mems):
            if o == m:
                return i
        self.mems.append(m)
        return len(self.mems) - 1

    def val(self, v):
        """plain Python data: None, bool, int, str, dict with str keys, list/tuple"""
        from osaca.parser.operand import Operand
        if v is None:
            return "VNone"
        if isinstance(v, bool):
            return "(VBool %s)" % ("true" if v else "false")
        if isinstance(v, int):
            return "(VInt (%d)%%Z)" % v
        if isinstance(v, str):
            if not all(32 <= ord(c) < 127 for c in v):
                self.bad = "non-ASCII string"
                return "VNone"
            return "(VStr %s)" % cs(v)
        if isinstance(v, Operand):
            return self.opnd(v)
        if isinstance(v, dict) or hasattr(v, "keys") and hasattr(v, "__getitem__") and not isinstance(v, (list, tuple)):
            items = []
            for k in v.keys():
                if not isinstance(k, str):
                    self.bad = "dict with a non-str key"
                    continue
                items.append("(%s, %s)" % (cs(k), self.val(v[k])))
            return "(VDict [%s])" % "; ".join(items)
        if isinstance(v, list):
            return "(VList [%s])" % "; ".join(self.val(x) for x in v)
        if isinstance(v, tuple):
            return "(VTuple [%s])" % "; ".join(self.val(x) for x in v)
        self.bad = "value of type %s" % type(v).__name__
        return "(VObj C_Other [])"

    def opnd(self, o):
        from osaca.parser.register import RegisterOperand
        from osaca.parser.memory import MemoryOperand
        from osaca.parser.flag import FlagOperand
        from osaca.parser.immediate import ImmediateOperand
        from osaca.parser.identifier import IdentifierOperand
        if o is None:
            return "VNone"
        if type(o) is RegisterOperand:
            return "(VObj C_RegisterOperand [(A_name, %s); (A_prefix, %s); (A_pre_indexed, %s); (A_post_indexed, %s)])" % (
                self.val(o.name), self.val(o.prefix), self.val(o.pre_indexed), self.val(o.post_indexed))
        if type(o) is FlagOperand:
            return "(VObj C_FlagOperand [(A_name, %s)])" % self.val(o.name)
        if type(o) is MemoryOperand:
            return ("(VObj C_MemoryOperand [(A_offset, %s); (A_base, %s); (A_index, %s); (A_scale, %s); (A_pre_indexed, %s); "
                    "(A_post_indexed, %s); (A_eqkey, (VInt (%d)%%Z))])") % (
                self.opnd_or_val(o.offset), self.opnd_or_val(o.base), self.opnd_or_val(o.index), self.val(o.scale),
                self.val(o.pre_indexed), self.val(o.post_indexed), self.memkey(o))
        if type(o) is ImmediateOperand:
            v = o.value
            if isinstance(v, float):
                self.bad = "float immediate"
                v = None
            return "(VObj C_ImmediateOperand [(A_value, %s)])" % self.val(v)
        if type(o) is IdentifierOperand:
            return "(VObj C_IdentifierOperand [(A_name, %s)])" % self.val(o.name if isinstance(o.name, str) else None)
        return "(VObj C_Other [])"

    def opnd_or_val(self, x):
        from osaca.parser.operand import Operand
        return self.opnd(x) if x is None or isinstance(x, Operand) else self.val(x)

    def line(self, inst):
        so = inst.semantic_operands
        if so is None:
            sem = "VNone"
        else:
            sem = "(VDict [%s])" % "; ".join("(%s, (VList [%s]))" % (cs(k), "; ".join(self.opnd(o) for o in so[k])) for k in so.keys())
        try:
            chg = self.val(self.sem.get_reg_changes(inst))
            chgp = self.val(self.sem.get_reg_changes(inst, only_postindexed=True))
        except Exception as e:  # noqa
            self.bad = "get_reg_changes raises %r" % e
            chg = chgp = "(VDict [])"
        return "(VObj C_InstructionForm [(A_semantic_operands, %s); (A_line_number, %s); (A_reg_changes, %s); (A_reg_changes_post, %s)])" % (
            sem, self.val(inst.line_number), chg, chgp)


def expect(f, render):
    try:
        return "(DOk %s)" % render(f())
    except Exception as e:  # noqa
        return "(DErr %s)" % ERR.get(type(e).__name__, "EUnmodelled (* %s *)" % type(e).__name__)


def vbool(b):
    if not isinstance(b, bool):
        raise AssertionError("predicate returned %r" % (b,))
    return "(VBool %s)" % ("true" if b else "false")


# ------------------------------------------------------------------ cases of one kernel
def kernel_cases(rng, kernel, dg, sem, budget):
    """returns (definitions text, [case text], histogram) -- case text: `(computed, expected)` of type dres pv * dres pv"""
    from osaca.parser.register import RegisterOperand
    from osaca.parser.memory import MemoryOperand
    from osaca.parser.flag import FlagOperand
    D = Dumper(sem)
    instrs = list(kernel)
    names = ["l%d" % i for i in range(len(instrs))]
    defs = ["Definition %s : pv := %s." % (n, D.line(i)) for n, i in zip(names, instrs)]
    if D.bad:
        return None, [], {"skipped": D.bad}
    hist = {"find_depending": 0, "reports": 0, "is_read": 0, "is_written": 0, "is_memload": 0, "is_memstore": 0, "update": 0,
            "true": 0, "storeload": 0}
    cases = []
    starts = list(range(len(instrs)))
    rng.shuffle(starts)
    for i in starts[:budget]:
        A, rest = instrs[i], instrs[i + 1:]
        restn = "(VList [%s])" % "; ".join(names[i + 1:])
        for fd in (False, True):
            def call():
                return list(dg.find_depending(A, rest, flag_dependencies=fd))

            def render(reps):
                hist["reports"] += len(reps)
                hist["storeload"] += sum(1 for _, f in reps if "storeload_dep" in f)
                return "(VList [%s])" % "; ".join("(VTuple [%s; (VList [%s])])" % (D.val(r.line_number), "; ".join(D.val(x) for x in f)) for r, f in reps)
            cases.append("(proj_reports (G_find_depending %s %s (VBool %s)), %s)" % (names[i], restn, "true" if fd else "false", expect(call, render)))
            hist["find_depending"] += 1
        # the predicates directly: destinations and sources of A as `register`, memory destinations as `mem`
        so = A.semantic_operands
        if so is None:
            continue
        opnds = list(so["destination"]) + list(so["src_dst"]) + list(so["source"])
        targets = rest[:3]
        state = dg._update_reg_changes(A)
        dg._update_reg_changes(A, state, only_postindexed=True)
        for j, B in enumerate(targets):
            bn = names[i + 1 + j]
            before = copy.deepcopy(state)
            for post in (False, True):
                st = copy.deepcopy(before)
                cases.append("(upd_result (G_update_reg_changes %s %s (VBool %s)), %s)" % (
                    bn, D.val(before), "true" if post else "false",
                    expect(lambda: dg._update_reg_changes(B, st, only_postindexed=post), lambda r: D.val(r))))
                hist["update"] += 1
            dg._update_reg_changes(B, state)
            for o in opnds:
                if isinstance(o, (RegisterOperand, FlagOperand)):
                    for nm, meth in (("is_read", dg.is_read), ("is_written", dg.is_written)):
                        def r(b):
                            hist["true"] += bool(b)
                            return vbool(b)
                        cases.append("(G_%s %s %s, %s)" % (nm, D.opnd(o), bn, expect(lambda: meth(o, B), r)))
                        hist[nm] += 1
                if isinstance(o, MemoryOperand):
                    st = copy.deepcopy(state)

                    def r(b):
                        hist["true"] += bool(b)
                        return vbool(b)
                    cases.append("(G_is_memload %s %s %s, %s)" % (D.opnd(o), bn, D.val(st), expect(lambda: dg.is_memload(o, B, st), r)))
                    cases.append("(G_is_memstore %s %s %s, %s)" % (D.opnd(o), bn, D.val(st), expect(lambda: dg.is_memstore(o, B, st), r)))
                    hist["is_memload"] += 1
                    hist["is_memstore"] += 1
            dg._update_reg_changes(B, state, only_postindexed=True)
    if D.bad:
        return None, [], {"skipped": D.bad}
    return "\n".join(defs), cases, hist


SHARD = """From Coq Require Import ZArith List Bool String PrimFloat.
From OV Require Import Model.Num Model.Pressure Model.PyString Model.RegRec Model.Deps Model.DepsDyn Gen.RegDepX86 Gen.RegDepA64 Gen.DepsGen.
Import ListNotations.
Open Scope string_scope.
Set Printing Width 100000. Set Printing Depth 100000.
Definition arch_ : pv := VObj C_Other [].
(* a report as (line number, flags) *)
Definition proj_reports (r : dres pv) : dres pv :=
  dbind r (fun v => match v with
    | VList l => DOk (VList (map (fun x => match x with
                                           | VTuple [f; fl] => match py_getattr f A_line_number with DOk n => VTuple [n; fl] | DErr _ => VNone end
                                           | _ => VNone end) l))
    | _ => DErr EUnmodelled end).
(* _update_reg_changes: the returned dict, which must also be the final state of the dict passed in *)
Definition upd_result (r : dres (pv * pv)) : dres pv :=
  dbind r (fun p => if pv_eqb (fst p) (snd p) then DOk (fst p) else DErr EAlias).
Definition bad (l : list (dres pv * dres pv)) : string :=
  String.concat "," (map (fun p => string_of_nat (fst p)) (filter (fun p => negb (dres_eqb (fst (snd p)) (snd (snd p)))) (combine (seq 0 (List.length l)) l))).
"""

MODULE = """Module K%d.
Definition G_is_read := g_is_read %s %s.
Definition G_is_written := g_is_written %s %s.
Definition G_is_memload := g_is_memload.
Definition G_is_memstore := g_is_memstore.
Definition G_update_reg_changes := g_update_reg_changes arch_.
Definition G_find_depending := g_find_depending %s %s arch_.
%s
Definition cases : list (dres pv * dres pv) := [
%s].
End K%d.
"""


def cross_check(ctx, items):
    """items: [(kernel, dg, isa, sem, origin)] -- real objects of the check's own kernels"""
    rng = random.Random("depsgen/%s/%s" % (ctx.prop, ctx.seed))
    items = list(items)
    rng.shuffle(items)
    maxk = ctx.n(120, 1200)
    per_kernel = ctx.n(3, 8)
    mods, all_cases, hist = [], [], {}
    skipped = {}
    for kernel, dg, isa, sem, origin in items:
        if len(mods) >= maxk:
            break
        if len(kernel) > 40 or len(kernel) < 2:
            continue
        try:
            defs, cases, h = kernel_cases(rng, kernel, dg, sem, per_kernel)
        except AssertionError as e:
            ctx.obligation("translator cross-check: a dependency predicate returned a non-bool (%s)" % origin, "correspondence", False, str(e))
            continue
        if defs is None:
            skipped[h.get("skipped", "?")] = skipped.get(h.get("skipped", "?"), 0) + 1
            continue
        for k, v in h.items():
            hist[k] = hist.get(k, 0) + v
        pr, pf = ("px_", "g_x86_is_flag_dependend_of") if isa == "x86" else ("pa_", "g_a64_is_flag_dependend_of")
        k = len(mods)
        mods.append((k, MODULE % (k, pr, pf, pr, pf, pr, pf, defs, ";\n".join(cases), k), cases, origin))
    if not mods:
        ctx.obligation("translator cross-check: no kernel available", "correspondence", False, str(skipped))
        return
    per_shard = 4
    shards = []
    groups = [mods[i:i + per_shard] for i in range(0, len(mods), per_shard)]
    for gi, g in enumerate(groups):
        text = SHARD + "Definition px_ := pdep_of x86_is_reg_dependend_of.\nDefinition pa_ := pdep_of a64_is_reg_dependend_of.\n"
        text += "\n".join(m[1] for m in g)
        text += "Eval vm_compute in (%s)." % (' ++ "|" ++ '.join("bad K%d.cases ++ \"/\" ++ string_of_nat (List.length K%d.cases)" % (m[0], m[0]) for m in g))
        shards.append(("depsgen_%s_%03d" % (ctx.prop, gi), text))
    res = ctx.coq_eval_many(shards, timeout=600)
    details, total = [], 0
    for g, (ok, out) in zip(groups, res):
        if not ok or not out:
            details.append("shard failed to evaluate: %s" % (out[0][-1500:] if out else "no output"))
            continue
        parts = out[0].split("|")
        if len(parts) != len(g):
            details.append("shard output malformed: %r" % out[0][:300])
            continue
        for (k, _, cases, origin), part in zip(g, parts):
            b, n = part.split("/")
            if n != str(len(cases)):
                details.append("case count differs for %s" % origin)
                continue
            total += len(cases)
            for i in [int(x) for x in b.split(",") if x]:
                details.append("%s: translated Gallina != Python on %s" % (origin, cases[i][:700]))
    ctx.count(total)
    ctx.coverage["depsgen_crosscheck"] = dict(hist, kernels=len(mods), cases=total, skipped=skipped)
    ctx.obligation("translator cross-check: regenerated Gallina (vm_compute on dumps of the real objects) = Python find_depending / is_read / "
                   "is_written / is_memload / is_memstore / _update_reg_changes on %d calls over %d kernels (exceptions included)" % (total, len(mods)),
                   "correspondence", not details and total > 0, "\n".join(details[:6]))


# ------------------------------------------------------------------ embedding check: the model serialisation, embedded, behaves like the real objects
EMB_SHARD = deps.SHARD_HEADER.replace("Model.Roles Gen.RegDepX86 Gen.RegDepA64.", "Model.Roles Model.DepsDyn Gen.RegDepX86 Gen.RegDepA64 Gen.DepsGen.") + """
Definition arch_ : pv := VObj C_Other [].
Definition px_ := pdep_of x86_is_reg_dependend_of.
Definition pa_ := pdep_of a64_is_reg_dependend_of.
Definition reps_eqb (a : dres pv) (e : list (nat * list string)) : bool :=
  match a with
  | DOk (VList l) =>
    andb (Nat.eqb (List.length l) (List.length e))
         (forallb (fun p => match fst p with
                            | VTuple [f; VList fl] =>
                              match py_getattr f A_line_number with
                              | DOk (VInt n) => andb (Z.eqb n (Z.of_nat (fst (snd p))))
                                                     (pv_eqb (VList fl) (VList (map VStr (snd (snd p)))))
                              | _ => false end
                            | _ => false end) (combine l e))
  | _ => false
  end.
Definition run (x86 : bool) (k : list (line (T:=float))) (i : nat) (fd : bool) : dres pv :=
  match skipn i k with
  | A :: rest => (if x86 then g_find_depending px_ g_x86_is_flag_dependend_of else g_find_depending pa_ g_a64_is_flag_dependend_of)
                   arch_ (emb_line A) (VList (map emb_line rest)) (VBool fd)
  | [] => DErr EIndex
  end.
Definition bad (x86 : bool) (k : list (line (T:=float))) (cs : list (nat * bool * list (nat * list string))) : string :=
  String.concat "," (map (fun p => string_of_nat (fst p))
     (filter (fun p => let '(i, fd, e) := snd p in negb (reps_eqb (run x86 k i fd) e)) (combine (seq 0 (List.length cs)) cs))).
"""


def embedding_check(ctx, items):
    """find_depending on emb_line(deps.serialise(kernel)) = Python, for the same kernels"""
    rng = random.Random("depsemb/%s/%s" % (ctx.prop, ctx.seed))
    items = list(items)
    rng.shuffle(items)
    maxk = ctx.n(120, 1200)
    chunks = []
    for kernel, dg, isa, sem, origin in items:
        if len(chunks) >= maxk:
            break
        if len(kernel) > 40 or len(kernel) < 2:
            continue
        try:
            lines = deps.serialise(kernel, sem)
        except Exception:  # noqa
            continue
        instrs = list(kernel)
        cs_ = []
        for i in rng.sample(range(len(instrs)), min(len(instrs), ctx.n(3, 8))):
            for fd in (False, True):
                try:
                    reps = list(dg.find_depending(instrs[i], instrs[i + 1:], flag_dependencies=fd))
                except Exception:  # noqa
                    continue
                cs_.append("(%d%%nat, %s, [%s])" % (i, "true" if fd else "false", "; ".join(
                    "(%d%%nat, [%s])" % (r.line_number, "; ".join(cs(x) for x in f)) for r, f in reps)))
        chunks.append((isa, deps.coq_kernel(lines), cs_, origin))
    if not chunks:
        return
    per = 6
    groups = [chunks[i:i + per] for i in range(0, len(chunks), per)]
    shards = []
    for gi, g in enumerate(groups):
        text = EMB_SHARD
        for j, (isa, k, cs_, origin) in enumerate(g):
            text += "Definition k%d : list (line (T:=float)) :=\n  %s.\nDefinition c%d : list (nat * bool * list (nat * list string)) := [%s].\n" % (j, k, j, ";\n  ".join(cs_))
        text += "Eval vm_compute in (%s)." % (' ++ "|" ++ '.join('bad %s k%d c%d' % ("true" if isa == "x86" else "false", j, j) for j, (isa, _, _, _) in enumerate(g)))
        shards.append(("depsemb_%s_%03d" % (ctx.prop, gi), text))
    res = ctx.coq_eval_many(shards, timeout=600)
    details, total = [], 0
    for g, (ok, out) in zip(groups, res):
        if not ok or not out:
            details.append("shard failed to evaluate: %s" % (out[0][-1500:] if out else "no output"))
            continue
        parts = out[0].split("|")
        for (isa, k, cs_, origin), part in zip(g, parts):
            total += len(cs_)
            for i in [int(x) for x in part.split(",") if x]:
                details.append("%s: find_depending on the embedded model serialisation differs from Python: case %s" % (origin, cs_[i][:300]))
    ctx.count(total)
    ctx.coverage["depsgen_embedding_check"] = {"kernels": len(chunks), "calls": total}
    ctx.obligation("embedding check: regenerated find_depending on emb_line(harness serialisation of the model's inputs) = Python on %d calls "
                   "over %d kernels" % (total, len(chunks)), "correspondence", not details and total > 0, "\n".join(details[:6]))


# ------------------------------------------------------------------ stage
def compile_gen(ctx, gendir):
    """(re)compile Gen/RegDep*.v and Gen/DepsGen.v; returns ok"""
    gen12 = gen_c12.generate(vlib.REPO, gendir)
    ok12 = True
    for fn, (ok, _) in gen12.items():
        c = False
        if ok:
            c, out, _ = ctx.coqc(os.path.join(gendir, fn))
        ok12 = ok12 and ok and c
    return ok12


def run(ctx, items, props):
    """items: [(kernel, dg, isa, sem, origin)]; props: PropsGen files to compile, in dependency order"""
    t0 = time.time()
    ctx.trusted += ["translator tools/gen_deps.py (fail-closed, syntax-directed, dynamically typed: Model/DepsDyn.v holds the value universe, "
                    "the prelude operations and the embedding of the hand model's operand types; value semantics of dicts is guarded by "
                    "EAlias checks that the equality proofs discharge); validated every run against CPython on dumps of the real objects",
                    "embedding emb_* of Model/DepsDyn.v = how harness/deps.py serialises the real operand objects (pre/post-index marks as "
                    "booleans, == of memory operands as a class key, results of get_reg_changes as attributes of the line)",
                    "is_reg_dependend_of enters the regenerated predicates as a function on values built from property C12's regenerated "
                    "typed definition (pdep_of); asked about a flag it answers False (flag names are not register names)"]
    ctx.assumptions += ["a memory operand with address write-back has a base register (wf_line; without it is_written raises where the "
                        "hand model answers False -- theorem C03gen_is_written_raises_on_write_back_without_base)"]
    gendir = os.path.join(vlib.COQ, "Gen")
    os.makedirs(gendir, exist_ok=True)
    with open(os.path.join(gendir, ".depsgen.lock"), "w") as lf:
        fcntl.flock(lf, fcntl.LOCK_EX)
        gen = gen_deps.generate(vlib.REPO, gendir)
        ok, text = gen[GEN]
        ctx.obligation("translate is_read, is_written, is_memstore, is_memload, _update_reg_changes, find_depending (kernel_dg.py) and "
                       "is_flag_dependend_of (both parsers) from the current source (Gen/%s)" % GEN, "translation", ok, "" if ok else text)
        compiled = False
        if ok:
            for attempt in range(3):
                compiled, out, dt = ctx.coqc(os.path.join(gendir, GEN))
                if compiled or not transient(out):
                    break
                time.sleep(5)            # another check is rebuilding the static development
                ctx.ensure_static()
            ctx.obligation("generated Gen/%s type-checks" % GEN, "translation", compiled, out)
            ctx.log("coqc Gen/%s: %s in %.1fs" % (GEN, "ok" if compiled else "FAILED", dt))
        if ok and compiled:
            good = True
            for i, p in enumerate(props):
                if not good:
                    ctx.obligation("theorems of %s" % p, "theorem", False, "a file it depends on does not compile")
                    continue
                okp, outp = ctx.compile_theorems(p)
                if not okp and transient(outp):
                    # Gen/RegDep*.vo was rewritten by a concurrent check between our compilations: rebuild and retry once
                    ctx.obligations = [o for o in ctx.obligations if not (o["kind"] == "theorem" and ("(%s)" % p) in o["name"])]
                    compile_gen(ctx, gendir)
                    ctx.coqc(os.path.join(gendir, GEN))
                    for q in props[:i]:
                        ctx.coqc(os.path.join(vlib.COQ, q))
                    okp, outp = ctx.compile_theorems(p)
                good = good and okp
            cross_check(ctx, items)
            embedding_check(ctx, items)
        else:
            for p in props:
                ctx.obligation("theorems of %s (regenerated dependency predicates = hand model)" % p, "theorem", False,
                               "generated definitions unavailable")
    ctx.log("translation tie for the dependency predicates (regenerate, compile, re-prove, cross-check): %.1fs" % (time.time() - t0))
