"""C08 harness: drives the real ArchSemantics.assign_tp_lt, records the look-up results it consumes
(the inputs of Model/Costing.v), renders cases as Gallina, and recomputes the property independently.

A *case* is one costed instruction:
  {"isa", "ports", "ld_lat", "ld_mult", "st_mult", "lk": {...}|"noinstr", "exp": [...], "text": ..., "origin": ...}
"""
import copy
import os
from fractions import Fraction as F

import vlib
from pressure import flit

FLAG_NAMES = {"performs_load": "F_HAS_LD", "performs_store": "F_HAS_ST", "is_load_instruction": "F_LD",
              "tp_unknown": "F_TP_UNKWN", "lt_unknown": "F_LT_UNKWN", "not_bound": "F_NOT_BOUND"}
FLAG_ORDER = ["F_HAS_LD", "F_HAS_ST", "F_LD", "F_TP_UNKWN", "F_LT_UNKWN", "F_NOT_BOUND"]
ERRS = {"IndexError": "EIndex", "ValueError": "EValue", "KeyError": "EKey", "TypeError": "EType"}


class Unmodelled(Exception):
    """the look-up results are outside the vocabulary of Model/Costing.v (reported, never silently dropped)"""


def num(x):
    if isinstance(x, bool) or not isinstance(x, (int, float)):
        raise Unmodelled("not a number: %r" % (x,))
    return float(x)


def canon_uops(us):
    """list of [cycles, ports] -> [[float, [names]]] ; ports may be a string (one name per character)"""
    out = []
    if not isinstance(us, (list, tuple)):
        raise Unmodelled("micro-op list is %r" % (us,))
    for u in us:
        if not isinstance(u, (list, tuple)) or len(u) != 2:
            raise Unmodelled("micro-op %r" % (u,))
        c, ps = u
        if not isinstance(ps, (str, list, tuple)) or not all(isinstance(p, str) for p in ps):
            raise Unmodelled("port collection %r" % (ps,))
        out.append([num(c), [str(p) for p in ps]])
    return out


def entry_json(e):
    pp = e.port_pressure
    if isinstance(pp, dict):
        keys = list(pp.keys())
        if keys != list(range(len(keys))) or not keys:
            raise Unmodelled("alternative keys %r" % (keys,))
        uops = {"dict": [canon_uops(pp[k]) for k in keys]}
    else:
        uops = {"list": canon_uops(pp)}
    return {"tp": None if e.throughput is None else num(e.throughput),
            "lt": None if e.latency is None else num(e.latency), "uops": uops}


def table_json(t):
    if t is None:
        return None
    return [[str(k), None if v is None else num(v)] for k, v in dict(t).items()]


def machine_json(mm):
    d = mm._data
    return {"isa": d["isa"].lower(), "ports": [str(p) for p in d["ports"]],
            "ld_lat": table_json(d["load_latency"]),
            "ld_mult": table_json(d["load_throughput_multiplier"]) if "load_throughput_multiplier" in d else None,
            "st_mult": table_json(d["store_throughput_multiplier"]) if "store_throughput_multiplier" in d else None}


def observe(mm, sem, form):
    """The look-ups assign_tp_lt performs, through the implementation's own functions."""
    from osaca.parser.memory import MemoryOperand
    from osaca.parser.register import RegisterOperand
    if form.mnemonic is None:
        return "noinstr"
    isa = sem._isa
    mn = form.mnemonic
    ops = form.operands
    flags = list(form.flags)
    suffix = (mn[-1] in "bswlqt") if isa == "x86" else ("." in mn)
    stripped = (mn[:-1] if isa == "x86" else mn[:mn.index(".")]) if suffix else None
    lk = {"has_ld": "performs_load" in flags, "has_st": "performs_store" in flags, "suffix": suffix,
          "direct": None, "direct_s": None, "reg": None, "reg_s": None, "ld_rows": [], "st_rows": [],
          "dest_has_mem": False, "srcdst_wb": []}
    d = mm.get_instruction(mn, ops)
    lk["direct"] = entry_json(d) if d is not None else None
    if suffix:
        d = mm.get_instruction(stripped, ops)
        lk["direct_s"] = entry_json(d) if d is not None else None
    if not (lk["has_ld"] or lk["has_st"]):
        return lk
    sub = sem.substitute_mem_address(ops)
    wild = sem._create_reg_wildcard()

    def regform(name):
        e = mm.get_instruction(name, sub)
        if e is None:
            return None, None
        try:
            rt = sem._parser.get_reg_type(e.operands[sub.index(wild)])
        except Exception as ex:  # noqa
            return [entry_json(e), {"err": ERRS.get(type(ex).__name__, "E?")}], None
        if not isinstance(rt, str):
            raise Unmodelled("reg_type %r" % (rt,))
        return [entry_json(e), rt], rt

    lk["reg"], rt1 = regform(mn)
    rt2 = None
    if suffix:
        lk["reg_s"], rt2 = regform(stripped)
    chosen = lk["reg"] if lk["reg"] is not None else lk["reg_s"]
    rt = rt1 if lk["reg"] is not None else rt2
    so = form.semantic_operands
    lk["dest_has_mem"] = any(isinstance(o, MemoryOperand) for o in so["destination"])
    lk["srcdst_wb"] = [bool(o.post_indexed or o.pre_indexed) for o in so["src_dst"] if isinstance(o, MemoryOperand)]
    if chosen is None or rt is None:
        return lk
    dummy = RegisterOperand(name=rt)
    if lk["has_ld"]:
        mems = [o for o in so["source"] + so["src_dst"] if isinstance(o, MemoryOperand)]
        if mems:
            for pat, us in mm.get_load_throughput(mems[0]):
                dst = pat.dst
                ok = bool(mm._check_operands(dummy, RegisterOperand(name=dst))) if dst is not None else False
                lk["ld_rows"].append([dst, ok, canon_uops(us)])
    if lk["has_st"]:
        mems = [o for o in so["destination"] + so["src_dst"] if isinstance(o, MemoryOperand)]
        if mems:
            for pat, us in mm.get_store_throughput(mems[0], dummy):
                lk["st_rows"].append(canon_uops(us))
            # for the oracle only: the rows of this addressing shape BEFORE the source-type filter, and the default
            lk["st_shape"] = []
            for pat, us in mm.get_store_throughput(mems[0]):
                if pat is mems[0]:
                    continue                               # the default row (no row of this shape)
                src = pat.src
                ok = bool(mm._check_operands(dummy, RegisterOperand(name=src))) if src is not None else False
                lk["st_shape"].append([src, ok, canon_uops(us)])
            lk["st_default"] = canon_uops(mm._data["store_throughput_default"])
    return lk


def out_uops(pu):
    if isinstance(pu, dict):
        return ["dict", [canon_uops(v) for v in pu.values()]]
    pu = list(pu)
    n = 0
    while n < len(pu) and isinstance(pu[n], int):
        n += 1
    if n:
        return ["keys", n, canon_uops(pu[n:])]
    return ["list", canon_uops(pu)]


def run_impl(sem, form):
    """assign_tp_lt on the real implementation; canonical result"""
    import warnings
    try:
        with warnings.catch_warnings():
            warnings.simplefilter("ignore")
            sem.assign_tp_lt(form)
    except (IndexError, ValueError, KeyError, TypeError) as e:
        return ["err", ERRS[type(e).__name__], repr(e)[:200]]
    fl = sorted(set(FLAG_NAMES[f] for f in form.flags if f in FLAG_NAMES), key=FLAG_ORDER.index)
    return ["ok", {"uops": out_uops(form.port_uops), "pp": [num(x) for x in form.port_pressure],
                   "lat": num(form.latency), "lat_wo": num(form.latency_wo_load), "tp": num(form.throughput),
                   "flags": fl}]


def tables_snapshot(mm):
    d = mm._data
    return repr([[(repr(vars(p)), us) for p, us in d.get("load_throughput", [])], d.get("load_throughput_default"),
                 [(repr(vars(p)), us) for p, us in d.get("store_throughput", [])], d.get("store_throughput_default")])


def reg_types_for(mm, lk):
    """source-register types the store getter is probed with: the one assign_tp_lt uses, the types the store table names,
    and one class that is certainly a register class of the ISA"""
    out = []
    if isinstance(lk, dict):
        r = lk["reg"] if lk["reg"] is not None else lk["reg_s"]
        if r is not None and isinstance(r[1], str):
            out.append(r[1])
    for pat, _ in mm._data["store_throughput"]:
        if isinstance(pat.src, str):
            out.append(pat.src)
    out.append("gpr" if mm._data["isa"].lower() == "x86" else "x")
    seen = []
    for t in out:
        if t not in seen:
            seen.append(t)
    return seen[:3]


def observe_q(mm, form, lk):
    """the memory operands assign_tp_lt hands to the getters (first of source+src_dst / destination+src_dst) and, for every
    memory operand of the instruction, what the implementation's getters answer (the expected values of Model/Rows.v)"""
    import c08_rows as R
    from osaca.parser.memory import MemoryOperand
    if form.mnemonic is None:
        return None, []
    so = form.semantic_operands
    lds = [o for o in so["source"] + so["src_dst"] if isinstance(o, MemoryOperand)]
    sts = [o for o in so["destination"] + so["src_dst"] if isinstance(o, MemoryOperand)]
    q = {"ld": R.mem_json(lds[0]) if lds else None, "st": R.mem_json(sts[0]) if sts else None}
    mems = []
    for o in lds[:1] + sts[:1] + [o for o in form.operands if isinstance(o, MemoryOperand)]:
        if not any(o is x for x in mems):
            mems.append(o)
    rts = reg_types_for(mm, lk)
    return q, [R.observe_rows(mm, o, rts) for o in mems]


def cost_case(mm, sem, form, text="", origin=""):
    """observe + run on the SAME objects (the official result of costing this line in this history)"""
    import c08_rows as R
    case = machine_json(mm)
    case["text"] = text
    case["origin"] = origin
    case["tables"] = R.tables_json(mm)
    # YAML-level rows for the oracle: here what the in-process patterns say (synthetic worlds build them directly);
    # for shipped models the check replaces this by the rows of the model FILE
    case["yrows"] = {"load_throughput": R.yaml_rows_from_patterns(mm._data["load_throughput"], "dst"),
                     "store_throughput": R.yaml_rows_from_patterns(mm._data["store_throughput"], "src")}
    case["lk"] = observe(mm, sem, form)
    case["q"], case["rowobs"] = observe_q(mm, form, case["lk"])
    import c08_tie                      # translator tie: form snapshot + get_instruction / get_reg_type answers
    case["exp"], case["tie"] = c08_tie.record(mm, sem, form, lambda: run_impl(sem, form))
    return case


# ------------------------------------------------------------------ Gallina rendering
def cs(s):
    return vlib.coq_string(s)


def c_uop(u):
    return "(%s, [%s])" % (flit(u[0]), "; ".join(cs(p) for p in u[1]))


def c_uoplist(us):
    return "[" + "; ".join(c_uop(u) for u in us) + "]"


def c_opt(x, f):
    return "None" if x is None else "(Some %s)" % f(x)


def c_entry(e):
    u = e["uops"]
    uo = "(UList %s)" % c_uoplist(u["list"]) if "list" in u else "(UDict [%s])" % "; ".join(c_uoplist(a) for a in u["dict"])
    return "(mkentry %s %s %s)" % (c_opt(e["tp"], flit), c_opt(e["lt"], flit), uo)


def c_reg(r):
    e, rt = r
    rts = "(Err %s)" % rt["err"] if isinstance(rt, dict) else "(Ok %s)" % cs(rt)
    return "(%s, %s)" % (c_entry(e), rts)


def c_bool(b):
    return "true" if b else "false"


def c_table(t, opt=False):
    return "[" + "; ".join("(%s, %s)" % (cs(k), c_opt(v, flit) if opt else flit(v)) for k, v in t) + "]"


def c_mach(c):
    for t in (c["ld_mult"], c["st_mult"]):
        if t is not None and any(v is None for _, v in t):
            raise Unmodelled("multiplier None")
    return "(mkmach %s [%s] %s %s %s)" % (
        "X86" if c["isa"] == "x86" else "A64", "; ".join(cs(p) for p in c["ports"]), c_table(c["ld_lat"], True),
        c_opt(c["ld_mult"], c_table), c_opt(c["st_mult"], c_table))


def c_lookup(lk, rows=True):
    return "(mklookup %s %s %s %s %s %s %s [%s] [%s] %s [%s])" % (
        c_bool(lk["has_ld"]), c_bool(lk["has_st"]), c_bool(lk["suffix"]),
        c_opt(lk["direct"], c_entry), c_opt(lk["direct_s"], c_entry), c_opt(lk["reg"], c_reg), c_opt(lk["reg_s"], c_reg),
        "; ".join("(mkldrow %s %s %s)" % (c_opt(r[0], cs), c_bool(r[1]), c_uoplist(r[2])) for r in lk["ld_rows"]) if rows else "",
        "; ".join(c_uoplist(r) for r in lk["st_rows"]) if rows else "", c_bool(lk["dest_has_mem"]),
        "; ".join(c_bool(b) for b in lk["srcdst_wb"]))


def c_line(lk):
    if lk == "noinstr":
        return "LNoInstr"
    return "(LInstr %s)" % c_lookup(lk)


def c_rline(case):
    """the line WITHOUT the rows the implementation looked up: Model/Rows.v selects them from the raw tables"""
    import c08_rows as R
    lk = case["lk"]
    if lk == "noinstr":
        return "RNoInstr"
    q = case["q"]
    return "(RInstr %s (mkmemq %s %s))" % (c_lookup(lk, rows=False), R.c_omem(q["ld"]), R.c_omem(q["st"]))


def c_exp(exp):
    if exp[0] == "err":
        return "(Err %s)" % exp[1]
    o = exp[1]
    u = o["uops"]
    if u[0] == "list":
        pu = "(PList %s)" % c_uoplist(u[1])
    elif u[0] == "dict":
        pu = "(PDict [%s])" % "; ".join(c_uoplist(a) for a in u[1])
    else:
        pu = "(PKeys %d %s)" % (u[1], c_uoplist(u[2]))
    return "(Ok (mkcost %s [%s] %s %s %s [%s]))" % (pu, "; ".join(flit(x) for x in o["pp"]), flit(o["lat"]),
                                                     flit(o["lat_wo"]), flit(o["tp"]), "; ".join(o["flags"]))


HEADER = """From OV Require Import Model.PyString Model.Match Model.Rows.
From Coq Require Import ZArith List String Bool PrimFloat.
From OV Require Import Model.Num Model.Pressure Model.Costing Model.PyString.
Import ListNotations.
Open Scope string_scope.
Definition F := float.
Definition uop_eqb (a b : F * list string) : bool :=
  andb (f_biteq (fst a) (fst b)) (if list_eq_dec string_dec (snd a) (snd b) then true else false).
Fixpoint ul_eqb (a b : list (F * list string)) : bool :=
  match a, b with [], [] => true | x :: r, y :: s => andb (uop_eqb x y) (ul_eqb r s) | _, _ => false end.
Fixpoint ull_eqb (a b : list (list (F * list string))) : bool :=
  match a, b with [], [] => true | x :: r, y :: s => andb (ul_eqb x y) (ull_eqb r s) | _, _ => false end.
Definition pu_eqb (a b : puops (T:=F)) : bool :=
  match a, b with
  | PList x, PList y => ul_eqb x y
  | PDict x, PDict y => ull_eqb x y
  | PKeys n x, PKeys k y => andb (Nat.eqb n k) (ul_eqb x y)
  | _, _ => false
  end.
Fixpoint fl_eqb (a b : list flag) : bool :=
  match a, b with [], [] => true | x :: r, y :: s => andb (flag_eqb x y) (fl_eqb r s) | _, _ => false end.
Definition err_eqb (a b : err) : bool :=
  match a, b with EIndex, EIndex | EEmptyGetter, EEmptyGetter | EValue, EValue | EKey, EKey | EType, EType | EFuel, EFuel => true | _, _ => false end.
Definition agrees (r e : res (cost (T:=F))) : bool :=
  match r, e with
  | Ok a, Ok b => andb (pu_eqb (c_uops a) (c_uops b)) (andb (f_list_biteq (c_pp a) (c_pp b))
                  (andb (f_biteq (c_lat a) (c_lat b)) (andb (f_biteq (c_lat_wo a) (c_lat_wo b))
                  (andb (f_biteq (c_tp a) (c_tp b)) (fl_eqb (c_flags a) (c_flags b))))))
  | Err a, Err b => err_eqb a b
  | _, _ => false
  end.
(* rows computed by Model/Rows.v: None (the matcher raised) never agrees with a costed line *)
Definition agrees_o (r : option (res (cost (T:=F)))) (e : res (cost (T:=F))) : bool :=
  match r with Some x => agrees x e | None => false end.
Definition RW := list (option string * list (F * list string)).
Definition ostr_eqb (a b : option string) : bool :=
  match a, b with None, None => true | Some x, Some y => String.eqb x y | _, _ => false end.
Fixpoint rows_eqb (a b : RW) : bool :=
  match a, b with
  | [], [] => true
  | x :: r, y :: s => andb (andb (ostr_eqb (fst x) (fst y)) (ul_eqb (snd x) (snd y))) (rows_eqb r s)
  | _, _ => false
  end.
Definition orows_eqb (a b : option RW) : bool :=
  match a, b with None, None => true | Some x, Some y => rows_eqb x y | _, _ => false end.
(* one memory operand against the raw tables: the three getters, bit for bit on the micro-op lists *)
Definition rows_ok (a : Match.isa) (tb : tables (T:=F)) (mem : memop) (ld st0 : option RW) (sts : list (string * option RW)) : bool :=
  andb (orows_eqb (get_load_throughput a (t_ld tb) (t_ld_default tb) mem) ld)
       (andb (orows_eqb (get_store_throughput a (t_st tb) (t_st_default tb) mem None) st0)
             (forallb (fun p => orows_eqb (get_store_throughput a (t_st tb) (t_st_default tb) mem (Some (fst p))) (snd p)) sts)).
"""

FOOTER = """
Definition bad_of (l : list bool) : string :=
  String.concat "," (map string_of_nat (map fst (filter (fun p => negb (snd p)) (combine (seq 0 (List.length l)) l)))).
Definition results := map (fun c => let '(m, l, e) := c in agrees (cost_line FNum m l) e) cases.
Definition rresults := map (fun c => let '(m, tb, l, e) := c in agrees_o (cost_line_rows FNum m tb l) e) rcases.
Definition rowresults := map (fun c => let '(i, a, tb, mem, ld, st0, sts) := c in (i, rows_ok a tb mem ld st0 sts)) rowcases.
Definition summary :=
  bad_of results ++ "|" ++ bad_of rresults ++ "|" ++
  String.concat "," (map (fun p => string_of_nat (fst p)) (filter (fun p => negb (snd p)) rowresults)) ++ "|" ++
  string_of_nat (List.length results) ++ "|" ++ string_of_nat (List.length rresults) ++ "|" ++ string_of_nat (List.length rowresults).
Eval vm_compute in summary.
"""


def coq_shard(cases):
    """three comparisons per costed line: (1) Model/Costing.v on the rows the implementation looked up, (2) Model/Rows.v +
    Model/Costing.v on the RAW tables and the memory operand, (3) every getter answer for every memory operand of the line"""
    import c08_rows as R
    defs, names = [], {}

    def shared(prefix, text, typ):
        if text not in names:
            names[text] = "%s_%d" % (prefix, len(names))
            defs.append("Definition %s : %s := %s." % (names[text], typ, text))
        return names[text]
    old, new, rows = [], [], []
    for i, c in enumerate(cases):
        m = shared("mach", c_mach(c), "mach (T:=F)")
        tb = shared("tabs", R.c_tables(c["tables"]), "tables (T:=F)")
        e = c_exp(c["exp"])
        old.append("(%s,\n  %s,\n  %s)" % (m, c_line(c["lk"]), e))
        new.append("(%s, %s,\n  %s,\n  %s)" % (m, tb, c_rline(c), e))
        for ob in c["rowobs"]:
            rows.append("(%d%%nat, %s, %s, %s,\n  %s,\n  %s,\n  [%s])" % (
                i, R.c_isa(c["isa"]), tb, R.c_mem(ob["mem"]), R.c_rows(ob["ld"]), R.c_rows(ob["st0"]),
                "; ".join("(%s, %s)" % (cs(rt), R.c_rows(r)) for rt, r in ob["st"])))
    return (HEADER + "\n".join(defs)
            + "\nDefinition cases : list (mach (T:=F) * line (T:=F) * res (cost (T:=F))) := [\n" + ";\n".join(old) + "]."
            + "\nDefinition rcases : list (mach (T:=F) * tables (T:=F) * rline (T:=F) * res (cost (T:=F))) := [\n" + ";\n".join(new) + "]."
            + "\nDefinition rowcases : list (nat * Match.isa * tables (T:=F) * memop * option RW * option RW * list (string * option RW)) := [\n"
            + ";\n".join(rows) + "]." + FOOTER)


# ------------------------------------------------------------------ independent recomputation (property text)
def fr(x):
    return F(x)


def avg_exact(ports, us):
    v = [F(0)] * len(ports)
    for c, ps in us:
        for p in ps:
            v[ports.index(p)] += F(c) / len(ps)
    return v


def oracle(case):
    """What the property says about this instruction, from the look-up results alone, in exact arithmetic.
    Returns list of (key, text) deviations of the implementation's result case["exp"]."""
    lk, exp = case["lk"], case["exp"]
    bad = []
    ports = case["ports"]
    if lk == "noinstr" or exp[0] != "ok":
        return bad
    o = exp[1]
    direct = lk["direct"] or (lk["direct_s"] if lk["suffix"] else None)
    if direct is not None:
        return bad                                   # has a model entry of its own: not this property's subject
    reg = None
    if lk["has_ld"] or lk["has_st"]:
        reg = lk["reg"] or (lk["reg_s"] if lk["suffix"] else None)
    unknown_flags = {"F_TP_UNKWN", "F_LT_UNKWN"}
    if reg is None:
        # neither form: flagged unknown, zero pressure (one cell per port), zero latency and throughput
        if not unknown_flags <= set(o["flags"]):
            bad.append(("unknown-not-flagged", "neither form exists but flags are %s" % o["flags"]))
        if o["pp"] != [0.0] * len(ports) or o["lat"] != 0 or o["tp"] != 0 or o["lat_wo"] != 0:
            bad.append(("unknown-not-zero", "neither form exists but pressure %s latency %s throughput %s" % (o["pp"], o["lat"], o["tp"])))
        if o["uops"] != ["list", []]:
            bad.append(("unknown-has-uops", "neither form exists but micro-ops %s" % (o["uops"],)))
        return bad
    e, rt = reg
    if isinstance(rt, dict) or "dict" in e["uops"] or e["tp"] is None or e["lt"] is None:
        return bad                                   # register form without plain data: outside the statement
    if unknown_flags & set(o["flags"]):
        bad.append(("composed-flagged-unknown", "register form has data but flags are %s" % o["flags"]))
    regu = e["uops"]["list"]
    # load micro-ops: for the addressing mode (rows handed over) and register type
    ld = []
    if lk["has_ld"]:
        typed = [r for r in lk["ld_rows"] if r[0] is not None and r[1]]
        ld = (typed[0] if typed else lk["ld_rows"][0])[2]
    # store micro-ops: dropped only when nothing is stored (AArch64: no memory operand among the destinations and
    # every memory operand of src_dst is pre-/post-indexed, i.e. only the base register is written back)
    wb_only = case["isa"] == "aarch64" and not lk["dest_has_mem"] and all(lk["srcdst_wb"])
    true_store = not wb_only
    st = []
    if lk["has_st"] and true_store:
        # the store row of this shape whose `src` names the register type, else the model's default store micro-ops
        typed = [r for r in lk.get("st_shape", []) if r[0] is not None and r[1]]
        st = typed[0][2] if typed else lk.get("st_default", lk["st_rows"][0])
        if lk["st_rows"][0] != st:
            bad.append(("store-row-choice", "store micro-ops taken from %s, but the row for this shape and source type %s is %s"
                        % (lk["st_rows"][0], rt, st)))
            return bad
    if lk["has_st"] and true_store and "F_HAS_ST" not in o["flags"]:
        return [("aarch64-store-dropped", "the instruction stores to memory (memory operand among its destinations) but the composition "
                 "path dropped the store micro-ops %s and the performs_store flag: micro-ops %s, pressure %s, throughput %s"
                 % (st, o["uops"], o["pp"], o["tp"]))]
    want_uops = regu + ld + st
    if o["uops"] != ["list", want_uops]:
        bad.append(("uops-not-union", "micro-ops %s, expected register form + load + store = %s" % (o["uops"], want_uops)))
    mult = lambda t: F(1) if t is None else F(dict(t)[rt])        # noqa
    try:
        m_ld, m_st = mult(case["ld_mult"]), mult(case["st_mult"])
        want_pp = [a + m_ld * b + m_st * c for a, b, c in zip(avg_exact(ports, regu), avg_exact(ports, ld), avg_exact(ports, st))]
        data = [m_ld * b + m_st * c for b, c in zip(avg_exact(ports, ld), avg_exact(ports, st))]
    except (KeyError, ValueError):
        return bad
    tol = F(1, 10 ** 9)
    if len(o["pp"]) != len(ports) or any(abs(F(x) - w) > tol for x, w in zip(o["pp"], want_pp)):
        bad.append(("pressure-not-sum", "pressure %s, expected %s" % (o["pp"], [float(w) for w in want_pp])))
    want_tp = max([F(e["tp"])] + data)
    if abs(F(o["tp"]) - want_tp) > tol:
        bad.append(("throughput-not-max", "throughput %s, expected max(register form %s, busiest data port %s) = %s"
                    % (o["tp"], e["tp"], float(max(data)) if data else None, float(want_tp))))
    ll = F(0)
    if lk["has_ld"]:
        v = dict(case["ld_lat"]).get(rt)
        ll = F(v) if v else F(0)
    if abs(F(o["lat"]) - (F(e["lt"]) + ll)) > tol:
        bad.append(("latency-not-reg-plus-load", "latency %s, expected %s + load latency[%s] %s" % (o["lat"], e["lt"], rt, float(ll))))
    if F(o["lat_wo"]) != F(e["lt"]):
        bad.append(("latency-wo-load", "latency_wo_load %s, expected the register form's %s" % (o["lat_wo"], e["lt"])))
    if lk["has_st"] and ("F_HAS_ST" in o["flags"]) != true_store:
        bad.append(("store-flag", "performs_store flag %s but the instruction %s memory"
                    % ("kept" if "F_HAS_ST" in o["flags"] else "dropped", "writes" if true_store else "does not write")))
    return bad
