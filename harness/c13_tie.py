"""C13, translation tie (T): regenerate -> compile -> re-prove -> cross-check of the translator.

  1. tools/gen_c13.py translates the CURRENT source of the formatting / decision methods of osaca/frontend.py
     (_is_comment, _get_flag_symbols, _missing_instruction_error, _user_warnings_header/_footer, _get_max_port_len,
     _get_port_pressure, _get_node_by_lineno, _get_lcd_cp_ports, combined_view, the modelled entries of
     full_analysis_dict) into coq/Gen/ReportGen.v (fail closed);
  2. coq/PropsGen/C13gen.v re-proves, against that text, that the regenerated definitions are Model/Report.v's hand
     model under an explicit layout, and restates the C13 theorems for them;
  3. the regenerated Gallina is evaluated by coqc (vm_compute) and compared with what the Python methods themselves
     return -- character by character for the strings, bit by bit for the floats, exception classes included -- on
     (a) every report the check produces through the real CLI entry point (the worker records the objects the frontend
     received and calls the methods on them) and (b) synthetic inputs that reach the error paths and the corner cases
     (ragged vectors, empty kernels, equal latencies, exponent reprs, values >= 10 / >= 100 / negative / non-finite).

coq/Gen and coq/PropsGen are shared between concurrent runs of the check (a mutant tree under VERIF_REPO next to the
unchanged tree): the regenerate/compile stage holds a file lock."""
import fcntl
import os
import random
import time

import vlib
import gen_c13
from vlib import coq_string as cs

GEN = "ReportGen.v"
PROPS = "PropsGen/C13gen.v"
ERR = {"KeyError": "EKey", "IndexError": "EIndex", "ValueError": "EValue", "TypeError": "EType", "AttributeError": "EType"}
MAX_TERM = 40000


# ------------------------------------------------------------------------------------------- Python -> Gallina
def fl(v):
    v = float(v)
    if v == 0.0:
        return "f0" if str(v) == "0.0" else "fm0"
    if v == 1.0:
        return "f1"
    if v != v:
        return "nan"
    if v == float("inf"):
        return "infinity"
    if v == float("-inf"):
        return "neg_infinity"
    h = v.hex()
    return "(-%s)%%float" % h[1:] if h.startswith("-") else "(%s)%%float" % h


def b(x):
    return "true" if x else "false"


def z(n):
    return "(%d)%%Z" % n


def lst(items):
    return "[" + "; ".join(items) + "]"


def opt(x, f):
    return "None" if x is None else "(Some %s)" % f(x)


def classify(e):
    return ERR.get(type(e).__name__, "EFuel")       # EFuel is never produced by the translated text: any other exception is a mismatch


def call(f):
    try:
        return ["ok", f()]
    except Exception as e:  # noqa
        return ["err", classify(e), repr(e)[:200]]


def res(r, f):
    return "(Err %s)" % r[1] if r[0] == "err" else "(Ok %s)" % f(r[1])


M63 = (1 << 63) - 1


def digest(text):
    """(polynomial hash mod 2^63 over the UTF-8 bytes, length in bytes): string literals are costly to type-check in Coq
    (60 us per character), so a whole report is compared through this digest, computed on both sides (Coq: primitive
    63-bit integers)"""
    h = 0
    bs = text.encode("utf-8")
    for c in bs:
        h = (h * 257 + c + 1) & M63
    return "(%s, %s)" % (z(h), z(len(bs)))


def num(v, default=0.0):
    try:
        return float(v)
    except Exception:
        return default


# ------------------------------------------------------------------------------------------- plain-data picture of the inputs
def line_data(x):
    uops = []
    for u in (x.port_uops or []):
        uops.append([num(u[0]), [str(p) for p in list(u[1])]])
    return dict(num=int(x.line_number), press=[num(v) for v in x.port_pressure], uops=uops, flags=[str(f) for f in x.flags],
                mnemonic=x.mnemonic is not None, comment=x.comment is not None, line="" if x.line is None else str(x.line),
                lat=num(x.latency), lat_cp=num(getattr(x, "latency_cp", 0.0)), lat_lcd=num(getattr(x, "latency_lcd", 0.0)),
                tp=num(x.throughput))


def usable_line(x):
    """the attributes have the Python types the representation assumes (otherwise the case is skipped and counted)"""
    try:
        ok = isinstance(x.line_number, int) and isinstance(x.line, str) and isinstance(x.flags, list)
        ok = ok and all(isinstance(v, (int, float)) for v in x.port_pressure)
        ok = ok and isinstance(x.throughput, (int, float)) and isinstance(x.latency, (int, float))
        ok = ok and isinstance(getattr(x, "latency_cp", None), (int, float))
        for u in (x.port_uops or []):
            ok = ok and len(u) >= 2 and isinstance(u[0], (int, float))
        return bool(ok)
    except Exception:
        return False


def snapshot(fe, kernel, cp, dep, ignore_unknown, bits):
    """Everything the translated methods read, plus what the Python methods return on it.  Plain data (picklable)."""
    from osaca.semantics import ArchSemantics
    ports = [str(p) for p in fe._machine_model.get_ports()]
    est = sum(len(dep[k]["dependencies"]) + 4 for k in dep) + (len(kernel) + len(cp)) * (3 * len(ports) + 14)
    if est > MAX_TERM:
        return {"skipped": "too large for a Coq term (%d)" % est}
    nodes = list(kernel) + list(cp) + [n for k in dep for n, _ in dep[k]["dependencies"]] + [dep[k]["root"] for k in dep]
    if not all(usable_line(x) for x in nodes) or not all(isinstance(k, str) for k in dep):
        return {"skipped": "attribute types outside the representation"}
    t = dict(ports=ports, ign=bool(ignore_unknown), bits=[bool(x) for x in bits])
    # every instruction-form object once; kernel / CP list / LCD entries refer to it by index (object identity)
    index, table = {}, []

    def ref(x):
        if id(x) not in index:
            index[id(x)] = len(table)
            table.append(line_data(x))
        return index[id(x)]
    t["kernel"] = [ref(x) for x in kernel]
    t["cp"] = [ref(x) for x in cp]
    t["lcd"] = [[k, num(dep[k]["latency"]), ref(dep[k]["root"]), [[ref(n), num(lat)] for n, lat in dep[k]["dependencies"]]] for k in dep]
    t["nodes"] = table
    size = sum(len(e[3]) + 4 for e in t["lcd"]) + len(table) * (3 * len(ports) + 14)
    if size > MAX_TERM:
        return {"skipped": "too large for a Coq term (%d)" % size}
    # floats whose repr the methods print or measure
    reprs = {}

    def note(v):
        try:
            v = float(v)
            reprs[v.hex()] = repr(v)
        except Exception:
            pass
    for x in nodes:
        for v in x.port_pressure:
            note(v)
        note(getattr(x, "latency_cp", 0.0))
    for k in dep:
        note(dep[k]["latency"])
        for _, lat in dep[k]["dependencies"]:
            note(lat)
    note(0.0)
    try:
        for v in ArchSemantics.get_throughput_sum(kernel):
            note(v)
        note(sum([x.latency_cp for x in cp]))
    except Exception:
        pass
    t["reprs"] = sorted(reprs.items())
    # str(sum(...)) over the numeric attributes of the CP lines (whichever of them the code sums)
    t["sums"] = []
    for attr in ("latency_cp", "latency", "throughput", "latency_lcd"):
        vals = [getattr(x, attr, 0.0) for x in cp]
        key = [num(v) for v in vals]
        if all(isinstance(v, (int, float)) for v in vals) and key not in [k for k, _ in t["sums"]]:
            t["sums"].append([key, call(lambda: format(sum(vals), ""))])
            note(sum(vals))
    t["seplist"] = call(lambda: [str(s) for s in fe._get_separator_list("|")])
    t["maxlen"] = call(lambda: [int(v) for v in fe._get_max_port_len(kernel)])
    t["portline"] = call(lambda: fe._get_port_number_line(fe._get_max_port_len(kernel), separator="|"))
    t["cv"] = call(lambda: fe.combined_view(kernel, cp, dep, ignore_unknown))
    t["cv_other"] = call(lambda: fe.combined_view(kernel, cp, dep, not ignore_unknown))
    t["lcdlist"] = call(lambda: fe.loopcarried_dependencies(dep))

    class DG:
        def get_critical_path(self):
            return cp

        def get_loopcarried_dependencies(self):
            return dep

    def the_dict():
        d = fe.full_analysis_dict(kernel, DG(), arch_warning=bits[0], length_warning=bits[1], lcd_warning=bits[2])
        return dict(warnings=[str(w) for w in d["Warnings"]],
                    kernel=[dict(num=int(k["LineNumber"]), flags=[str(f) for f in k["Flags"]], lat_cp=float(k["LatencyCP"]),
                                 lat_lcd=float(k["LatencyLCD"]), tp=float(k["Throughput"]),
                                 press=[[str(p), float(v)] for p, v in k["PortPressure"].items()]) for k in d["Kernel"]],
                    sum_press=[[str(p), float(v)] for p, v in d["Summary"]["PortPressure"].items()],
                    cp=float(d["Summary"]["CriticalPath"]), lcd=float(d["Summary"]["LCD"]))
    t["dict"] = call(the_dict)
    return t


# ------------------------------------------------------------------------------------------- Gallina terms
def coq_line(l):
    return "(Build_pyline %s %s %s %s %s %s %s %s %s %s %s)" % (
        z(l["num"]), lst(fl(v) for v in l["press"]), lst("(%s, %s)" % (fl(c), lst(cs(p) for p in ps)) for c, ps in l["uops"]),
        lst(cs(f) for f in l["flags"]), b(l["mnemonic"]), b(l["comment"]), cs(l["line"]), fl(l["lat"]), fl(l["lat_cp"]),
        fl(l["lat_lcd"]), fl(l["tp"]))


def coq_lcd(d, nm):
    return lst("(%s, Build_pylcd %s %s %s)" % (cs(k), nm(root), lst("(%s, %s)" % (nm(n), fl(lat)) for n, lat in deps), fl(lat_))
               for k, lat_, root, deps in d)


def coq_reprs(r):
    return lst("(%s, %s)" % (fl(float.fromhex(h)), cs(s)) for h, s in r)


def coq_sums(t):
    return lst("(%s, %s)" % (lst(fl(v) for v in l), cs(r[1])) for l, r in t if r[0] == "ok")


def coq_pairs(p):
    return lst("(%s, %s)" % (cs(k), fl(v)) for k, v in p)


def coq_dict(d):
    """expected dict; the key list of a port dict is written once when it is the same for every line (exp_line)"""
    keys = [p for p, _ in d["sum_press"]]

    def line(k):
        ks = [p for p, _ in k["press"]]
        vals = lst(fl(v) for _, v in k["press"])
        head = "%s %s %s %s %s" % (z(k["num"]), lst(cs(f) for f in k["flags"]), fl(k["lat_cp"]), fl(k["lat_lcd"]), fl(k["tp"]))
        if ks == keys:
            return "(exp_line ks_ %s %s)" % (head, vals)
        return "(Build_pydline %s %s)" % (head, coq_pairs(k["press"]))
    return "(let ks_ := %s in Build_pyddict %s %s %s %s %s)" % (
        lst(cs(p) for p in keys), lst(cs(w) for w in d["warnings"]), lst(line(k) for k in d["kernel"]),
        coq_pairs(d["sum_press"]), fl(d["cp"]), fl(d["lcd"]))


def report_case(t, cid, real=False):
    """-> Gallina: list of (tag, bool) checks for one report-level case; for a report of the real pipeline also the
    hypotheses of PropsGen/C13gen.v's theorems (one pressure entry per port, one separator per port, repr_ok)"""
    seplist = lst(cs(s) for s in t["seplist"][1]) if t["seplist"][0] == "ok" else "[]"
    portline = cs(t["portline"][1]) if t["portline"][0] == "ok" else '""'
    nm = lambda j: "%s_n%d" % (cid, j)
    defs = "".join("Definition %s : pyline := %s.\n" % (nm(j), coq_line(l)) for j, l in enumerate(t["nodes"]))
    k, cp, lcd = lst(nm(j) for j in t["kernel"]), lst(nm(j) for j in t["cp"]), coq_lcd(t["lcd"], nm)
    other = '("cv-other", res_hash_eqb (g_combined_view ports rp ss sl pl k cp lcd %s true) %s);' % (b(not t["ign"]), res(t["cv_other"], digest))
    return defs + "Definition %s : list (string * bool) := " % cid + """(let ports := %s in let rp := repr_of %s in let ss := sum_of %s in let sl := (fun _ _ : string => %s) in let pl := (fun (_ : list Z) (_ : string) => %s) in
  let k := %s in let cp := %s in let lcd := %s in
  [("maxlen", res_eqb (list_eqb Z.eqb) (g_get_max_port_len ports k) %s);
   ("cv", res_hash_eqb (g_combined_view ports rp ss sl pl k cp lcd %s true) %s);
   %s
   ("lcd-list", res_hash_eqb (g_loopcarried_dependencies lcd "|") %s);
   ("dict", res_eqb ddict_eqb (g_full_analysis_dict ports k tt %s %s %s cp lcd) %s)]%s)""" % (
        lst(cs(p) for p in t["ports"]), coq_reprs(t["reprs"]), coq_sums(t["sums"]), seplist, portline, k, cp, lcd,
        res(t["maxlen"], lambda v: lst(z(x) for x in v)),
        b(t["ign"]), res(t["cv"], digest), "" if real else other, res(t["lcdlist"], digest),
        b(t["bits"][0]), b(t["bits"][1]), b(t["bits"][2]), res(t["dict"], coq_dict),
        """ ++ [("hyp-wf-lines", forallb (fun x => Nat.eqb (List.length (p_press x)) (List.length ports)) k);
      ("hyp-separators", Nat.eqb (List.length (sl "|" " ")) (List.length ports));
      ("hyp-ports", negb (Nat.eqb (List.length ports) 0));
      ("hyp-lcd-keys", forallb (fun p => andb (String.eqb (fst p) (lcd_key (lcd_entry_of (snd p))))
                                  (match pl_deps (snd p) with (x, _) :: _ => Z.leb 0 (p_num x) | [] => false end)) lcd);
      ("hyp-repr-ok", forallb (fun p => Z.eqb (py_len_str (py_split_first "."%%char (snd p))) (Z.of_nat (left_len (fst p)))) %s)]"""
        % coq_reprs(t["reprs"]) if real else "") + ".\n"


HEAD = """From Coq Require Import ZArith List String Bool Ascii PrimFloat Uint63.
From OV Require Import Model.Num Model.Fmt Model.PyString Model.Pressure Model.Report Model.ReportPy Gen.ReportGen.
Import ListNotations.
Open Scope string_scope.
Set Printing Width 100000. Set Printing Depth 100000.
Definition f0 : float := 0%float. Definition fm0 : float := (-0)%float. Definition f1 : float := 1%float.
Definition exp_line (ks : list string) (n : Z) (fs : list string) (a b c : float) (vs : list float) : pydline :=
  Build_pydline n fs a b c (combine ks vs).
Definition repr_of (tbl : list (float * string)) (x : float) : string :=
  match find (fun p => f_biteq (fst p) x) tbl with Some p => snd p | None => "<no repr>" end.
Definition sum_of (tbl : list (list float * string)) (l : list float) : string :=
  match find (fun p => f_list_biteq (fst p) l) tbl with Some p => snd p | None => "<no str(sum)>" end.
Definition res_eqb {A} (eq : A -> A -> bool) (a b : res A) : bool :=
  match a, b with
  | Ok x, Ok y => eq x y
  | Err e, Err f => match e, f with EIndex, EIndex | EKey, EKey | EValue, EValue | EType, EType => true | _, _ => false end
  | _, _ => false
  end.
Fixpoint str_hash_go (s : string) (h : Uint63.int) : Uint63.int :=
  match s with
  | EmptyString => h
  | String c r => str_hash_go r (Uint63.add (Uint63.add (Uint63.mul h 257%uint63) (Uint63.of_Z (Z.of_N (N_of_ascii c)))) 1%uint63)
  end.
Definition res_hash_eqb (a : res string) (b : res (Z * Z)) : bool :=
  match a, b with
  | Ok s, Ok (h, n) => andb (Z.eqb (Uint63.to_Z (str_hash_go s 0%uint63)) h) (Z.eqb (Z.of_nat (String.length s)) n)
  | Err e, Err f => match e, f with EIndex, EIndex | EKey, EKey | EValue, EValue | EType, EType => true | _, _ => false end
  | _, _ => false
  end.
(* a Python dict built from (key, value) pairs: a repeated key keeps its first position and takes the last value *)
Fixpoint dict_put (d : list (string * float)) (k : string) (v : float) : list (string * float) :=
  match d with [] => [(k, v)] | (k', v') :: r => if String.eqb k' k then (k', v) :: r else (k', v') :: dict_put r k v end.
Definition dict_norm (l : list (string * float)) : list (string * float) := fold_left (fun d p => dict_put d (fst p) (snd p)) l [].
Definition pairs_eqb (a b : list (string * float)) : bool :=
  list_eqb (fun p q => andb (String.eqb (fst p) (fst q)) (f_biteq (snd p) (snd q))) (dict_norm a) b.
Definition dline_eqb (a b : pydline) : bool :=
  andb (Z.eqb (pd_num a) (pd_num b)) (andb (list_eqb String.eqb (pd_flags a) (pd_flags b))
  (andb (f_biteq (pd_lat_cp a) (pd_lat_cp b)) (andb (f_biteq (pd_lat_lcd a) (pd_lat_lcd b))
  (andb (f_biteq (pd_tp a) (pd_tp b)) (pairs_eqb (pd_press a) (pd_press b)))))).
Definition ddict_eqb (a b : pyddict) : bool :=
  andb (list_eqb String.eqb (pdd_warnings a) (pdd_warnings b)) (andb (list_eqb dline_eqb (pdd_kernel a) (pdd_kernel b))
  (andb (pairs_eqb (pdd_sum_press a) (pdd_sum_press b)) (andb (f_biteq (pdd_cp a) (pdd_cp b)) (f_biteq (pdd_lcd a) (pdd_lcd b))))).
"""

TAIL = """
Definition bad : list string :=
  List.concat (map (fun p => map (fun c => nat_string (fst p) ++ ":" ++ fst c) (filter (fun c => negb (snd c)) (snd p)))
              (combine (seq 0 (List.length cases)) cases)).
Eval vm_compute in (String.concat ";" bad ++ "|" ++ nat_string (List.length cases)).
"""


def shard_text(terms):
    """terms: ('def', cid, text defining cid) for report cases, ('term', text) for unit cases"""
    out, names = [], []
    for i, t in enumerate(terms):
        if t[0] == "def":
            out.append(t[2])
            names.append(t[1])
        else:
            out.append("Definition u%d : list (string * bool) := %s." % (i, t[1]))
            names.append("u%d" % i)
    return HEAD + "\n".join(out) + "\nDefinition cases := [%s].\n" % "; ".join(names) + TAIL


# ------------------------------------------------------------------------------------------- synthetic inputs
FLAGS = ["is_load_instruction", "tp_unknown", "lt_unknown", "not_bound", "hidden_load", "performs_load", "performs_store"]
VALS = [0.0, 0.0, 0.0, 0.25, 0.5, 1.0, 1 / 3, 0.33, 0.17, 0.125, 2.675, 1.005, 9.995, 9.99, 10.0, 12.5, 99.5, 99.995, 100.0, 121.5, 1234.5,
        -0.0, -0.5, 1e-17, 5e-5, 1e-4, 1e16, 1.5e16, 0.005, 0.995, 3.0, 2, 0, 1, 7.75, 0.01, 0.99]


class StubModel:
    def __init__(self, ports):
        self.ports = ports

    def get_ports(self):
        return self.ports


def stub_frontend(ports):
    from osaca.frontend import Frontend
    fe = Frontend.__new__(Frontend)
    fe._machine_model = StubModel(list(ports))
    fe._arch = "stub"
    fe._filename = "stub.s"
    return fe


def gen_ports(rng):
    pools = [["0", "1", "2", "3"], ["0", "0DV", "1", "2", "2D", "3", "3D", "4", "5"], ["P0", "P1"], ["I0", "I1", "M", "V0", "V1"],
             ["0"], [], ["0", "1", "1"], ["A", "B", "C"]]
    return list(rng.choice(pools))


def gen_val(rng):
    r = rng.random()
    if r < 0.5:
        return rng.choice(VALS)
    if r < 0.8:
        return round(rng.choice([0.25, 0.5, 1, 2, 3, 1.5]) / rng.randrange(1, 7) + rng.randrange(0, 30) * 0.01, rng.choice([2, 2, 4, 17]))
    if r < 0.9:
        return rng.uniform(0, 1) * 10 ** rng.randrange(-6, 4)
    return rng.choice([float("inf"), float("nan"), -1.25, 1e300, 123456.789])


def gen_line(rng, ports, n, ragged):
    from osaca.parser.instruction_form import InstructionForm
    kind = rng.random()
    instr = kind < 0.8
    x = InstructionForm(mnemonic="op" if instr else None, line=rng.choice(["  vaddpd\t%%ymm1, %%ymm2, %%ymm%d  " % n, "add x1, x2, x%d" % n, "\tnop", ".L%d:" % n,
                                                                     "# comment %d" % n, "x \t y"]),
                        line_number=n, comment_id=rng.choice([None, None, "c"]))
    m = len(ports) + (rng.choice([-1, 1, 0]) if ragged and rng.random() < 0.3 else 0)
    if instr and rng.random() < 0.85:
        x.port_pressure = [gen_val(rng) if rng.random() < 0.45 else 0.0 for _ in range(max(m, 0))]
    else:
        x.port_pressure = [rng.choice([0.0, 0, 0.0, -0.0]) for _ in range(max(m, 0))]
    uo = []
    for _ in range(rng.randrange(0, 3) if instr else 0):
        ps = rng.sample(ports, rng.randint(1, len(ports))) if ports else []
        if ps and all(len(p) == 1 for p in ps) and rng.random() < 0.3:
            ps = "".join(ps)
        if rng.random() < 0.1:
            ps = list(ps) + ["X9"]
        uo.append(rng.choice([(rng.choice([1, 0.5, 2]), ps), [rng.choice([1, 0.5]), ps]]))
    x.port_uops = uo
    fs = [f for f in FLAGS if rng.random() < 0.18]
    if rng.random() < 0.1:
        fs = fs + fs[:1]
    rng.shuffle(fs)
    x.flags = fs if (instr or rng.random() < 0.2) else []
    x.throughput = rng.choice([0.0, 0.0, 0, 0.5, 1.0, 0.25, max(x.port_pressure + [0.0]) if all(v == v for v in x.port_pressure) else 1.0])
    x.latency = rng.choice([0.0, 1.0, 4.0, 3, 0.5])
    x.latency_cp = rng.choice([0.0, 0, x.latency])
    x.latency_lcd = 0
    x.latency_wo_load = x.latency
    return x


def gen_report_input(rng):
    """-> (frontend stub, kernel, cp, dep dict, ignore_unknown, bits)"""
    ports = gen_ports(rng)
    fe = stub_frontend(ports)
    n = rng.choice([0, 1, 1, 2, 3, 5, 8, 12])
    ragged = rng.random() < 0.2
    nums = sorted(rng.sample(range(1, 400), n)) if rng.random() < 0.85 else [rng.randrange(1, 6) for _ in range(n)]
    kernel = [gen_line(rng, ports, k, ragged) for k in nums]
    if rng.random() < 0.25:
        for x in kernel:
            x.flags = [f for f in x.flags if f != "tp_unknown"]
    cp = [x for x in kernel if x.mnemonic is not None and rng.random() < 0.4]
    if rng.random() < 0.1 and kernel:
        cp = cp + [gen_line(rng, ports, rng.randrange(1, 400), False)]        # a CP node that is not a kernel line
    dep = {}
    for _ in range(rng.choice([0, 0, 1, 2, 3, 5])):
        if not kernel:
            break
        members = sorted(rng.sample(range(len(kernel)), rng.randint(1, min(4, len(kernel)))))
        if rng.random() < 0.15:
            members = members + members[:1]                                     # a line twice in one dependency
        lats = [rng.choice([1.0, 4.0, 0.5, 3, 2.5, 0.0]) for _ in members]
        key = "-".join(str(kernel[i].line_number) for i in members)
        if rng.random() < 0.04:
            key = rng.choice(["abc", "", "x-1", "-3"])                           # int() of the first part raises ValueError
        dep[key] = {"root": kernel[members[0]], "dependencies": [(kernel[i], lt) for i, lt in zip(members, lats)],
                    "latency": rng.choice([float(sum(lats)), 4.0, 4.0, 8.0, 12.5, 100.0])}
    return fe, kernel, cp, dep, rng.random() < 0.5, [rng.random() < 0.5 for _ in range(3)]


# ------------------------------------------------------------------------------------------- unit-level oracles (no model)
def oracle_port_pressure(ports, vs, used, sep, out):
    """what the property says about one printed pressure line (all separators '|'): a cell is blank iff the value is zero and the
    port is not used; a shown cell is the value at the decimals it shows"""
    found = []
    if not isinstance(out, str) or not all(s == "|" for s in (sep if isinstance(sep, list) else [sep])) or len(ports) < len(vs):
        return found
    cells = (out + " ").split("|")[1:-1]
    if len(cells) != len(vs):
        return [("unit-pressure-line-layout", "%d cells printed for %d values: %r" % (len(cells), len(vs), out))]
    for p, v, c in zip(ports, vs, cells):
        c, v = c.strip(), float(v)
        if c == "":
            if v != 0.0 or p in used:
                found.append(("unit-pressure-cell-blank-but-nonzero-or-used", "port %s value %r used=%s printed blank in %r" % (p, v, p in used, out)))
        elif v == 0.0 and p not in used:
            found.append(("unit-pressure-cell-shown-for-unused-zero", "port %s shows %r in %r" % (p, c, out)))
        elif v == v and abs(v) != float("inf") and not ("." in c and len(c.split(".")[1]) >= 1 and c == "{:.{}f}".format(v, len(c.split(".")[1]))):
            found.append(("unit-pressure-cell-differs-from-value", "port %s value %r printed %r" % (p, v, c)))
    return found


def judge_unit(kind, args, r):
    """-> [(key, what)] for one unit case; r = call(...) result of the Python method"""
    if r[0] != "ok":
        return []
    out = r[1]
    if kind == "port_pressure":
        ports, vs, plens, used, sep = args
        return oracle_port_pressure(ports, vs, used, sep, out)
    if kind == "flags":
        fs = args[0]
        want = "".join(sym for sym, f in (("*", "not_bound"), ("X", "tp_unknown"), ("P", "hidden_load")) if f in fs) or " "
        if ("X" in out) != ("tp_unknown" in fs):
            return [("unit-x-mark-differs-from-unknown", "flags %s -> %r" % (fs, out))]
        return [] if out == want else [("unit-flag-symbols-differ", "flags %s -> %r" % (fs, out))]
    if kind == "missing":
        import re
        m = re.findall(r"The performance data for (\S+) instructions is missing\.", out)
        return [] if m == [str(args[0])] else [("unit-missing-data-count-wrong", "amount %d -> %r" % (args[0], m))]
    if kind == "header":
        a, l = args
        got = ("WARNING: No micro-architecture was specified" in out, "WARNING: You are analyzing a large amount of instruction forms" in out)
        return [] if got == (a, l) else [("unit-warning-iff-violated", "arch_warning=%s length_warning=%s -> blocks %s" % (a, l, got))]
    if kind == "footer":
        got = "WARNING: LCD analysis timed out" in out
        return [] if got == args[0] else [("unit-warning-iff-violated", "lcd_warning=%s -> block %s" % (args[0], got))]
    return []


def call_unit(kind, args):
    fe = stub_frontend(args[0] if kind == "port_pressure" else ["0", "1"])
    if kind == "port_pressure":
        return call(lambda: fe._get_port_pressure(args[1], args[2], args[3], args[4]))
    f = {"flags": fe._get_flag_symbols, "missing": fe._missing_instruction_error, "header": fe._user_warnings_header,
         "footer": fe._user_warnings_footer}[kind]
    return call(lambda: f(*args))


def replay_unit(ctx, obj):
    u = obj["replay"]["unit"]
    r = call_unit(u["kind"], u["args"])
    ctx.count()
    found = judge_unit(u["kind"], u["args"], r)
    ctx.log("replay unit %s%r -> %r: %s" % (u["kind"], tuple(u["args"]), r[1] if r[0] == "ok" else r, [k for k, _ in found] or "none"))
    for key, what in found:
        if key == obj["key"]:
            ctx.violation(key, what, obj["replay"])
            break


def unit_cases(rng, n, ctx=None):
    """inputs for single methods (error paths included): -> (Gallina check terms, histogram); every Python result is also
    judged by the unit-level oracles above (a finding is a concrete failing input with its own replay)"""
    terms = []

    def judged(kind, args, r):
        if ctx is not None:
            ctx.count()
            for key, what in judge_unit(kind, args, r):
                ctx.violation(key, "Frontend.%s%r: %s" % (kind, tuple(args), what), {"unit": {"kind": kind, "args": list(args)}})
        return r
    hist = {"port_pressure_ok": 0, "port_pressure_err": 0, "lcd_cp": 0, "flags": 0, "missing": 0, "warnings": 0, "node": 0}
    # _get_flag_symbols: every subset of the flag set (in a shuffled order), plus repetitions
    fe = stub_frontend(["0", "1"])
    for m in range(128):
        fs = [f for i, f in enumerate(FLAGS) if m >> i & 1]
        rng.shuffle(fs)
        r = judged("flags", [list(fs)], call(lambda: fe._get_flag_symbols(fs)))
        terms.append('[("flags", res_eqb String.eqb (g_get_flag_symbols %s) %s)]' % (lst(cs(f) for f in fs), res(r, cs)))
        hist["flags"] += 1
    for amount in [0, 1, 2, 9, 10, 11, 99, 100, 101, 999, 1000, 12345, 10 ** 9, -1, -12]:
        r = judged("missing", [amount], call(lambda: fe._missing_instruction_error(amount)))
        terms.append('[("missing", res_eqb String.eqb (g_missing_instruction_error %s) %s)]' % (z(amount), res(r, cs)))
        hist["missing"] += 1
    for a in (False, True):
        for l in (False, True):
            r = judged("header", [a, l], call(lambda: fe._user_warnings_header(a, l)))
            terms.append('[("header", res_eqb String.eqb (g_user_warnings_header %s %s) %s)]' % (b(a), b(l), res(r, cs)))
            hist["warnings"] += 1
        r = judged("footer", [a], call(lambda: fe._user_warnings_footer(a)))
        terms.append('[("footer", res_eqb String.eqb (g_user_warnings_footer %s) %s)]' % (b(a), res(r, cs)))
        hist["warnings"] += 1
    for _ in range(n):
        ports = gen_ports(rng)
        fe = stub_frontend(ports)
        m = len(ports) + rng.choice([0, 0, 0, 0, 1, -1])
        vs = [gen_val(rng) if rng.random() < 0.6 else 0.0 for _ in range(max(m, 0))]
        plens = [rng.choice([4, 4, 4, 5, 6, 7, 3, 1, 0]) for _ in range(len(ports) + rng.choice([0, 0, 0, -1, 1]))]
        used = [p for p in ports if rng.random() < 0.4] + (["zz"] if rng.random() < 0.1 else [])
        sep = rng.choice(["|", " ", "ab", None, None])
        if sep is None:
            sep = [rng.choice(["|", " "]) for _ in range(len(vs) + rng.choice([0, 0, 0, -1, 2]))]
        r = judged("port_pressure", [list(ports), list(vs), list(plens), list(used), sep], call(lambda: fe._get_port_pressure(vs, plens, used, sep)))
        reprs = sorted({float(v).hex(): repr(float(v)) for v in vs}.items())
        seps = "(SStr %s)" % cs(sep) if isinstance(sep, str) else "(SList %s)" % lst(cs(s) for s in sep)
        terms.append('[("port_pressure", res_eqb String.eqb (g_get_port_pressure %s (repr_of %s) %s %s %s %s) %s)]' % (
            lst(cs(p) for p in ports), coq_reprs(reprs), lst(fl(v) for v in vs), lst(z(x) for x in plens), lst(cs(p) for p in used), seps,
            res(r, cs)))
        hist["port_pressure_ok" if r[0] == "ok" else "port_pressure_err"] += 1
    for _ in range(n // 2):
        ports = ["0", "1"]
        fe = stub_frontend(ports)
        kernel = [gen_line(rng, ports, k, False) for k in sorted(rng.sample(range(1, 30), rng.randrange(0, 5)))]
        ln = rng.choice([x.line_number for x in kernel] + [77]) if kernel else 77
        cp_dg = rng.choice([None, [], kernel, kernel[:1]])
        dep_lat = rng.choice([None, 0.0, 1.0, 4.0, 2, 12.5, 100.25])
        sep = rng.choice(["|", "||", ""])
        r = call(lambda: fe._get_lcd_cp_ports(ln, cp_dg, dep_lat, sep))
        fls = [x.latency_cp for x in kernel] + ([dep_lat] if dep_lat is not None else [])
        reprs = sorted({float(v).hex(): repr(float(v)) for v in fls}.items())
        terms.append('[("lcd_cp", res_eqb String.eqb (g_get_lcd_cp_ports (repr_of %s) %s %s %s %s) %s)]' % (
            coq_reprs(reprs), z(ln), opt(cp_dg, lambda l: lst(coq_line(line_data(x)) for x in l)), opt(dep_lat, fl), cs(sep), res(r, cs)))
        hist["lcd_cp"] += 1
        r = call(lambda: fe._get_node_by_lineno(ln, kernel))
        terms.append('[("node", res_eqb (fun a b => match a, b with Some x, Some y => Z.eqb (p_num x) (p_num y) | None, None => true | _, _ => false end) '
                     '(g_get_node_by_lineno %s %s) %s)]' % (z(ln), lst(coq_line(line_data(x)) for x in kernel),
                                                        res(r, lambda x: opt(x, lambda y: coq_line(line_data(y))))))
        hist["node"] += 1
    # osaca.py:inspect's decision slice, executed from the (rewritten) source
    try:
        import py2coq
        _defs, src = gen_c13.gen_inspect(vlib.REPO, gen_c13.C13Unit(os.path.join(vlib.REPO, "osaca/frontend.py"), "Frontend", {}))
        ns = {}
        exec(compile(src, "<inspect slice>", "exec"), ns)
        hist["inspect"] = 0
        so = lambda v: opt(v, cs)
        for arch in (None, "", "zen1", "SKX"):
            r = call(lambda: bool(ns["print_arch_warning"](arch)))
            terms.append('[("inspect-arch", res_eqb Bool.eqb (g_print_arch_warning %s) %s)]' % (so(arch), res(r, b)))
            hist["inspect"] += 1
        for lines in (None, "", "1-5"):
            for kl, pl in ((0, 0), (5, 5), (100, 100), (101, 101), (101, 150), (150, 150), (150, 101), (3, 200)):
                r = call(lambda: bool(ns["print_length_warning"](lines, kl, pl)))
                terms.append('[("inspect-length", res_eqb Bool.eqb (g_print_length_warning %s %s %s) %s)]' % (so(lines), z(kl), z(pl), res(r, b)))
                hist["inspect"] += 1
    except (gen_c13.Unsupported, SyntaxError, KeyError) as e:
        hist["inspect"] = "slice not available: %s" % e
    return [("term", t) for t in terms], hist


# ------------------------------------------------------------------------------------------- the stage
def cross_check(ctx, results):
    """the translator itself: regenerated Gallina = the Python methods on real reports and on synthetic inputs"""
    rng = random.Random("C13tie/%s" % ctx.seed)          # own stream: the other stages of C13 keep theirs
    terms, names = [], []
    hist = {"real_reports": 0, "real_skipped": 0, "synthetic_reports": 0, "cv_ok": 0, "cv_err": 0, "dict_err": 0}
    errors = []
    for r in results:
        t = r.get("tie")
        if t and "error" in t:
            errors.append("%s: %s" % (r["name"], t["error"]))
        if not t or "skipped" in t or "error" in t:
            hist["real_skipped"] += bool(t)
            continue
        terms.append(("def", "c%d" % len(terms), report_case(t, "c%d" % len(terms), real=True)))
        names.append("real:" + r["name"] + " " + " ".join(r["argv"]))
        hist["real_reports"] += 1
        hist["cv_ok" if t["cv"][0] == "ok" else "cv_err"] += 1
    for i in range(ctx.n(60, 400)):
        fe, kernel, cp, dep, ign, bits = gen_report_input(rng)
        t = snapshot(fe, kernel, cp, dep, ign, bits)
        if "skipped" in t:
            continue
        terms.append(("def", "c%d" % len(terms), report_case(t, "c%d" % len(terms))))
        names.append("synthetic report #%d (ports %s, %d lines, %d CP, %d LCD)" % (i, t["ports"], len(kernel), len(cp), len(dep)))
        hist["synthetic_reports"] += 1
        hist["cv_ok" if t["cv"][0] == "ok" else "cv_err"] += 1
        hist["dict_err"] += t["dict"][0] == "err"
    ctx.obligation("translation tie: the inputs of every report could be recorded", "harness", not errors, "\n".join(errors[:5]))
    chunks = [(terms[i:i + 10], names[i:i + 10]) for i in range(0, len(terms), 10)]
    uterms, uhist = unit_cases(rng, ctx.n(150, 1000), ctx)
    unames = ["unit case #%d" % i for i in range(len(uterms))]
    chunks += [(uterms[i:i + 60], unames[i:i + 60]) for i in range(0, len(uterms), 60)]       # unit cases are small
    terms = terms + uterms
    hist.update(uhist)
    shards = [("c13_tie_%03d" % i, shard_text(c[0])) for i, c in enumerate(chunks)]
    t0 = time.time()
    res_ = ctx.coq_eval_many(shards, timeout=900)
    details, total = [], 0
    for k, (ok, out) in enumerate(res_):
        chunk = chunks[k][1]
        if not ok or not out:
            details.append("shard %d failed to evaluate: %s" % (k, (out[0][-1200:] if out else "no output")))
            continue
        body, cnt = out[0].rsplit("|", 1)
        if int(cnt) != len(chunk):
            details.append("shard %d output malformed: %r" % (k, out[0][:200]))
            continue
        total += len(chunk)
        for item in [x for x in body.split(";") if x]:
            j, tag = item.split(":", 1)
            details.append("%s: translated Gallina != Python (%s)" % (chunk[int(j)], tag))
    ctx.count(total)
    ctx.coverage["c13tie_crosscheck"] = dict(hist, cases=total, shards=len(shards))
    ctx.obligation("translator cross-check: regenerated Gallina = Python combined_view / loopcarried_dependencies / full_analysis_dict / _get_max_port_len on "
                   "%d real and %d synthetic reports (whole text, every float bit, exception classes) and _get_port_pressure / "
                   "_get_lcd_cp_ports / _get_flag_symbols / _missing_instruction_error / warnings on %d unit inputs"
                   % (hist["real_reports"], hist["synthetic_reports"], len(uterms)),
                   "correspondence", not details and total == len(terms) and total > 0, "\n".join(details[:8]))
    ctx.log("translation tie cross-check: %d cases in %d shards, %d disagreements (%.1fs)" % (total, len(shards), len(details), time.time() - t0))
    return details


def regenerate_and_prove(ctx):
    """-> True when the regenerated definitions exist and type-check"""
    ctx.trusted += ["translator tools/gen_c13.py on tools/gen_c01.py's imperative layer and tools/py2coq.py (fail-closed subset); its prelude "
                    "coq/Model/ReportPy.v (py_for, str.format alignment, py_fmt_f = fmt_fixed, dict/max/get helpers) is related to "
                    "Model/Report.v in Proofs/ReportPy.v and the whole pipeline is cross-checked against CPython on every report of the run",
                    "representation of the frontend's inputs in the translated text: an instruction form is the record of the attributes read "
                    "(flags = the Python list of flag strings; mnemonic / comment as `is not None`), the LCD dict is its (key, value) list in "
                    "insertion order, x == 0.0 is the zero test of the binary64 value, `<` on latencies is the order of the exact values "
                    "(finite doubles), repr(float) and the two layout helpers _get_separator_list / _get_port_number_line are PARAMETERS of "
                    "the generated definitions (every theorem holds for all of them); str is a byte string"]
    gendir = os.path.join(vlib.COQ, "Gen")
    os.makedirs(gendir, exist_ok=True)
    gen = gen_c13.generate(vlib.REPO, gendir)
    ok, text = gen[GEN]
    ctx.obligation("translate the frontend's formatting / decision methods from the current source (Gen/%s)" % GEN, "translation", ok,
                   "" if ok else text)
    compiled = False
    if ok:
        compiled, out, dt = ctx.coqc(os.path.join(gendir, GEN))
        ctx.obligation("generated Gen/%s type-checks" % GEN, "translation", compiled, out)
        ctx.log("coqc Gen/%s: %s in %.1fs" % (GEN, "ok" if compiled else "FAILED", dt))
    if ok and compiled:
        if os.path.exists(os.path.join(vlib.COQ, PROPS)):
            ctx.compile_theorems(PROPS)
    else:
        ctx.obligation("theorems of %s (regenerated definitions = hand model)" % PROPS, "theorem", False, "generated definitions unavailable")
    return ok and compiled


def run(ctx, results):
    t0 = time.time()
    gendir = os.path.join(vlib.COQ, "Gen")
    os.makedirs(gendir, exist_ok=True)
    with open(os.path.join(gendir, ".c13gen.lock"), "w") as lf:
        fcntl.flock(lf, fcntl.LOCK_EX)
        ok = regenerate_and_prove(ctx)
        if ok:
            cross_check(ctx, results)
    if not ok or any(not o["ok"] and o["name"].startswith("theorem") for o in ctx.obligations):
        # the tie is broken: search for a concrete failing input of the methods themselves (unit-level oracles, 10x budget)
        rng = random.Random("C13tie-search/%s" % ctx.seed)
        _, hist = unit_cases(rng, ctx.n(1500, 10000), ctx)
        ctx.coverage["c13tie_search"] = hist
        ctx.log("translation tie broken: unit-level search over %d inputs" % sum(v for v in hist.values() if isinstance(v, int)))
    ctx.log("translation tie (regenerate, compile, re-prove, cross-check): %.1fs" % (time.time() - t0))
