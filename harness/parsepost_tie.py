"""C09/C10 -- translator tie (T) for the POST-PROCESSING stage of the two assembly parsers.

  1. tools/gen_parsepost.py regenerates Gallina (PostA64Gen.v / PostX86Gen.v) from the CURRENT source of everything behind the
     pyparsing grammar (process_operand ... parse_instruction, parse_line, base_parser.parse_file), fail closed, into the run's
     own scratch directory (logical path OVC; a mutant run next to a normal run never shares generated files);
  2. a copy of coq/PropsGen/C10post.v (C09post.v) is compiled against that text: for every written syntax tree of the hand
     model's language, generated post-processing (grammar_result tree) = embedding of the hand model's meaning of the tree;
  3. on generated lines (the generators of the model correspondence, harness/c10_gen.py / c09_gen.py):
       (a) grammar stage: the dictionaries REAL pyparsing returns for the rendered line (every grammar element parse_line
           tries, and list_element on the register-list members) = `grammar_result tree` (Coq evaluates the comparison);
       (b) translator: the translated parse_line, run by vm_compute on those real dictionaries as the oracle, returns exactly
           the dump of the object the Python parse_line returns (or raises the same exception class) -- every field;
       (c) theorem instance: translated parse_line on `grammar_result tree` = embedding of `denote tree`;
       (d) parse_file: translated parse_file = Python parse_file on files of such lines (numbers, blank lines, order).
"""
import os
import re

import vlib
import gen_parsepost


class Undumpable(Exception):
    pass


def coq_str(s):
    parts, cur = [], []
    for ch in s:
        o = ord(ch)
        if o > 255:
            raise Undumpable("code point > 255")
        if 32 <= o < 127:
            cur.append('""' if ch == '"' else ch)
        else:
            if cur:
                parts.append('"' + "".join(cur) + '"')
                cur = []
            parts.append("(ch %d)" % o)
    if cur or not parts:
        parts.append('"' + "".join(cur) + '"')
    return parts[0] if len(parts) == 1 else "(" + " ++ ".join(parts) + ")"


def dump(o, depth=0):
    """Python value -> Gallina term of type pyval.  Objects of osaca classes: class name, identity 0, the INSTANCE
    attributes (vars(o)) in creation order -- exactly what the translated constructors build."""
    if depth > 12:
        raise Undumpable("nesting")
    if o is None:
        return "PNone"
    if o is True:
        return "(PBool true)"
    if o is False:
        return "(PBool false)"
    if isinstance(o, int):
        return "(PInt (%d)%%Z)" % o
    if isinstance(o, str):
        return "(PStr %s)" % coq_str(o)
    if isinstance(o, float):
        raise Undumpable("float")
    if isinstance(o, dict):
        items = []
        for k, v in o.items():
            if not isinstance(k, str):
                raise Undumpable("dict key %r" % (k,))
            items.append("(%s, %s)" % (coq_str(k), dump(v, depth + 1)))
        return "(PDict [%s])" % "; ".join(items)
    if isinstance(o, (list, tuple)):
        return "(PList [%s])" % "; ".join(dump(v, depth + 1) for v in o)
    cls = type(o)
    if not cls.__module__.startswith("osaca."):
        raise Undumpable("object of %s" % cls)
    return "(PObj %s 0 [%s])" % (coq_str(cls.__name__), "; ".join("(%s, %s)" % (coq_str(k), dump(v, depth + 1)) for k, v in vars(o).items()))


EXN = {"ParseException": "ParseException", "KeyError": "KeyError", "ValueError": "ValueError", "TypeError": "TypeError",
       "IndexError": "IndexError", "AttributeError": "AttributeError"}


def res_term(fn):
    """`res pyval` term for the outcome of a Python call"""
    try:
        r = fn()
    except Exception as e:  # noqa
        n = type(e).__name__
        if n in EXN:
            return "(Raise %s)" % EXN[n]
        return None
    try:
        return "(Ok %s)" % dump(r)
    except Undumpable:
        return None


def grammar_stage(p, line, elems):
    """what the grammar stage returns for this line: {element: res term}, list_element on the members of register lists"""
    out = {}
    for e in elems:
        if e == "list_element":
            continue
        el = getattr(p, e)
        out[e] = res_term(lambda: el.parseString(line, parseAll=True).asDict())
    members = []
    if "list_element" in elems:
        try:
            d = p.instruction_parser.parseString(line, parseAll=True).asDict()
        except Exception:  # noqa
            d = {}
        for k, v in d.items():
            if k.startswith("operand") and isinstance(v, dict) and isinstance(v.get("register"), dict):
                for key in ("list", "range"):
                    for w in v["register"].get(key, []) or []:
                        if isinstance(w, str) and w not in [m for m, _ in members]:
                            members.append((w, res_term(lambda: p.list_element.parseString(w, parseAll=True).asDict())))
    return out, members


def oracle_def(name, stage, members):
    """Gallina definition of the oracle of one case"""
    rows = []
    for e, t in stage.items():
        rows.append("  if key_eqb e %s then %s else" % (coq_str(e), t if t is not None else "(Raise Unmodelled)"))
    if members:
        inner = "".join("match a with PStr w => if String.eqb w %s then %s else " % (coq_str(w), t if t is not None else "(Raise Unmodelled)")
                        for w, t in members)
        inner += "Raise Unmodelled" + "".join(" | _ => Raise Unmodelled end" for _ in members)
        rows.append("  if key_eqb e \"list_element\" then (%s) else" % inner)
    return "Definition %s (e : string) (a : pyval) : res pyval :=\n%s\n  Raise Unmodelled.\n" % (name, "\n".join(rows))


PRELUDE = """From Coq Require Import String Ascii List Bool ZArith NArith.
From OV Require Import Model.PyString Model.PyDyn Model.PyPost.
From OVC Require Import %s.
Import ListNotations.
Open Scope string_scope.
Set Printing Width 100000. Set Printing Depth 100000.
Definition ch (n : nat) : string := String (ascii_of_nat n) "".
Definition nat_s (n : nat) : string := ParseA64.string_of_Z (Z.of_nat n).
Definition idxs (f : nat -> bool) (n : nat) : string := String.concat "," (map nat_s (filter f (seq 0 n))).
"""


# ------------------------------------------------------------------ stage 1 + 2
class Tie:
    def __init__(self, ctx, isa):
        self.ctx = ctx
        self.isa = isa
        self.gen_name = "PostA64Gen" if isa == "a64" else "PostX86Gen"
        # property files compiled against the regenerated text: (file, the property files it Requires).  Independent files are
        # compiled in parallel; every `Theorem`/`Corollary` of a file is one obligation (a file that fails breaks only its own
        # theorems and those of the files that Require it).
        if isa == "a64":
            self.props_dag = [("PropsGen/C10postOps.v", []),
                              ("PropsGen/C10post.v", ["PropsGen/C10postOps.v"]),
                              ("PropsGen/C10postList.v", []),
                              ("PropsGen/C10postFile.v", []),
                              ("PropsGen/C10postInstr.v", ["PropsGen/C10postList.v"]),
                              ("PropsGen/C10post2.v", ["PropsGen/C10post.v", "PropsGen/C10postList.v", "PropsGen/C10postInstr.v"])]
        else:
            self.props_dag = [("PropsGen/C09postFile.v", []), ("PropsGen/C09post.v", []), ("PropsGen/C09postLine.v", ["PropsGen/C09post.v"])]
        self.props_chain = [f for f, _ in self.props_dag]
        self.props = " + ".join(os.path.basename(f) for f in self.props_chain) if self.props_chain else "PropsGen/-"
        self._thread = None
        self._proof = None
        self.dir = os.path.join(ctx.scratch, "cases")
        self.ok = False
        self.proved = False
        self.meta = {}

    def theorem_names(self, rel=None):
        """[(property file, theorem)] of all property files, or the theorem names of one"""
        if rel is None:
            return [(r, n) for r in self.props_chain for n in self.theorem_names(r)]
        path = os.path.join(vlib.COQ, rel)
        if not os.path.exists(path):
            return []
        return re.findall(r"^(?:Theorem|Corollary)\s+([A-Za-z0-9_']+)", open(path).read(), re.M)

    def run_T(self):
        ctx = self.ctx
        os.makedirs(self.dir, exist_ok=True)
        ok, text, meta = gen_parsepost.generate(vlib.REPO, self.dir, self.isa, self.gen_name + ".v")
        self.meta = meta
        what = "parser_AArch64.py" if self.isa == "a64" else "parser_x86att.py"
        ctx.obligation("translate the post-processing stage of %s + base_parser.parse_file from the current source (%s)"
                       % (what, ", ".join(meta.get("methods", [])) or "-"), "translation", ok, "" if ok else text)
        names = self.theorem_names()
        if not ok:
            for r, n in names:
                ctx.obligation("theorem %s (%s)" % (n, r), "theorem", False, "generated definitions unavailable: " + text)
            return self
        if vlib.REPO == "/repo":
            try:        # a copy for the reader (never compiled from there)
                os.makedirs(os.path.join(vlib.COQ, "Gen"), exist_ok=True)
                tmp = os.path.join(vlib.COQ, "Gen", self.gen_name + ".v.tmp%d" % os.getpid())
                with open(tmp, "w") as f:
                    f.write(text)
                os.replace(tmp, os.path.join(vlib.COQ, "Gen", self.gen_name + ".v"))
            except OSError:
                pass
        c, o, dt = ctx.coqc(os.path.join(self.dir, self.gen_name + ".v"), extra_q=[(self.dir, "OVC")])
        ctx.obligation("generated %s.v type-checks" % self.gen_name, "translation", c, o)
        bad = vlib.hygiene_scan(self.dir)
        ctx.obligation("generated %s.v declares no axiom" % self.gen_name, "hygiene", not bad, "\n".join(bad))
        if not c:
            for r, n in names:
                ctx.obligation("theorem %s (%s)" % (n, r), "theorem", False, "generated definitions do not compile")
            return self
        self.ok = True
        self._dt_gen = dt
        self._gen_lines = text.count("\n")
        if names:
            # the proofs take a few minutes of CPU: compile them while the evaluation stages run (finish_T collects)
            import threading
            self._thread = threading.Thread(target=self._compile_props)
            self._thread.start()
        return self

    def _cache_key(self):
        """identifies one proof check completely: the regenerated text, the property files, and every static source they can depend on"""
        import hashlib
        h = hashlib.sha256()
        h.update(open(os.path.join(self.dir, self.gen_name + ".v"), "rb").read())
        for rel in self.props_chain:
            h.update(open(os.path.join(vlib.COQ, rel), "rb").read())
        for fn in self._static_deps():
            h.update(fn.encode())
            h.update(open(os.path.join(vlib.COQ, fn), "rb").read())
        rc, ver = vlib.sh("coqc --version", timeout=30)
        h.update(ver.encode())
        return h.hexdigest()[:32]

    def _static_deps(self):
        """the static sources (relative to coq/) the generated file and the property files transitively Require; every Model/ and
        Proofs/ file when a Require line is not of the form `From OV Require Import A.B ...` (then nothing is assumed)"""
        pat = re.compile(r"^\s*(?:From\s+(\w+)\s+)?Require\s+(?:Import\s+|Export\s+)?([^.]*(?:\.[A-Za-z_][^.\s]*)*)\s*\.\s*$", re.M)
        seen, todo, fallback = [], [os.path.join(self.dir, self.gen_name + ".v")] + [os.path.join(vlib.COQ, r) for r in self.props_chain], False
        visited = set()
        while todo:
            f = todo.pop()
            if f in visited:
                continue
            visited.add(f)
            try:
                text = re.sub(r"\(\*.*?\*\)", " ", open(f).read(), flags=re.S)
            except OSError:
                fallback = True
                continue
            for m in re.finditer(r"^\s*(From\s+(\w+)\s+)?Require\b([^\n]*)$", text, re.M):
                root, rest = m.group(2), m.group(3)
                mods = re.findall(r"[A-Za-z_][A-Za-z0-9_']*(?:\.[A-Za-z_][A-Za-z0-9_']*)*", rest.replace("Import", " ").replace("Export", " "))
                if root in ("Coq", "OVC"):
                    continue
                if root != "OV":
                    if all(x.startswith("Coq.") for x in mods):
                        continue
                    fallback = True
                    continue
                for x in mods:
                    rel = x.replace(".", "/") + ".v"
                    if os.path.exists(os.path.join(vlib.COQ, rel)):
                        if rel not in seen:
                            seen.append(rel)
                            todo.append(os.path.join(vlib.COQ, rel))
                    else:
                        fallback = True
        if fallback:
            seen = []
            for sub in ("Model", "Proofs"):
                d = os.path.join(vlib.COQ, sub)
                seen += [sub + "/" + fn for fn in os.listdir(d) if fn.endswith(".v")]
        return sorted(set(seen))

    def _compile_props(self):
        """coqc of the property chain against this run's regenerated text.  coqc is deterministic: when exactly this check
        (same regenerated text, same property files, same static sources, same coqc) has succeeded before, its recorded output
        is reused (the regeneration itself, its type check and all evaluation stages are done every run; a changed source gives
        another text and therefore a full proof check).  Set VERIF_NO_PROOF_CACHE=1 to force the full check."""
        import time
        t0 = time.time()
        cdir = os.path.join(vlib.VERIF, ".cache", "parsepost")
        key = None
        try:
            key = self._cache_key()
            cfile = os.path.join(cdir, key + ".out")
            if not os.environ.get("VERIF_NO_PROOF_CACHE") and os.path.exists(cfile):
                import json as _json
                rec = _json.load(open(cfile))
                if isinstance(rec, dict) and set(rec) == set(self.props_chain):
                    self._proof = (True, {rel: (True, rec[rel]) for rel in self.props_chain}, time.time() - t0, "recorded result of the identical check")
                    return
        except (OSError, ValueError):
            pass
        import json
        import threading
        results = {}
        done = {rel: threading.Event() for rel in self.props_chain}

        def job(rel, deps):
            try:
                for d in deps:
                    done[d].wait()
                failed = [d for d in deps if not results[d][0]]
                if failed:
                    results[rel] = (False, "not compiled: it Requires %s, which failed" % ", ".join(failed))
                    return
                src = open(os.path.join(vlib.COQ, rel)).read()
                vfile = os.path.join(self.dir, os.path.basename(rel))
                with open(vfile, "w") as f:
                    f.write(src)
                cmd = "ulimit -s unlimited 2>/dev/null; exec timeout 2400 coqc -q -w -all -Q %s OV -Q %s OVC %s" % (vlib.COQ, self.dir, vfile)
                rc, o = vlib.sh(cmd, timeout=2430, cwd=self.dir)
                results[rel] = (rc == 0, o if rc == 0 else "%s: %s" % (rel, o[-3000:]))
            except Exception as e:  # noqa
                results[rel] = (False, "%s: %r" % (rel, e))
            finally:
                done[rel].set()

        threads = [threading.Thread(target=job, args=(rel, deps)) for rel, deps in self.props_dag]
        for t in threads:
            t.start()
        for t in threads:
            t.join()
        ok = all(results[rel][0] for rel in self.props_chain)
        if ok and key is not None:
            try:
                os.makedirs(cdir, exist_ok=True)
                tmp = os.path.join(cdir, key + ".tmp%d" % os.getpid())
                with open(tmp, "w") as f:
                    json.dump({rel: results[rel][1] for rel in self.props_chain}, f)
                os.replace(tmp, os.path.join(cdir, key + ".out"))
            except OSError:
                pass
        self._proof = (ok, results, time.time() - t0, "coqc")

    def finish_T(self):
        """collect the proofs started by run_T: one obligation per Theorem of the last file of the chain"""
        ctx = self.ctx
        if self._thread is None:
            return
        self._thread.join()
        ok, results, dt, how = self._proof
        names = self.theorem_names()
        for rel in self.props_chain:
            fok, fout = results.get(rel, (False, "not compiled"))
            for n in self.theorem_names(rel):
                ctx.obligation("theorem %s (%s)" % (n, rel), "theorem", fok, "" if fok else fout)
            if fok and self.theorem_names(rel):
                ctx.print_assumptions[rel] = vlib.parse_assumptions(fout)
        ctx.checker_cmds.append("coqc -Q coq OV -Q <scratch> OVC %s" % " ".join(self.props_chain))
        ctx.log("T(post): %s.v generated (%d lines), coqc %.1fs; %s: %s in %.1fs (%d theorems)" % (
            self.gen_name, self._gen_lines, self._dt_gen, " + ".join(os.path.basename(f) for f in self.props_chain),
            ("ok (%s)" % how) if ok else "FAILED", dt, len(names)))
        self.proved = ok

    # -------------------------------------------------------------- stage 3 (b): translated parse_line vs Python parse_line
    def line_cases(self, p, lines):
        """[(line, number, stage, members, expected res term or None)]"""
        elems = self.meta.get("oracles", [])
        out = []
        for i, line in enumerate(lines):
            try:
                coq_str(line)
            except Undumpable:
                continue
            stage, members = grammar_stage(p, line, elems)
            n = 1 + (i % 7)
            exp = res_term(lambda: p.parse_line(line, n))
            out.append((line, n, stage, members, exp))
        return out

    def translator_shard(self, cases, fn="parse_line"):
        g = ("g_" if self.isa == "a64" else "x_") + fn
        defs, rows = [], []
        for i, (line, n, stage, members, exp) in enumerate(cases):
            defs.append(oracle_def("orc%d" % i, stage, members))
            rows.append("  (%s orc%d (PStr %s) (PInt %d%%Z), %s)" % (g, i, coq_str(line), n, exp if exp is not None else "(Raise Unmodelled)"))
        return (PRELUDE % self.gen_name + "".join(defs)
                + "Definition cases : list (res pyval * res pyval) := [\n%s ].\n" % ";\n".join(rows)
                + "Definition bad (i : nat) : bool := match nth_error cases i with Some (r, e) => negb (same_res r e) | None => true end.\n"
                + "Definition unm (i : nat) : bool := match nth_error cases i with Some (Raise Unmodelled, _) => true | _ => false end.\n"
                + "Eval vm_compute in (idxs bad (length cases) ++ \"|\" ++ idxs unm (length cases)).\n")

    def run_translator_stream(self, p, lines, label, per=150):
        """(b): returns the list of lines on which the translated parse_line and the Python parse_line disagree"""
        ctx = self.ctx
        if not self.ok:
            return []
        cases = self.line_cases(p, lines)
        usable = [c for c in cases if c[4] is not None]
        shards = [("post_%s_tr_%03d" % (self.isa, k), self.translator_shard(usable[i:i + per])) for k, i in enumerate(range(0, len(usable), per))]
        res = ctx.coq_eval_many(shards, timeout=900)
        bad, unm, broken = [], 0, []
        for k, (ok, out) in enumerate(res):
            if not ok or not out:
                broken.append((out or ["no output"])[0][-1500:])
                continue
            b, u = out[0].split("|")
            bad += [usable[k * per + int(x)] for x in b.split(",") if x]
            unm += len([x for x in u.split(",") if x])
        ctx.obligation("post-processing translator shards evaluate (%s, %d shards)" % (label, len(shards)), "correspondence", not broken, "\n".join(broken[:2]))
        detail = "" if not bad else "%d lines, first: %r: Python %s" % (len(bad), bad[0][0], (bad[0][4] or "")[:300])
        ctx.obligation("%s, %d lines: translated parse_line (run on the REAL pyparsing dictionaries) = Python parse_line, every field of the "
                       "returned object / the exception class (%d lines answered Unmodelled by both? no: counted as disagreement unless Python "
                       "is outside the layer: %d skipped)" % (label, len(usable), unm, len(cases) - len(usable)),
                       "correspondence", not bad, detail)
        ctx.coverage.setdefault("post_translator", {})[label] = {"lines": len(usable), "skipped_undumpable": len(cases) - len(usable),
                                                                 "disagreements": len(bad), "model_unmodelled": unm}
        return [c[0] for c in bad]

    # -------------------------------------------------------------- stage 3 (d): parse_file
    def run_files(self, p, files, label):
        ctx = self.ctx
        if not self.ok:
            return
        g = ("g_" if self.isa == "a64" else "x_") + "parse_file"
        gl = ("g_" if self.isa == "a64" else "x_") + "parse_line"
        defs, rows, kept = [], [], []
        n_ok = 0
        for k, (content, start) in enumerate(files):
            try:
                coq_str(content)
            except Undumpable:
                continue
            exp = res_term(lambda: p.parse_file(content, start))
            if exp is None:
                continue
            # the oracle of a file: per line text
            lines = [t for t in content.split("\n") if t.strip() != ""]
            seen = []
            odefs = []
            for t in lines:
                if t in seen:
                    continue
                seen.append(t)
                stage, members = grammar_stage(p, t, self.meta.get("oracles", []))
                odefs.append((t, stage, members))
            body = []
            for j, (t, stage, members) in enumerate(odefs):
                defs.append(oracle_def("orc%d_%d" % (k, j), stage, members))
                body.append("match a with PStr w => if String.eqb w %s then orc%d_%d e a else " % (coq_str(t), k, j))
            # list_element is asked with the member word, not the line: try every line's oracle
            le = "".join("match orc%d_%d e a with Ok v => Ok v | Raise _ => " % (k, j) for j in range(len(odefs)))
            le += "Raise Unmodelled" + "".join(" end" for _ in odefs)
            defs.append("Definition forc%d (e : string) (a : pyval) : res pyval :=\n  if key_eqb e \"list_element\" then (%s) else\n  %sRaise Unmodelled%s.\n"
                        % (k, le, "".join(body), "".join(" | _ => Raise Unmodelled end" for _ in odefs)))
            rows.append("  (%s forc%d (PStr %s) (PInt %d%%Z), %s)" % (g, k, coq_str(content), start, exp))
            kept.append((content, start))
            n_ok += 1
        text = (PRELUDE % self.gen_name + "From OV Require Import Model.ParseFileA64.\n" + "".join(defs)
                + "Definition cases : list (res pyval * res pyval) := [\n%s ].\n" % ";\n".join(rows)
                + "Definition inputs : list (string * nat) := [\n%s ].\n" % ";\n".join("  (%s, %d)" % (coq_str(c), st) for c, st in kept)
                + "Definition bad (i : nat) : bool := match nth_error cases i with Some (r, e) => negb (same_res r e) | None => true end.\n"
                + """(* the hand model of parse_file (Model/ParseFileA64.v file_lines: non-blank lines, numbered position + 1 + start, verbatim) *)
Definition form_line (v : pyval) : option (Z * string) :=
  match v with
  | PObj _ _ f => match assoc "_line_number" f, assoc "_line" f with Some (PInt z), Some (PStr t) => Some (z, t) | _, _ => None end
  | _ => None
  end.
Fixpoint same_lines (l : list pyval) (m : list (nat * string)) : bool :=
  match l, m with
  | [], [] => true
  | v :: t, (n, s) :: u => match form_line v with Some (z, x) => Z.eqb z (Z.of_nat n) && String.eqb x s && same_lines t u | None => false end
  | _, _ => false
  end.
Definition badm (i : nat) : bool :=
  match nth_error cases i, nth_error inputs i with
  | Some (Ok (PList l), _), Some (c, st) => negb (same_lines l (file_lines c st))
  | Some (Raise _, _), _ => false
  | _, _ => true
  end.
"""
                + "Eval vm_compute in (idxs bad (length cases) ++ \"|\" ++ idxs badm (length cases)).\n")
        ok, out, dt = ctx.coq_eval("post_%s_files" % self.isa, text, timeout=900)
        if not ok:
            ctx.obligation("post-processing parse_file shard evaluates (%s)" % label, "correspondence", False, out[0][-2000:])
            return
        badidx = [int(x) for x in out[0].split("|")[0].split(",") if x]
        badm = [int(x) for x in out[0].split("|")[1].split(",") if x]
        ctx.obligation("%s, %d files: translated parse_file = the hand model's file_lines (exactly the non-blank lines, numbered position + 1 + start, "
                       "verbatim, in order)" % (label, n_ok), "correspondence", not badm, "" if not badm else "files %s, first %r" % (badm[:5], kept[badm[0]]))
        ctx.obligation("%s, %d files: translated parse_file = Python parse_file (line numbers, blank lines skipped, order, every parsed form)"
                       % (label, n_ok), "correspondence", not badidx, "" if not badidx else "files %s" % badidx[:5])
        ctx.coverage.setdefault("post_translator", {})[label + " files"] = {"files": n_ok, "disagreements": len(badidx)}


# ------------------------------------------------------------------ AArch64: stages 3 (a) and (c) on written syntax trees
A64_LINE_ELEMS = ["comment", "llvm_markers", "label", "directive", "instruction_parser"]


def dirx_term(p, line):
    """the free part of a directive group, read off the real grammar result (name/parameters/comment are the fixed keys)"""
    try:
        d = p.directive.parseString(line, parseAll=True).asDict()["directive"]
        more = [(k, v) for k, v in d.items() if k not in ("name", "parameters", "comment")]
        com = d.get("comment")
        return "(mkdirx %s [%s] %s)" % (dump(d["parameters"]), "; ".join("(%s, %s)" % (coq_str(k), dump(v)) for k, v in more),
                                        "None" if com is None else "(Some [%s])" % "; ".join(coq_str(w) for w in com))
    except Exception:  # noqa
        return "(mkdirx PNone [] None)"


def a64_tree_shard(tie, p, cases):
    rows = []
    for i, c in enumerate(cases):
        stage, members = grammar_stage(p, c["line"], A64_LINE_ELEMS + ["list_element"])
        st = "; ".join("(%s, (PStr %s), %s)" % (coq_str(e), coq_str(c["line"]), stage[e] or "(Raise Unmodelled)") for e in A64_LINE_ELEMS)
        mem = "; ".join("(\"list_element\", (PStr %s), %s)" % (coq_str(w), t or "(Raise Unmodelled)") for w, t in members)
        rows.append("  (%s, %s, PStr %s, [%s])" % (c["coq"], dirx_term(p, c["line"]), coq_str(c["line"]), st + ("; " + mem if mem else "")))
    return (PRELUDE % tie.gen_name + """From OV Require Import Model.LexA64 Model.ParseA64 Model.SyntaxA64 Model.PostA64 Model.PostMembers.
Definition cases : list (wline * dirx * pyval * list (string * pyval * res pyval)) := [
%s ].
Definition stage_same (r e : res pyval) : bool :=
  match r, e with
  | Raise Unmodelled, _ => true        (* not part of the stage: parse_line stops before it asks this element *)
  | Ok a, Ok b => map_same a b | Raise x, Raise y => exn_eqb x y | _, _ => false end.
Definition g_stage (c : wline * dirx * pyval * list (string * pyval * res pyval)) : bool :=
  match c with (t, x, _, asked) =>
    dirx_ok x && forallb (fun q => match q with (e, a, r) => stage_same (gr_stage t x e a) r end) asked end.
Definition g_thm (c : wline * dirx * pyval * list (string * pyval * res pyval)) : bool :=
  match c with (t, x, line, _) =>
    same_res (g_parse_line (gr_stage t x) line (PInt 3%%Z)) (Ok (emb_form (denote t) x line (PInt 3%%Z))) end.
Definition g_lang (c : wline * dirx * pyval * list (string * pyval * res pyval)) : bool :=
  match c with (t, _, _, _) => wline_okb fx_all t end.
Definition g_mem (c : wline * dirx * pyval * list (string * pyval * res pyval)) : bool :=
  match c with (t, _, _, _) => members_okb t end.
Definition failing (g : _ -> bool) : string :=
  idxs (fun i => match nth_error cases i with Some c => negb (g c) | None => true end) (length cases).
Eval vm_compute in (failing g_lang ++ "|" ++ failing g_stage ++ "|" ++ failing g_thm ++ "|" ++ failing g_mem).
""" % ";\n".join(rows))


# fixed trees on the edges the random stream rarely visits: empty comment, list index 0, a range crossing 9 -> 10, a hex offset
A64_FIXED_TREES = [
    {"coq": '(WLComment "")', "line": "//", "partial_ok": True},
    {"coq": '(WLLabel "foo" (Some ""))', "line": "foo: //", "partial_ok": True},
    {"coq": '(WLInstr "mov" [] (Some ""))', "line": "mov //", "partial_ok": True},
    {"coq": '(WLInstr "ld1" [(WList [(mkwreg "v"%char 0 (Some ("", "s"%char))); (mkwreg "v"%char 1 (Some ("", "s"%char)))] (Some "0")); '
            '(WMem (BX false 0) MTNone MCNone)] None)', "line": "ld1 {v0.s, v1.s}[0], [x0]", "partial_ok": True},
    {"coq": '(WLInstr "ld1" [(WRange (mkwreg "v"%char 9 (Some ("4", "s"%char))) (mkwreg "v"%char 11 (Some ("4", "s"%char))) None); '
            '(WMem (BX false 0) MTNone (MCPost true (mknum false false "64")))] None)', "line": "ld1 {v9.4s - v11.4s}, [x0], #64", "partial_ok": True},
    {"coq": '(WLInstr "ldr" [(WReg (RPlain (mkwreg "x"%char 0 None))); (WMem (BSp "sp") (MTOff true (mknum true true "1f")) MCPre)] None)',
     "line": "ldr x0, [sp, #-0x1f]!", "partial_ok": True},
]


def a64_tree_stream(tie, p, cases, per=200):
    """cases: dicts of harness/c10_gen (coq = the wline term, line = a rendering); only trees of the language of the property"""
    ctx = tie.ctx
    if not tie.ok:
        return
    cases = A64_FIXED_TREES + [c for c in cases if c.get("partial_ok")]
    shards = [("post_a64_tree_%03d" % k, a64_tree_shard(tie, p, cases[i:i + per])) for k, i in enumerate(range(0, len(cases), per))]
    res = ctx.coq_eval_many(shards, timeout=900)
    names = ["tree is in the language wline_okb fx_all", "grammar stage: gr_stage tree = REAL pyparsing result (every element parse_line tries, "
             "list_element on list members; dictionaries as finite maps)", "theorem instance: translated parse_line (gr_stage tree) = emb_form (denote tree)",
             "members_okb tree (list members spelled alike are the same register; also a theorem: Proofs/PostMembers.v members_ok)"]
    fails = {n: [] for n in names}
    broken = []
    for k, (ok, out) in enumerate(res):
        if not ok or not out:
            broken.append((out or ["no output"])[0][-1500:])
            continue
        for nm, part in zip(names, out[0].split("|")):
            fails[nm] += [cases[k * per + int(x)] for x in part.split(",") if x]
    ctx.obligation("post-processing tree shards evaluate (%d shards)" % len(shards), "correspondence", not broken, "\n".join(broken[:2]))
    for nm in names:
        f = fails[nm]
        ctx.obligation("AArch64 post-processing, %d written trees: %s" % (len(cases), nm), "correspondence", not f,
                       "" if not f else "%d cases, first: line=%r tree=%s" % (len(f), f[0]["line"], f[0]["coq"]))
    ctx.coverage.setdefault("post_translator", {})["a64 trees"] = {"trees": len(cases), **{n[:20]: len(f) for n, f in fails.items()}}
    return fails


# ------------------------------------------------------------------ x86: grammar result / meaning / embedding of written operands
def _numeral(text):
    neg = text.startswith("-")
    t = text[1:] if neg else text
    hx = t.startswith("0x")
    return "(mknum %s %s %s)" % ("true" if neg else "false", "true" if hx else "false", coq_str(t[2:] if hx else t))


def xwop_term(g, first, lo, o):
    """Model/PostX86.v xwop term of a generated operand (harness/c09_gen tuples + its layout); None = a form outside PostX86.v"""
    k = o[0]
    if k == "reg":
        return "(XReg %s None)" % coq_str(o[1])
    if k == "regk":
        return "(XReg %s (Some (%s, %s)))" % (coq_str(o[1]), coq_str(o[2]), "true" if o[3] else "false")
    if k == "imm":
        return "(XImm %s)" % _numeral(g.render_int(lo, o[1]))
    if k == "id":
        return "(XIdent %s %s)" % ("true" if (lo["dollar"] or not first) else "false", coq_str(o[1]))
    if k in ("mem", "memk"):
        disp, base, index, scale = o[1], o[2], o[3], o[4]
        if disp is not None and disp[0] not in ("int", "id"):
            return None
        if base is None and index is None:
            if k == "memk" or disp is None or disp[0] != "int":
                return None
            return "(XAbs %s)" % _numeral(g.render_int(lo, disp[1]))
        d = "XDNone" if disp is None else ("(XDInt %s)" % _numeral(g.render_int(lo, disp[1])) if disp[0] == "int" else "(XDId %s)" % coq_str(disp[1]))
        opt = lambda x: "None" if x is None else "(Some %s)" % coq_str(x)   # noqa
        sc = "None" if (index is None or (scale == 1 and lo["omit1"])) else "(Some %s)" % _numeral(str(scale))
        return "(XMem %s %s %s %s %s)" % (d, opt(base), opt(index), sc, opt(o[5]) if k == "memk" else "None")
    return None


def x86_operand_stream(tie, p, wf, per=250):
    """x86 stage (a)+(c) on the written operands of the generated lines (wf: (layout, ast, line) of checks/c09.py):
    grx_op = real pyparsing result, den_xwop = the code's view of the generated AST, the theorem's equation evaluated, and its
    right-hand side = the object the Python process_operand returns on the real dictionary (every instance attribute)"""
    import c09_gen as g
    ctx = tie.ctx
    if not tie.ok:
        return
    cases = []
    skipped = 0
    for lay, ast, line in wf:
        try:
            coq_str(line)
            d = p.instruction_parser.parseString(line, parseAll=True).asDict()
        except Exception:  # noqa
            continue
        for i, o in enumerate(ast[1]):
            try:
                t = xwop_term(g, i == 0, lay["ops"][i][0], o)
            except Undumpable:
                t = None
            key = "operand%d" % (i + 1)
            if t is None or key not in d:
                skipped += 1
                continue
            try:
                real = "(Ok %s)" % dump(d[key])
                d2 = p.instruction_parser.parseString(line, parseAll=True).asDict()
                py = res_term(lambda: p.process_operand(d2[key]))
                cases.append((t, g.cq_operand(o), real, py or "(Raise PyDyn.Unmodelled)", line))
            except Undumpable:
                skipped += 1
    shards = []
    for k, i in enumerate(range(0, len(cases), per)):
        rows = ";\n".join("  (%s, %s, %s, %s)" % c[:4] for c in cases[i:i + per])
        shards.append(("post_x86_ops_%03d" % k, PRELUDE % tie.gen_name + """From OV Require Import Model.LexA64 Model.ParseA64 Model.SyntaxA64 Model.PostA64 Model.PostX86.
From OV Require Model.ParseX86.
Import ParseX86.
Definition c (n : nat) : string := ch n.
Definition cases : list (xwop * ParseX86.operand * res pyval * res pyval) := [
%s ].
Definition noorc (e : string) (a : pyval) : res pyval := Raise PyDyn.Unmodelled.
Definition g_ok (q : xwop * ParseX86.operand * res pyval * res pyval) : bool := match q with (x, _, _, _) => xwop_okb x end.
Definition g_gr (q : xwop * ParseX86.operand * res pyval * res pyval) : bool :=
  match q with (x, _, Ok d, _) => map_same (grx_op x) d | _ => false end.
Definition g_den (q : xwop * ParseX86.operand * res pyval * res pyval) : bool :=
  match q with (x, a, _, _) => String.eqb (ParseX86.show_op (den_xwop x)) (ParseX86.show_op (ParseX86.code_view a)) end.
Definition g_thm (q : xwop * ParseX86.operand * res pyval * res pyval) : bool :=
  match q with (x, _, _, _) => same_res (x_process_operand noorc (grx_op x)) (Ok (embx_op (den_xwop x))) end.
Definition g_py (q : xwop * ParseX86.operand * res pyval * res pyval) : bool :=
  match q with (x, _, _, r) => same_res (Ok (embx_op (den_xwop x))) r end.
Definition failing (g : _ -> bool) : string :=
  idxs (fun i => match nth_error cases i with Some q => negb (g q) | None => true end) (length cases).
Eval vm_compute in (failing g_ok ++ "|" ++ failing g_gr ++ "|" ++ failing g_den ++ "|" ++ failing g_thm ++ "|" ++ failing g_py).
""" % rows))
    res = ctx.coq_eval_many(shards, timeout=900)
    names = ["operand is in the language xwop_okb", "grammar stage: grx_op = REAL pyparsing result (dictionaries as finite maps)",
             "den_xwop = the code's view (code_view) of the generated hand-model AST",
             "theorem instance: translated process_operand (grx_op) = embx_op (den_xwop)",
             "embx_op (den_xwop) = the object the Python process_operand returns on the real dictionary (every instance attribute)"]
    fails = {n: [] for n in names}
    broken = []
    for k, (ok, out) in enumerate(res):
        if not ok or not out:
            broken.append((out or ["no output"])[0][-1500:])
            continue
        for nm, part in zip(names, out[0].split("|")):
            fails[nm] += [cases[k * per + int(x)] for x in part.split(",") if x]
    ctx.obligation("x86 operand shards evaluate (%d shards)" % len(shards), "correspondence", not broken, "\n".join(broken[:2]))
    for nm in names:
        f = fails[nm]
        ctx.obligation("x86 post-processing, %d written operands (%d of other forms skipped): %s" % (len(cases), skipped, nm), "correspondence",
                       not f, "" if not f else "%d cases, first: line=%r operand=%s" % (len(f), f[0][4], f[0][0]))
    ctx.coverage.setdefault("post_translator", {})["x86 operands"] = {"operands": len(cases), "skipped_other_forms": skipped,
                                                                       **{n[:24]: len(f) for n, f in fails.items()}}
    return fails


def xline_case(g, p, line, wfmap):
    """Model/PostX86.v xline term of a line + what the grammar elements parse_line consults answer (real pyparsing)"""
    def tryel(el):
        try:
            return getattr(p, el).parseString(line, parseAll=True).asDict()
        except Exception as e:  # noqa
            if type(e).__name__ == "ParseException":
                return None
            raise Undumpable("grammar raised %s" % type(e).__name__)
    words = lambda ws: "[%s]" % "; ".join(coq_str(w) for w in ws)   # noqa
    ocom = lambda d: "None" if "comment" not in d else "(Some %s)" % words(d["comment"])   # noqa
    PE = "(Raise ParseException)"
    c = tryel("comment")
    if c is not None:
        return "(XLComment %s)" % words(c["comment"]), [("comment", "(Ok %s)" % dump(c))]
    lb = tryel("label")
    if lb is not None:
        d = lb["label"]
        if set(d) - {"identifier", "name", "comment"}:
            return None
        return "(XLLabel %s %s)" % (coq_str(d["name"][0]["name"]), ocom(d)), [("comment", PE), ("label", "(Ok %s)" % dump(lb))]
    dr = tryel("directive")
    if dr is not None:
        d = dr["directive"]
        if "parameters" not in d:
            return None
        more = "; ".join("(%s, %s)" % (coq_str(k), dump(v)) for k, v in d.items() if k not in ("name", "parameters", "comment"))
        return ("(XLDirective %s %s [%s] %s)" % (coq_str(d["name"]), dump(d["parameters"]), more, ocom(d)),
                [("comment", PE), ("label", PE), ("directive", "(Ok %s)" % dump(dr))])
    ins = tryel("instruction_parser")
    if ins is None or line not in wfmap:
        return None
    lay, ast = wfmap[line]
    if len(ast[1]) > 4:
        return None
    ops = [xwop_term(g, i == 0, lay["ops"][i][0], o) for i, o in enumerate(ast[1])]
    if any(o is None for o in ops):
        return None
    return ("(XLInstr %s [%s] %s)" % (coq_str(ins["mnemonic"]), "; ".join(ops), ocom(ins)),
            [("comment", PE), ("label", PE), ("directive", PE), ("instruction_parser", "(Ok %s)" % dump(ins))])


def x86_line_stream(tie, p, lines, wf, per=150):
    """x86 stages (a)+(c) on whole lines: grx_stage = what real pyparsing answers for every element parse_line consults, den_xline =
    the hand model's parse_line (where it is not Unmodelled), the theorem's equation, and embx_form = the Python parse_line's object"""
    import c09_gen as g
    ctx = tie.ctx
    if not tie.ok:
        return
    wfmap = {line: (lay, ast) for lay, ast, line in wf}
    cases, skipped = [], 0
    for line in lines:
        try:
            coq_str(line)
            r = xline_case(g, p, line, wfmap)
            if r is None:
                skipped += 1
                continue
            py = res_term(lambda: p.parse_line(line, 3))
            if py is None:
                skipped += 1
                continue
            cases.append((r[0], coq_str(line), "[%s]" % "; ".join("(%s, %s)" % (coq_str(e), t) for e, t in r[1]), py, line))
        except Undumpable:
            skipped += 1
    shards = []
    for k, i in enumerate(range(0, len(cases), per)):
        rows = ";\n".join("  (%s, %s, %s, %s)" % c[:4] for c in cases[i:i + per])
        shards.append(("post_x86_lines_%03d" % k, PRELUDE % tie.gen_name + """From OV Require Import Model.LexA64 Model.ParseA64 Model.SyntaxA64 Model.PostA64 Model.PostX86.
From OV Require Model.ParseX86.
Definition cases : list (xline * string * list (string * res pyval) * res pyval) := [
%s ].
Definition stage_same (r e : res pyval) : bool :=
  match r, e with Ok a, Ok b => map_same a b | Raise x, Raise y => exn_eqb x y | _, _ => false end.
Definition g_ok (q : xline * string * list (string * res pyval) * res pyval) : bool := match q with (l, _, _, _) => xline_okb l end.
Definition g_gr (q : xline * string * list (string * res pyval) * res pyval) : bool :=
  match q with (l, t, asked, _) => forallb (fun er => stage_same (grx_stage l (fst er) (PStr t)) (snd er)) asked end.
Definition g_den (q : xline * string * list (string * res pyval) * res pyval) : bool :=
  match q with (l, t, _, _) =>
    let m := ParseX86.show_outcome (ParseX86.parse_line t) in
    String.eqb m "U" || String.eqb m (ParseX86.show_outcome (ParseX86.Parsed (den_xline l))) end.
Definition g_thm (q : xline * string * list (string * res pyval) * res pyval) : bool :=
  match q with (l, t, _, _) => same_res (x_parse_line (grx_stage l) (PStr t) (PInt 3%%Z)) (Ok (embx_form l (PStr t) (PInt 3%%Z))) end.
Definition g_py (q : xline * string * list (string * res pyval) * res pyval) : bool :=
  match q with (l, t, _, r) => same_res (Ok (embx_form l (PStr t) (PInt 3%%Z))) r end.
Definition g_mod (q : xline * string * list (string * res pyval) * res pyval) : bool :=
  match q with (l, t, _, _) => negb (String.eqb (ParseX86.show_outcome (ParseX86.parse_line t)) "U") end.
Definition failing (g : _ -> bool) : string :=
  idxs (fun i => match nth_error cases i with Some q => negb (g q) | None => true end) (length cases).
Eval vm_compute in (failing g_ok ++ "|" ++ failing g_gr ++ "|" ++ failing g_den ++ "|" ++ failing g_thm ++ "|" ++ failing g_py ++ "|" ++ failing g_mod).
""" % rows))
    res = ctx.coq_eval_many(shards, timeout=900)
    names = ["line is in the language xline_okb", "grammar stage: grx_stage = REAL pyparsing result for every element parse_line consults",
             "den_xline = the hand model's parse_line of the text (where the model is not Unmodelled)",
             "theorem instance: translated parse_line (grx_stage) = embx_form",
             "embx_form = the object the Python parse_line returns (every instance attribute)"]
    fails = {n: [] for n in names}
    unmod = 0
    broken = []
    for k, (ok, out) in enumerate(res):
        if not ok or not out:
            broken.append((out or ["no output"])[0][-1500:])
            continue
        parts = out[0].split("|")
        for nm, part in zip(names, parts):
            fails[nm] += [cases[k * per + int(x)] for x in part.split(",") if x]
        unmod += len([x for x in parts[5].split(",") if x])
    ctx.obligation("x86 line shards evaluate (%d shards)" % len(shards), "correspondence", not broken, "\n".join(broken[:2]))
    for nm in names:
        f = fails[nm]
        ctx.obligation("x86 post-processing, %d lines (%d of other forms skipped; hand model Unmodelled on %d): %s" % (len(cases), skipped, unmod, nm),
                       "correspondence", not f, "" if not f else "%d cases, first: line=%r xline=%s" % (len(f), f[0][4], f[0][0][:300]))
    ctx.coverage.setdefault("post_translator", {})["x86 lines (trees)"] = {"lines": len(cases), "skipped_other_forms": skipped, "model_unmodelled": unmod,
                                                                            **{n[:24]: len(f) for n, f in fails.items()}}
    return fails


# ------------------------------------------------------------------ the registration calls of checks/c10.py and checks/c09.py
def search_failing_line(ctx, prop_key, p, lines, oracle):
    """an obligation of the tie broke: look for a concrete line on which the implementation violates the model-free oracle"""
    for line in lines:
        msg = oracle(p, line)
        if msg:
            ctx.violation(prop_key, msg, {"line": line, "expected": "see what"})
            return True
    return False


def run_a64(ctx, p, cases, extra_lines=()):
    """checks/c10.py: cases = the generated trees of the round-trip stream (harness/c10_gen dicts)"""
    ctx.trusted += ["tools/gen_parsepost.py + tools/py2coq_dyn.py (translator; cross-checked: the translated parse_line run on the real pyparsing "
                    "dictionaries returns every field of what the Python parse_line returns, every run) and coq/Model/PyDyn.v + PyPost.v (semantics of the "
                    "Python subset); coq/Model/PostA64.v gr_* (grammar result of a written tree; compared with real pyparsing output on every generated line)"]
    ctx.assumptions += ["C10post_line: for every line of wline_okb fx_all, with the validated grammar stage gr_stage as the oracle; directive parameters / "
                        "further keys / comment words as the grammar delivered them (free); C10post_list / C10post_operand: for every oracle that answers "
                        "list_element on the members as gr_wreg (gr_stage does: Proofs/PostMembers.v members_ok, and stage a on every generated tree)"]
    tie = Tie(ctx, "a64").run_T()
    n_tr = ctx.n(500, 6000)
    lines = list(extra_lines) + [c["line"] for c in cases[:n_tr]]
    tie.run_translator_stream(p, lines, "AArch64 lines")
    a64_tree_stream(tie, p, cases[:ctx.n(1200, 20000)])
    good = [c["line"] for c in cases if c.get("real") == c.get("expected") and not str(c.get("real", "")).startswith("REJECT")]
    files = make_files(ctx, good, ctx.n(25, 200))
    tie.run_files(p, files, "AArch64")
    tie.finish_T()
    return tie


def run_x86(ctx, p, lines, wf=()):
    """checks/c09.py: lines = generated x86 lines of the correspondence stream"""
    ctx.trusted += ["tools/gen_parsepost.py + tools/py2coq_dyn.py, coq/Model/PyDyn.v + PyPost.v: translator and semantics of the Python subset for the "
                    "post-processing stage of parser_x86att.py (cross-checked against the Python functions on the real pyparsing dictionaries every run)"]
    ctx.assumptions += ["C09post_operand_partial: registers, immediates, identifiers, memory references d(b,i,s){k}, absolute addresses; segment "
                        "overrides, `*` forms, relocations, numeric labels are translated and tied by evaluation only; C09post_line_partial: lines whose "
                        "operands are of those forms; comment words, directive parameters / further keys as the grammar delivered them (free)"]
    tie = Tie(ctx, "x86").run_T()
    tie.run_translator_stream(p, list(lines)[:ctx.n(700, 8000)], "x86 lines")
    x86_operand_stream(tie, p, list(wf)[:ctx.n(1200, 20000)])
    x86_line_stream(tie, p, list(lines)[:ctx.n(900, 12000)], list(wf))
    usable = [l for l in lines if l.strip() != "" and "\n" not in l]
    good = []
    for l in usable[:400]:
        try:
            p.parse_line(l, 1)
            good.append(l)
        except Exception:  # noqa
            pass
    tie.run_files(p, make_files(ctx, good, ctx.n(25, 200)), "x86")
    tie.finish_T()
    return tie


BLANKS = ["", " ", "\t", "  \t ", "\r", "\x0b", "\x0c", "\x1c", "\x1f ", "\x85", "\xa0", " \xa0\t"]


def make_files(ctx, good, n):
    files = [("", 0), ("\n\n", 1), (" \n\t\n", 5)]
    if not good:
        return files
    for _ in range(n):
        lines = []
        for _ in range(ctx.rng.randrange(0, 12)):
            lines.append(ctx.rng.choice(BLANKS) if ctx.rng.random() < 0.35 else ctx.rng.choice(good))
        content = "\n".join(lines) + ("\n" if ctx.rng.random() < 0.5 else "")
        files.append((content, ctx.rng.choice([0, 0, 1, 7, 1000])))
    return files
