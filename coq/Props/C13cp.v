(* C13 -- every kernel line: a blank CP cell in the text report means LatencyCP 0 in the machine-readable output
   (given cp_covers, a boolean side condition on the analysed kernel that the check evaluates on every real case). *)
From Coq Require Import ZArith List Bool String.
From Coq Require Import PrimFloat.
From OV Require Import Model.Num Model.Fmt Model.Report Model.ReportCP Proofs.Report Proofs.ReportThm.
Import ListNotations.

Lemma cp_cell_none_existsb : forall cp n, cp_cell cp n = None -> existsb (fun e => Z.eqb (cp_num e) n) cp = false.
Proof.
  intros cp n. unfold cp_cell. induction cp as [|e cp IH]; [reflexivity|]. cbn [find existsb].
  destruct (Z.eqb (cp_num e) n); [discriminate|exact IH].
Qed.

Theorem blank_cp_cell_zero : forall q a r, report_model q a = Some r -> cp_covers a = true ->
  Forall2 (fun w d => r_num w = d_num d /\ (r_cp w = None -> f_is_zero (d_lat_cp d) = true))
          (rows r) (dd_kernel (dict_model q a)).
Proof.
  intros q a r H C. destruct (report_model_some q a r H) as (_ & Hr & _). rewrite Hr. unfold dict_model. cbn [dd_kernel].
  apply Forall2_map_same. intros l Hl. cbn [row_of r_num r_cp d_num d_lat_cp]. split; [reflexivity|]. intros N.
  unfold cp_covers in C. rewrite forallb_forall in C. specialize (C l Hl). rewrite (cp_cell_none_existsb _ _ N), orb_false_r in C. exact C.
Qed.
Print Assumptions blank_cp_cell_zero.

(* with wf_analysis: the CP total is the sum of the shown CP cells (Props/C13.v summary_is_totals), and by the theorem above
   every line without a shown cell contributes LatencyCP 0 -- the dict's LatencyCP column and CriticalPath tell the same story *)
Theorem dict_latency_cp_is_shown_or_zero : forall q a r, report_model q a = Some r -> wf_analysis a = true -> cp_covers a = true ->
  Forall2 (fun w d => match r_cp w with Some v => f_biteq v (d_lat_cp d) = true | None => f_is_zero (d_lat_cp d) = true end)
          (rows r) (dd_kernel (dict_model q a)).
Proof.
  intros q a r H W C. pose proof (cells_agree_proof q a r H W) as A. pose proof (blank_cp_cell_zero q a r H C) as B.
  revert B. induction A as [|w d ws ds (_ & _ & Hc & _) _ IH]; intros B; [constructor|].
  inversion B as [|? ? ? ? (_ & Hz) B']; subst. constructor; [|exact (IH B')].
  destruct (r_cp w) as [v|]; [exact (Hc v eq_refl)|exact (Hz eq_refl)].
Qed.
Print Assumptions dict_latency_cp_is_shown_or_zero.

(* non-vacuity: a two-line kernel whose second line is off the critical path and carries no latency_cp; and one that violates it *)
Definition cpx_flags : flagset :=
  {| fl_tp_unkwn := false; fl_lt_unkwn := false; fl_not_bound := false; fl_hidden_ld := false; fl_ld := false; fl_has_ld := false; fl_has_st := false |}.
Definition cpx_line (n : Z) (lat : float) : aline :=
  {| l_num := n; l_press := [0x1p-1%float]; l_used := ["0"%string]; l_tp := 0x1p-1%float; l_lat_cp := lat; l_flags := cpx_flags; l_instr := true |}.
Definition cpx (lat2 : float) : analysis :=
  {| a_ports := ["0"%string]; a_kernel := [cpx_line 1 4%float; cpx_line 2 lat2]; a_cp := [{| cp_num := 1; cp_lat := 4%float |}];
     a_lcd := []; a_timed_out := false |}.
Example cp_covers_nonvacuous : cp_covers (cpx 0%float) = true /\ wf_analysis (cpx 0%float) = true /\ cp_covers (cpx 3%float) = false.
Proof. vm_compute. repeat split. Qed.
