(* C10 -- AArch64 parser recovers every line and operand exactly as written: property theorems.
   Model: Model/LexA64.v, ParseA64.v, ParseFileA64.v, SyntaxA64.v.  The model is parameterised by the
   configuration `fx : fixes` = which of the four repairs patches/C10-fix-*.diff the tree under test contains
   (fx_none = the parser as found, fx_all = all four applied); checks/c10.py decides the configuration from the
   implementation's behaviour on the witness lines and holds exactly that instance against it.  Every theorem
   below is proved for ALL configurations unless it names one.  See notes/C10.md for what is proved
   universally, what is refuted (with witness lines that are findings against a tree lacking the repair) and
   what is only instance-checked by the correspondence harness. *)
From Coq Require Import String Ascii List Bool Arith NArith ZArith Sorted.
From OV Require Import Model.LexA64 Model.ParseA64 Model.ParseFileA64 Model.SyntaxA64.
From OV Require Import Proofs.ParseA64File Proofs.ParseA64Classify Proofs.ParseA64Round.
From OV Require Import Proofs.ParseA64Lex Proofs.ParseA64Regs Proofs.ParseA64Ops Proofs.ParseA64Instr Proofs.ParseA64Words.
Import ListNotations.
Open Scope string_scope.

(* ---------------------------------------------------------------- parse_file (complete, all files, all configurations) *)
Theorem parse_file_lines : forall fx content start,
  map f_number (parse_file fx content start) = map (fun i => i + 1 + start) (nonblank_positions (split_nl content)).
Proof. exact ParseA64File.parse_file_lines. Qed.
Print Assumptions parse_file_lines.

Theorem parse_file_text : forall fx content start,
  map f_text (parse_file fx content start) = filter (fun l => negb (blank l)) (split_nl content).
Proof. exact ParseA64File.parse_file_text. Qed.
Print Assumptions parse_file_text.

Theorem parse_file_count : forall fx content start,
  length (parse_file fx content start) = length (filter (fun l => negb (blank l)) (split_nl content)).
Proof. exact ParseA64File.parse_file_count. Qed.
Print Assumptions parse_file_count.

Theorem parse_file_sound : forall fx content start f,
  In f (parse_file fx content start) ->
  exists i, f_number f = i + 1 + start /\ nth_error (split_nl content) i = Some (f_text f) /\
            blank (f_text f) = false /\ f_parsed f = parse_line fx (f_text f).
Proof. exact ParseA64File.parse_file_sound. Qed.
Print Assumptions parse_file_sound.

Theorem parse_file_complete : forall fx content start i l,
  nth_error (split_nl content) i = Some l -> blank l = false ->
  In (mkfline (i + 1 + start) l (parse_line fx l)) (parse_file fx content start).
Proof. exact ParseA64File.parse_file_complete. Qed.
Print Assumptions parse_file_complete.

(* strictly increasing numbers: no file line is returned twice *)
Theorem parse_file_increasing : forall fx content start,
  StronglySorted lt (map f_number (parse_file fx content start)).
Proof. exact ParseA64File.parse_file_increasing. Qed.
Print Assumptions parse_file_increasing.

(* the lines are what "\n".join would put back together, and none contains a newline *)
Theorem split_lines_exact : forall s,
  String.concat nl (split_nl s) = s /\ forall l, In l (split_nl s) -> sall (fun c => negb (ceq c nlc)) l = true.
Proof. intro s. split; [apply split_join | apply split_no_nl]. Qed.
Print Assumptions split_lines_exact.

Example parse_file_nonvacuous : forall fx,
  map (fun f => (f_number f, f_text f)) (parse_file fx ("  add x1, x2, x3" ++ nl ++ nl ++ "  " ++ nl ++ ".L1: // c" ++ nl) 0)
  = [(1, "  add x1, x2, x3"); (4, ".L1: // c")].
Proof. intros fx. vm_compute. reflexivity. Qed.

(* ---------------------------------------------------------------- classification (complete, all lines, all configurations) *)
Theorem classify_exclusive : forall fx line r, parse_line fx line = Parsed r -> kind_count r = 1.
Proof. exact classify_exclusive_model. Qed.
Print Assumptions classify_exclusive.

Example classify_nonvacuous : forall fx,
  exists r1 r2 r3 r4,
    parse_line fx "// hi" = Parsed r1 /\ is_comment r1 = true /\
    parse_line fx ".L3:" = Parsed r2 /\ is_label r2 = true /\
    parse_line fx ".align 4" = Parsed r3 /\ is_directive r3 = true /\
    parse_line fx "ldr x0, [x1, x2, lsl #3]" = Parsed r4 /\ is_instruction r4 = true.
Proof. intros [[] [] [] []]; do 4 eexists; vm_compute; repeat split; reflexivity. Qed.

(* ---------------------------------------------------------------- pieces of the round trip proved for all inputs *)
(* every decimal or hexadecimal numeral, either sign, is read as the integer it denotes *)
Theorem numeral_roundtrip : forall n, num_okb n = true -> classify (num_word n) = CNum (num_value n) (num_word n).
Proof. exact ParseA64Round.numeral_roundtrip. Qed.
Print Assumptions numeral_roundtrip.

Theorem immediate_roundtrip : forall h n rest, num_okb n = true ->
  p_imm (num_toks h n ++ rest)%list = ImNum (num_value n) (num_word n) rest.
Proof. exact ParseA64Round.p_imm_num. Qed.
Print Assumptions immediate_roundtrip.

Example numeral_nonvacuous : num_okb (mknum true true "1F") = true /\ num_value (mknum true true "1F") = (-31)%Z.
Proof. vm_compute. split; reflexivity. Qed.

(* a register range denotes hi - lo + 1 members, the k-th one numbered lo + k with the first register's arrangement *)
Theorem range_expansion : forall first lo hi,
  length (range_members first lo hi) = Z.to_nat (hi + 1 - lo) /\
  forall k, k < Z.to_nat (hi + 1 - lo) ->
    nth_error (range_members first lo hi) k =
    Some (mkreg (r_prefix first) (string_of_Z (lo + Z.of_nat k)) (r_shape first) (r_lanes first) None None).
Proof. intros. split; [apply range_members_length | apply range_members_nth]. Qed.
Print Assumptions range_expansion.

Theorem label_line_tokens : forall fx n c, is_ident n = true ->
  parse_toks fx (toks_line (WLLabel n c)) = Parsed (denote (WLLabel n c)).
Proof. exact tokens_label_line. Qed.
Print Assumptions label_line_tokens.

Theorem comment_line_tokens : forall fx raw, parse_toks fx (toks_line (WLComment raw)) = Parsed (denote (WLComment raw)).
Proof. exact tokens_comment_line. Qed.
Print Assumptions comment_line_tokens.

(* ---------------------------------------------------------------- the full-strength round trip is FALSE of every
   configuration that lacks a repair: `wline_okb fx_all` is the language of the property, any layout.  The four
   witness lines are findings against a tree in which the corresponding repair is missing (checks/c10.py replays
   them on the implementation on every run). *)
Definition roundtrip_holds (fx : fixes) (l : wline) (lay : list string) (trail : string) : Prop :=
  parse_line fx (render lay trail l) = Parsed (denote l).
Definition full_refuted (fx : fixes) : Prop :=
  exists l lay trail, wline_okb fx_all l = true /\ layout_okb lay trail l = true /\ ~ roundtrip_holds fx l lay trail.
Definition X (n : nat) : wop := WReg (RPlain (mkwreg "x"%char n None)).

(* `cbz x1, lsl_loop`: the label is swallowed as a shift of x1 *)
Definition w_label := WLInstr "cbz" [X 1; WIdent false "lsl_loop"] None.
Theorem roundtrip_refuted_label_after_operand : forall fx, fx_word fx = false -> full_refuted fx.
Proof.
  intros [a b c d] H. simpl in H. subst a. exists w_label, [""; " "; ""; " "], "".
  split; [vm_compute; reflexivity|]. split; [vm_compute; reflexivity|].
  unfold roundtrip_holds. destruct b, c, d; vm_compute; discriminate.
Qed.
Print Assumptions roundtrip_refuted_label_after_operand.

(* `csel x0, x1, x2, ne ` (white space after the condition code): an identifier is returned *)
Definition w_cond := WLInstr "csel" [X 0; X 1; X 2; WCond "ne"] (Some " c").
Theorem roundtrip_refuted_condition_space : forall fx, fx_cond fx = false -> full_refuted fx.
Proof.
  intros [a b c d] H. simpl in H. subst b. exists w_cond, [""; " "; ""; " "; ""; " "; ""; " "; " "], "".
  split; [vm_compute; reflexivity|]. split; [vm_compute; reflexivity|].
  unfold roundtrip_holds. destruct a, c, d; vm_compute; discriminate.
Qed.
Print Assumptions roundtrip_refuted_condition_space.

(* `ldr x0, [x1, x2, sxtx #3]`: scale 1 instead of 2^3, the extend is lost *)
Definition w_sxtx := WLInstr "ldr" [X 0; WMem (BX false 1) (MTIdx "x"%char 2 (Some (mkwext "sxtx" (Some (true, mknum false false "3"))))) MCNone] None.
Theorem roundtrip_refuted_sxtx : forall fx, fx_sxtx fx = false -> full_refuted fx.
Proof.
  intros [a b c d] H. simpl in H. subst c. exists w_sxtx, [""; " "; ""; " "; ""; ""; " "; ""; " "; " "; ""; ""; ""], "".
  split; [vm_compute; reflexivity|]. split; [vm_compute; reflexivity|].
  unfold roundtrip_holds. destruct a, b, d; vm_compute; discriminate.
Qed.
Print Assumptions roundtrip_refuted_sxtx.

(* `.word foo // a,!)`: not classified as a directive *)
Definition w_dir := WLDirective "word" ["foo"] (Some " a,!)").
Theorem roundtrip_refuted_directive_comment : forall fx, fx_dir fx = false -> full_refuted fx.
Proof.
  intros [a b c d] H. simpl in H. subst d. exists w_dir, [""; " "; " "], "".
  split; [vm_compute; reflexivity|]. split; [vm_compute; reflexivity|].
  unfold roundtrip_holds. destruct a, b, c; vm_compute; discriminate.
Qed.
Print Assumptions roundtrip_refuted_directive_comment.

(* ---------------------------------------------------------------- THE ROUND TRIP, for all configurations, all trees, all layouts
   Sub-language (wline_okb fx, Model/SyntaxA64.v), every line kind:
     instruction  mnemonic [A-Za-z0-9.]+ not starting with '.', 0-5 operands separated by commas, optional // comment;
       operands: scalar [xwbhsdq]N, vector/SVE [vz]N(.lanes?shape)?([idx])?, predicate pN(.lanes?shape | /z | /m)?
       (N = 0..31, either case), sp/wsp/xsp and wzr/xzr spellings, lists {r, r, ...}[idx]? and ranges {r - r}[idx]?,
       integers '#'? -? (decimal | 0xhex) of any size, floats '#'? -?d+.d+ ((e|E)(+|-)d+)? (f|F)?, identifiers
       (not spelling a register/alias/condition code), condition codes (any case), memory [xN|sp (, '#'?imm | , (x|w)N (, ext ('#'?n)?)?)?]
       followed by '!' or ', '#'?imm';
     label  ident ':' comment?;  directive  '.'name word (, word)* comment?;  comment line.
   What a configuration EXCLUDES because it lacks a repair (each refuted above, each a finding against such a tree):
     fx_word = false  noswallow_okb excludes an identifier/condition code spelled with a shift-operator PREFIX directly after another operand
                      (cbz x1, lsl_loop); with the repair only one spelled exactly like a shift operator (cbz x1, lsl: ambiguous in this grammar)
     fx_sxtx = false  ext_words lacks the extend sxtx
     fx_dir  = false  the directive clause excludes a comment containing ',' after a parameter starting with a letter or '.'
     fx_cond = false  cond_tight excludes white space directly after a condition-code word
   Side conditions in every configuration: memory operand last (order_okb), no condition code and no pld*/pst* identifier as first operand
   (first_okb), shift amount a non-negative decimal, post-index by immediate only.
   layout_okb: every lay_i and trail is white space (space, tab, CR); it is non-empty between two words,
   between a word ending an exponent mantissa and '-', between '-' and a digit, between '/' and '/'. *)
Theorem lex_render : forall lay trail ts,
  sall is_ws trail = true -> lay_okb None lay ts = true ->
  lex (render_toks (zip_lay lay ts) (line_trail ts trail)) = Some (mark lay (line_trail ts trail) ts).
Proof. exact lex_render_tokens. Qed.
Print Assumptions lex_render.

Theorem parse_tokens_line : forall fx l, wline_okb fx l = true -> parse_toks fx (toks_line l) = Parsed (denote l).
Proof. exact tokens_line. Qed.
Print Assumptions parse_tokens_line.

Theorem parse_render_line_fx : forall fx l lay trail,
  wline_okb fx l = true -> layout_okb lay trail l = true -> cond_tight fx lay trail l = true ->
  parse_line fx (render lay trail l) = Parsed (denote l).
Proof. exact parse_render_fx. Qed.
Print Assumptions parse_render_line_fx.

(* the parser as found (configuration fx_none): the round trip on the sub-language that avoids the four defects *)
Theorem parse_render_line_partial : forall l lay trail,
  wline_okb fx_none l = true -> layout_okb lay trail l = true -> cond_tight fx_none lay trail l = true ->
  parse_line fx_none (render lay trail l) = Parsed (denote l).
Proof. exact (parse_render_fx fx_none). Qed.
Print Assumptions parse_render_line_partial.

(* all four repairs applied (configuration fx_all): the FULL-STRENGTH round trip -- the whole language of the
   property, every layout, no restriction left on white space after condition codes *)
Theorem parse_render_line_full : forall l lay trail,
  wline_okb fx_all l = true -> layout_okb lay trail l = true ->
  parse_line fx_all (render lay trail l) = Parsed (denote l).
Proof. intros l lay trail H1 H2. exact (parse_render_fx fx_all l lay trail H1 H2 eq_refl). Qed.
Print Assumptions parse_render_line_full.

(* the tokens of every well-formed line are lexable, so the layout hypothesis is spacing alone:
   white space only, non-empty where two tokens would otherwise fuse (sep_okb / clash) *)
Theorem tokens_lexable : forall fx l, wline_okb fx l = true -> toks_okb (toks_line l) = true.
Proof. exact toks_line_okb. Qed.
Print Assumptions tokens_lexable.

Theorem parse_render_line_spacing : forall fx l lay trail,
  wline_okb fx l = true -> spacing_okb lay trail l = true -> cond_tight fx lay trail l = true ->
  parse_line fx (render lay trail l) = Parsed (denote l).
Proof. exact parse_render_spacing. Qed.
Print Assumptions parse_render_line_spacing.

Theorem parse_render_line_full_spacing : forall l lay trail,
  wline_okb fx_all l = true -> spacing_okb lay trail l = true ->
  parse_line fx_all (render lay trail l) = Parsed (denote l).
Proof. intros l lay trail H1 H2. exact (parse_render_spacing fx_all l lay trail H1 H2 eq_refl). Qed.
Print Assumptions parse_render_line_full_spacing.

(* the instruction-line instance: mnemonic and every operand recovered *)
Theorem parse_render_instr_partial : forall mn ops c lay trail,
  wline_okb fx_none (WLInstr mn ops c) = true -> layout_okb lay trail (WLInstr mn ops c) = true ->
  cond_tight fx_none lay trail (WLInstr mn ops c) = true ->
  parse_line fx_none (render lay trail (WLInstr mn ops c)) =
  Parsed (mkpline (Some mn) (flat_map den_wop ops) None None (option_map comment_text c)).
Proof. intros. apply (parse_render_fx fx_none (WLInstr mn ops c)); assumption. Qed.
Print Assumptions parse_render_instr_partial.

Theorem parse_render_instr_full : forall mn ops c lay trail,
  wline_okb fx_all (WLInstr mn ops c) = true -> layout_okb lay trail (WLInstr mn ops c) = true ->
  parse_line fx_all (render lay trail (WLInstr mn ops c)) =
  Parsed (mkpline (Some mn) (flat_map den_wop ops) None None (option_map comment_text c)).
Proof. intros. apply (parse_render_line_full (WLInstr mn ops c)); assumption. Qed.
Print Assumptions parse_render_instr_full.

(* consequence named by the property: a register index with shift amount n has scale 2^n *)
Theorem scale_is_pow2 : forall fx mn b p k op h n c lay trail,
  let l := WLInstr mn [WMem b (MTIdx p k (Some (mkwext op (Some (h, n))))) c] None in
  wline_okb fx l = true -> layout_okb lay trail l = true -> cond_tight fx lay trail l = true ->
  exists off bp bn ix pre post,
    parse_line fx (render lay trail l) =
    Parsed (mkpline (Some mn) [OMem off bp bn ix (Z.pow 2 (num_value n)) pre post] None None None).
Proof.
  intros fx mn b p k op h n c lay trail l H1 H2 H3. rewrite (parse_render_fx fx l lay trail H1 H2 H3).
  unfold l. simpl. do 6 eexists. reflexivity.
Qed.
Print Assumptions scale_is_pow2.

(* ---------------------------------------------------------------- the four repaired shapes, one positive theorem each:
   what was refuted above holds of every configuration that contains the repair *)

(* (a) fx_word: a label that merely starts with a shift operator is no longer shift-like; only the eight (seven without
   fx_sxtx) operator words themselves and `mul` are, so `noswallow_okb` excludes nothing but `cbz x1, lsl` *)
Lemma prefix_drop_eq : forall op w, prefix_of op (lower w) = true -> drop (String.length op) w = "" -> lower w = op.
Proof.
  induction op as [|a op IH]; intros w Hp Hd.
  - simpl in Hd. subst w. reflexivity.
  - destruct w as [|c w']; [discriminate|].
    change (lower (String c w')) with (String (low c) (lower w')) in *. simpl in Hp, Hd.
    apply andb_true_iff in Hp. destruct Hp as [Hc Hp]. apply Ascii.eqb_eq in Hc. subst a.
    rewrite (IH w' Hp Hd). reflexivity.
Qed.
Theorem label_after_operand_repaired : forall fx w, fx_word fx = true ->
  mem_str (lower w) (shift_ops fx) = false -> String.eqb (lower w) "mul" = false -> has_shift_prefix fx w = false.
Proof.
  intros fx w Hfx Hm Hmul. unfold has_shift_prefix. rewrite Hmul, orb_false_r. unfold shift_split. rewrite Hfx.
  destruct (filter (fun op => prefix_of op (lower w)) (shift_ops fx)) as [|op r] eqn:E; [reflexivity|].
  assert (Hin : In op (filter (fun op => prefix_of op (lower w)) (shift_ops fx))) by (rewrite E; left; reflexivity).
  apply filter_In in Hin. destruct Hin as [Hin Hp].
  destruct (drop (String.length op) w) eqn:Ed; [|reflexivity]. exfalso.
  pose proof (prefix_drop_eq op w Hp Ed) as Heq.
  assert (Hmem : mem_str (lower w) (shift_ops fx) = true).
  { unfold mem_str. apply existsb_exists. exists op. split; [exact Hin|]. apply String.eqb_eq. exact Heq. }
  rewrite Hmem in Hm. discriminate.
Qed.
Print Assumptions label_after_operand_repaired.
(* ... hence `mnemonic reg, label` round-trips for every such label, under every layout the configuration admits *)
Theorem roundtrip_label_after_operand : forall fx mn r w c lay trail,
  let l := WLInstr mn [WReg r; WIdent false w] c in
  fx_word fx = true -> mnemonic_ok mn = true -> head_is (ceq ".") mn = false -> wregop_okb r = true -> plain_ident w = true ->
  mem_str (lower w) (shift_ops fx) = false -> String.eqb (lower w) "mul" = false -> comment_okb c = true ->
  layout_okb lay trail l = true -> cond_tight fx lay trail l = true ->
  parse_line fx (render lay trail l) = Parsed (mkpline (Some mn) [OReg (den_wregop r); OIdent w] None None (option_map comment_text c)).
Proof.
  intros fx mn r w c lay trail l Hfx Hmn Hdot Hr Hw Hm Hmul Hc Hlay Ht.
  assert (Hl : wline_okb fx l = true).
  { unfold l, wline_okb. rewrite Hmn, Hdot, Hc. cbn [length Nat.leb forallb wop_okb order_okb is_mem first_okb negb andb].
    rewrite Hr, Hw. cbn [andb noswallow_okb swallows_shift is_mem negb shiftlike].
    rewrite (label_after_operand_repaired fx w Hfx Hm Hmul). reflexivity. }
  rewrite (parse_render_fx fx l lay trail Hl Hlay Ht). reflexivity.
Qed.
Print Assumptions roundtrip_label_after_operand.

(* (b) fx_cond: no restriction on the white space after a condition code is left *)
Theorem roundtrip_condition_space : forall fx l lay trail, fx_cond fx = true ->
  wline_okb fx l = true -> layout_okb lay trail l = true -> parse_line fx (render lay trail l) = Parsed (denote l).
Proof.
  intros fx l lay trail Hfx H1 H2. apply (parse_render_fx fx l lay trail H1 H2). unfold cond_tight. rewrite Hfx. reflexivity.
Qed.
Print Assumptions roundtrip_condition_space.

(* (c) fx_sxtx: every spelling of sxtx is an extend of the index register, and the scale is 2^n *)
Theorem roundtrip_sxtx : forall fx mn b p k op h n c lay trail,
  let l := WLInstr mn [WMem b (MTIdx p k (Some (mkwext op (Some (h, n))))) c] None in
  fx_sxtx fx = true -> mem_str op (variants "sxtx") = true ->
  mnemonic_ok mn = true -> head_is (ceq ".") mn = false -> wbase_okb b = true -> memb p ["x";"w";"X";"W"]%char = true -> Nat.ltb k 32 = true ->
  num_okb n = true -> n_neg n = false -> n_hex n = false -> (match c with MCPost _ m => num_okb m | _ => true end) = true ->
  layout_okb lay trail l = true -> cond_tight fx lay trail l = true ->
  exists off pre post,
    parse_line fx (render lay trail l) =
    Parsed (mkpline (Some mn) [OMem off "x" (den_base_name b) (Some (mkmindex (s1 (low p)) (nat_str k) (Some "sxtx") (Some (num_word n))))
                                    (Z.pow 2 (num_value n)) pre post] None None None).
Proof.
  intros fx mn b p k op h n c lay trail l Hfx Hop Hmn Hdot Hb Hp Hk Hn Hneg Hhex Hc Hlay Ht.
  assert (Hext : mem_str op (ext_words fx) = true).
  { unfold ext_words, ext_ops. rewrite Hfx. unfold mem_str in *. rewrite flat_map_app, existsb_app.
    apply orb_true_iff. right. change (flat_map variants ["sxtx"]) with (variants "sxtx" ++ [])%list. rewrite app_nil_r. exact Hop. }
  assert (Hlow : lower op = "sxtx").
  { apply mem_str_In in Hop. vm_compute in Hop. repeat (destruct Hop as [<-|Hop]; [reflexivity|]). destruct Hop. }
  assert (Hl : wline_okb fx l = true).
  { unfold l, wline_okb. rewrite Hmn, Hdot. cbn [length Nat.leb forallb wop_okb order_okb first_okb comment_okb noswallow_okb andb negb].
    rewrite Hb, Hp, Hk, Hc. cbn [andb wext_okb]. rewrite Hext, Hn, Hneg, Hhex. reflexivity. }
  rewrite (parse_render_fx fx l lay trail Hl Hlay Ht). unfold l. cbn [denote flat_map den_wop app den_comment option_map].
  rewrite Hlow. do 3 eexists. reflexivity.
Qed.
Print Assumptions roundtrip_sxtx.

(* (d) fx_dir: a directive line is a directive line whatever its comment contains *)
Theorem roundtrip_directive_comment : forall fx n ps c lay trail,
  let l := WLDirective n ps c in
  fx_dir fx = true -> dir_name_ok ("." ++ n) = true -> forallb (fun p => andb (dir_param_ok p) (sall is_wordch p)) ps = true ->
  comment_okb c = true -> layout_okb lay trail l = true -> cond_tight fx lay trail l = true ->
  parse_line fx (render lay trail l) = Parsed (mkpline None [] None (Some n) None).
Proof.
  intros fx n ps c lay trail l Hfx Hn Hps Hc Hlay Ht.
  assert (Hl : wline_okb fx l = true) by (unfold l, wline_okb; rewrite Hn, Hps, Hc, Hfx; reflexivity).
  rewrite (parse_render_fx fx l lay trail Hl Hlay Ht). reflexivity.
Qed.
Print Assumptions roundtrip_directive_comment.

(* ---------------------------------------------------------------- non-vacuity: the hypotheses hold on one line per operand kind
   (levels a-e of the construction; each Example applies the theorem, vm_compute only discharges its boolean hypotheses) *)
Definition inst (fx : fixes) (l : wline) (lay : list string) (trail : string) : Prop :=
  wline_okb fx l = true /\ layout_okb lay trail l = true /\ cond_tight fx lay trail l = true /\ roundtrip_holds fx l lay trail.
Ltac inst := unfold inst, roundtrip_holds;
  match goal with |- _ /\ _ /\ _ /\ parse_line ?fx (render ?lay ?trail ?l) = _ =>
    assert (H1 : wline_okb fx l = true) by (vm_compute; reflexivity);
    assert (H2 : layout_okb lay trail l = true) by (vm_compute; reflexivity);
    assert (H3 : cond_tight fx lay trail l = true) by (vm_compute; reflexivity);
    split; [exact H1 | split; [exact H2 | split; [exact H3 | exact (parse_render_line_fx fx l lay trail H1 H2 H3)]]] end.
Definition sp1 (n : nat) : list string := repeat " " n.

(* level a: mnemonic + scalar registers / aliases + immediates + labels *)
Example rt_scalar_alias : inst fx_none (WLInstr "add" [WReg (RSp "SP"); WReg (RSp "wsp"); WReg (RZr "WZR"); X 30] None) (sp1 9) " ".
Proof. inst. Qed.
Example rt_immediates : inst fx_none (WLInstr "mov" [WInt true (mknum true true "1f"); WInt false (mknum false false "16");
                                            WFlt true (mkwfloat true "1" "25" (Some ("e"%char, "+"%char, "1")) (Some "f"%char));
                                            WFlt false (mkwfloat false "1" "5" None None)] None) (sp1 12) "".
Proof. inst. Qed.
Example rt_cond_label : inst fx_none (WLInstr "b.ne" [WIdent false ".L3"] None) (sp1 2) "" /\
                        inst fx_none (WLInstr "csel" [X 0; X 1; X 2; WCond "NE"] None) [""; " "; ""; " "; ""; " "; ""; " "] "".
Proof. split; inst. Qed.
(* level b: vector / SVE / predicate registers *)
Example rt_vector_pred : inst fx_none (WLInstr "fmla" [WReg (RPlain (mkwreg "v"%char 0 (Some ("4", "s"%char))));
                                               WReg (RPredicated (mkwreg "p"%char 1 None) "m"%char);
                                               WReg (RIndexed (mkwreg "Z"%char 2 (Some ("", "D"%char))) "1")] None) (sp1 12) "".
Proof. inst. Qed.
(* level c: memory operands *)
Example rt_memory : inst fx_none (WLInstr "ldr" [X 0; WMem (BSp "sp") (MTIdx "w"%char 2 (Some (mkwext "SXTW" (Some (true, mknum false false "3"))))) MCNone] None) (sp1 13) ""
                 /\ inst fx_none (WLInstr "ldr" [X 0; WMem (BX false 1) (MTOff true (mknum true false "8")) MCPre] None) (sp1 9) ""
                 /\ inst fx_none (WLInstr "ldr" [X 0; WMem (BX true 1) (MTIdx "x"%char 2 None) MCNone] None) (sp1 9) "".
Proof. repeat split; inst. Qed.
(* level d: register lists and ranges (with post-index) ; level e: trailing comment *)
Example rt_list_range : inst fx_none (WLInstr "ld1" [WList [mkwreg "v"%char 0 (Some ("2","d"%char)); mkwreg "v"%char 1 (Some ("2","d"%char))] (Some "1");
                                             WRange (mkwreg "v"%char 4 (Some ("4","s"%char))) (mkwreg "v"%char 7 (Some ("4","s"%char))) None;
                                             WMem (BX false 0) MTNone (MCPost true (mknum false false "64"))] (Some " x  y ")) (sp1 30) "".
Proof. inst. Qed.
Example rt_scale_is_pow2 : forall fx,
  parse_line fx "ldr x0, [x1, x2, lsl #3]" =
  Parsed (mkpline (Some "ldr") [OReg (plain "x" "0"); OMem MOffNone "x" "1" (Some (mkmindex "x" "2" (Some "lsl") (Some "3"))) 8 false None] None None None).
Proof. intros [[] [] [] []]; vm_compute; reflexivity. Qed.
Example rt_other_lines : inst fx_none (WLLabel ".L3" (Some " hi")) (sp1 3) "" /\ inst fx_none (WLDirective "p2align" ["4"; "15"] None) (sp1 4) "" /\
                         inst fx_none (WLComment " a  b") (sp1 1) "".
Proof. repeat split; inst. Qed.
(* the tightest and a loose layout of one line are both covered *)
Example rt_layout_tight : inst fx_none (WLInstr "ldr" [X 0; WMem (BX false 1) (MTOff true (mknum false false "8")) MCPre] None) [""; " "] "" /\
  render [""; " "] "" (WLInstr "ldr" [X 0; WMem (BX false 1) (MTOff true (mknum false false "8")) MCPre] None) = "ldr x0,[x1,#8]!".
Proof. split; [inst | vm_compute; reflexivity]. Qed.

(* the four former refutation witnesses are instances of the full-strength theorem (configuration fx_all), and each is an
   instance for the configuration that contains only its own repair; the repaired-shape theorems apply to them *)
Example rt_full_witnesses :
  inst fx_all w_label [""; " "; ""; " "] "" /\ inst fx_all w_cond [""; " "; ""; " "; ""; " "; ""; " "; " "] "" /\
  inst fx_all w_sxtx [""; " "; ""; " "; ""; ""; " "; ""; " "; " "; ""; ""; ""] "" /\ inst fx_all w_dir [""; " "; " "] "" /\
  render [""; " "; ""; " "] "" w_label = "cbz x1, lsl_loop" /\
  render [""; " "; ""; " "; ""; " "; ""; " "; " "] "" w_cond = "csel x0, x1, x2, ne // c" /\
  render [""; " "; ""; " "; ""; ""; " "; ""; " "; " "; ""; ""; ""] "" w_sxtx = "ldr x0, [x1, x2, sxtx #3]" /\
  render [""; " "; " "] "" w_dir = ".word foo // a,!)".
Proof. repeat split; try inst; vm_compute; reflexivity. Qed.
Example rt_single_repairs :
  inst (mkfx true false false false) w_label [""; " "; ""; " "] "" /\
  inst (mkfx false true false false) w_cond [""; " "; ""; " "; ""; " "; ""; " "; " "] "" /\
  inst (mkfx false false true false) w_sxtx [""; " "; ""; " "; ""; ""; " "; ""; " "; " "; ""; ""; ""] "" /\
  inst (mkfx false false false true) w_dir [""; " "; " "] "".
Proof. repeat split; inst. Qed.
Example rt_repaired_shapes :
  parse_line fx_all "tbnz w0, #3, lsr_x" = Parsed (mkpline (Some "tbnz") [OReg (plain "w" "0"); OImmInt 3; OIdent "lsr_x"] None None None) /\
  parse_line fx_all ("csel x0, x1, x2, HI" ++ String "009"%char "") =
    Parsed (mkpline (Some "csel") [OReg (plain "x" "0"); OReg (plain "x" "1"); OReg (plain "x" "2"); OCond "HI"] None None None) /\
  parse_line fx_all "ldr x0, [sp, x2, SXTX 1]!" =
    Parsed (mkpline (Some "ldr") [OReg (plain "x" "0"); OMem MOffNone "x" "sp" (Some (mkmindex "x" "2" (Some "sxtx") (Some "1"))) 2 true None] None None None) /\
  parse_line fx_all ".set x, y // c," = Parsed (mkpline None [] None (Some "set") None).
Proof. repeat split; vm_compute; reflexivity. Qed.
