(* C10 -- AArch64 parser recovers every line and operand exactly as written: property theorems.
   Model: Model/LexA64.v, ParseA64.v, ParseFileA64.v, SyntaxA64.v.  See notes/C10.md for what is
   proved universally, what is refuted (with witness lines that are findings) and what is only
   instance-checked by the correspondence harness. *)
From Coq Require Import String Ascii List Bool Arith NArith ZArith Sorted.
From OV Require Import Model.LexA64 Model.ParseA64 Model.ParseFileA64 Model.SyntaxA64.
From OV Require Import Proofs.ParseA64File Proofs.ParseA64Classify Proofs.ParseA64Round.
From OV Require Import Proofs.ParseA64Lex Proofs.ParseA64Regs Proofs.ParseA64Ops Proofs.ParseA64Instr Proofs.ParseA64Words.
Import ListNotations.
Open Scope string_scope.

(* ---------------------------------------------------------------- parse_file (complete, all files) *)
Theorem parse_file_lines : forall content start,
  map f_number (parse_file content start) = map (fun i => i + 1 + start) (nonblank_positions (split_nl content)).
Proof. exact ParseA64File.parse_file_lines. Qed.
Print Assumptions parse_file_lines.

Theorem parse_file_text : forall content start,
  map f_text (parse_file content start) = filter (fun l => negb (blank l)) (split_nl content).
Proof. exact ParseA64File.parse_file_text. Qed.
Print Assumptions parse_file_text.

Theorem parse_file_count : forall content start,
  length (parse_file content start) = length (filter (fun l => negb (blank l)) (split_nl content)).
Proof. exact ParseA64File.parse_file_count. Qed.
Print Assumptions parse_file_count.

Theorem parse_file_sound : forall content start f,
  In f (parse_file content start) ->
  exists i, f_number f = i + 1 + start /\ nth_error (split_nl content) i = Some (f_text f) /\
            blank (f_text f) = false /\ f_parsed f = parse_line (f_text f).
Proof. exact ParseA64File.parse_file_sound. Qed.
Print Assumptions parse_file_sound.

Theorem parse_file_complete : forall content start i l,
  nth_error (split_nl content) i = Some l -> blank l = false ->
  In (mkfline (i + 1 + start) l (parse_line l)) (parse_file content start).
Proof. exact ParseA64File.parse_file_complete. Qed.
Print Assumptions parse_file_complete.

(* strictly increasing numbers: no file line is returned twice *)
Theorem parse_file_increasing : forall content start,
  StronglySorted lt (map f_number (parse_file content start)).
Proof. exact ParseA64File.parse_file_increasing. Qed.
Print Assumptions parse_file_increasing.

(* the lines are what "\n".join would put back together, and none contains a newline *)
Theorem split_lines_exact : forall s,
  String.concat nl (split_nl s) = s /\ forall l, In l (split_nl s) -> sall (fun c => negb (ceq c nlc)) l = true.
Proof. intro s. split; [apply split_join | apply split_no_nl]. Qed.
Print Assumptions split_lines_exact.

Example parse_file_nonvacuous :
  map (fun f => (f_number f, f_text f)) (parse_file ("  add x1, x2, x3" ++ nl ++ nl ++ "  " ++ nl ++ ".L1: // c" ++ nl) 0)
  = [(1, "  add x1, x2, x3"); (4, ".L1: // c")].
Proof. vm_compute. reflexivity. Qed.

(* ---------------------------------------------------------------- classification (complete, all lines) *)
Theorem classify_exclusive : forall line r, parse_line line = Parsed r -> kind_count r = 1.
Proof. exact classify_exclusive_model. Qed.
Print Assumptions classify_exclusive.

Example classify_nonvacuous :
  exists r1 r2 r3 r4,
    parse_line "// hi" = Parsed r1 /\ is_comment r1 = true /\
    parse_line ".L3:" = Parsed r2 /\ is_label r2 = true /\
    parse_line ".align 4" = Parsed r3 /\ is_directive r3 = true /\
    parse_line "ldr x0, [x1, x2, lsl #3]" = Parsed r4 /\ is_instruction r4 = true.
Proof. do 4 eexists. vm_compute. repeat split; reflexivity. Qed.

(* ---------------------------------------------------------------- pieces of the round trip proved for all inputs *)
(* every decimal or hexadecimal numeral, either sign, is read as the integer it denotes *)
Theorem numeral_roundtrip : forall n, num_okb n = true -> classify (num_word n) = CNum (num_value n) (num_word n).
Proof. exact ParseA64Round.numeral_roundtrip. Qed.
Print Assumptions numeral_roundtrip.

Theorem immediate_roundtrip : forall h n rest, num_okb n = true ->
  p_imm (num_toks h n ++ rest)%list = ImNum (num_value n) (num_word n) rest.
Proof. exact ParseA64Round.p_imm_num. Qed.
Print Assumptions immediate_roundtrip.

Example numeral_nonvacuous : num_okb (mknum true true "1F") = true /\ num_value (mknum true true "1F") = (-31)%Z.
Proof. vm_compute. split; reflexivity. Qed.

(* a register range denotes hi - lo + 1 members, the k-th one numbered lo + k with the first register's arrangement *)
Theorem range_expansion : forall first lo hi,
  length (range_members first lo hi) = Z.to_nat (hi + 1 - lo) /\
  forall k, k < Z.to_nat (hi + 1 - lo) ->
    nth_error (range_members first lo hi) k =
    Some (mkreg (r_prefix first) (string_of_Z (lo + Z.of_nat k)) (r_shape first) (r_lanes first) None None).
Proof. intros. split; [apply range_members_length | apply range_members_nth]. Qed.
Print Assumptions range_expansion.

Theorem label_line_tokens : forall n c, is_ident n = true ->
  parse_toks (toks_line (WLLabel n c)) = Parsed (denote (WLLabel n c)).
Proof. exact tokens_label_line. Qed.
Print Assumptions label_line_tokens.

Theorem comment_line_tokens : forall raw, parse_toks (toks_line (WLComment raw)) = Parsed (denote (WLComment raw)).
Proof. exact tokens_comment_line. Qed.
Print Assumptions comment_line_tokens.

(* ---------------------------------------------------------------- the full round trip is FALSE of the faithful model *)
Definition roundtrip_holds (l : wline) (lay : list string) (trail : string) : Prop :=
  parse_line (render lay trail l) = Parsed (denote l).
Definition X (n : nat) : wop := WReg (RPlain (mkwreg "x"%char n None)).

(* `cbz x1, lsl_loop`: the label is swallowed as a shift of x1 *)
Theorem roundtrip_refuted_label_after_operand :
  exists l lay trail, wline_okb true l = true /\ layout_okb lay trail l = true /\ ~ roundtrip_holds l lay trail.
Proof.
  exists (WLInstr "cbz" [X 1; WIdent false "lsl_loop"] None), [""; " "; ""; " "], "".
  split; [vm_compute; reflexivity|]. split; [vm_compute; reflexivity|].
  unfold roundtrip_holds. vm_compute. discriminate.
Qed.
Print Assumptions roundtrip_refuted_label_after_operand.

(* `csel x0, x1, x2, ne ` (white space after the condition code): an identifier is returned *)
Theorem roundtrip_refuted_condition_space :
  exists l lay trail, wline_okb true l = true /\ layout_okb lay trail l = true /\ ~ roundtrip_holds l lay trail.
Proof.
  exists (WLInstr "csel" [X 0; X 1; X 2; WCond "ne"] (Some " c")), [""; " "; ""; " "; ""; " "; ""; " "; " "], "".
  split; [vm_compute; reflexivity|]. split; [vm_compute; reflexivity|].
  unfold roundtrip_holds. vm_compute. discriminate.
Qed.
Print Assumptions roundtrip_refuted_condition_space.

(* `ldr x0, [x1, x2, sxtx #3]`: scale 1 instead of 2^3, the extend is lost *)
Theorem roundtrip_refuted_sxtx :
  exists l lay trail, wline_okb true l = true /\ layout_okb lay trail l = true /\ ~ roundtrip_holds l lay trail.
Proof.
  exists (WLInstr "ldr" [X 0; WMem (BX false 1) (MTIdx "x"%char 2 (Some (mkwext "sxtx" (Some (true, mknum false false "3"))))) MCNone] None),
         [""; " "; ""; " "; ""; ""; " "; ""; " "; " "; ""; ""; ""], "".
  split; [vm_compute; reflexivity|]. split; [vm_compute; reflexivity|].
  unfold roundtrip_holds. vm_compute. discriminate.
Qed.
Print Assumptions roundtrip_refuted_sxtx.

(* `.word foo // a,!)`: not classified as a directive *)
Theorem roundtrip_refuted_directive_comment :
  exists l lay trail, wline_okb true l = true /\ layout_okb lay trail l = true /\ ~ roundtrip_holds l lay trail.
Proof.
  exists (WLDirective "word" ["foo"] (Some " a,!)")), [""; " "; " "], "".
  split; [vm_compute; reflexivity|]. split; [vm_compute; reflexivity|].
  unfold roundtrip_holds. vm_compute. discriminate.
Qed.
Print Assumptions roundtrip_refuted_directive_comment.

(* ---------------------------------------------------------------- THE ROUND TRIP, for all trees and all layouts
   Sub-language (wline_okb false, Model/SyntaxA64.v), every line kind:
     instruction  mnemonic [A-Za-z0-9.]+ not starting with '.', 0-5 operands separated by commas, optional // comment;
       operands: scalar [xwbhsdq]N, vector/SVE [vz]N(.lanes?shape)?([idx])?, predicate pN(.lanes?shape | /z | /m)?
       (N = 0..31, either case), sp/wsp/xsp and wzr/xzr spellings, lists {r, r, ...}[idx]? and ranges {r - r}[idx]?,
       integers '#'? -? (decimal | 0xhex) of any size, floats '#'? -?d+.d+ ((e|E)(+|-)d+)? (f|F)?, identifiers
       (not spelling a register/alias/condition code), condition codes (any case), memory [xN|sp (, '#'?imm | , (x|w)N (, ext ('#'?n)?)?)?]
       followed by '!' or ', '#'?imm';
     label  ident ':' comment?;  directive  '.'name word (, word)* comment?;  comment line.
   EXCLUDED, visibly, by the hypotheses (each is refuted above and is a finding against the implementation):
     noswallow_okb  - an identifier/condition code spelled with a shift-operator prefix directly after another operand (cbz x1, lsl_loop)
     ext_words false - the extend sxtx (the implementation understands lsl, uxtw, sxtw, uxtb)
     directive clause of wline_okb - a comment containing ',' after a parameter starting with a letter or '.'
     cond_tight      - white space directly after a condition-code word
   Further side conditions of wline_okb: memory operand last (order_okb), no condition code and no pld*/pst* identifier as first operand (first_okb),
   shift amount a non-negative decimal, post-index by immediate only.
   layout_okb: every lay_i and trail is white space (space, tab, CR); it is non-empty between two words,
   between a word ending an exponent mantissa and '-', between '-' and a digit, between '/' and '/'. *)
Theorem lex_render : forall lay trail ts,
  sall is_ws trail = true -> lay_okb None lay ts = true ->
  lex (render_toks (zip_lay lay ts) (line_trail ts trail)) = Some (mark lay (line_trail ts trail) ts).
Proof. exact lex_render_tokens. Qed.
Print Assumptions lex_render.

Theorem parse_tokens_line : forall l, wline_okb false l = true -> parse_toks (toks_line l) = Parsed (denote l).
Proof. exact tokens_line. Qed.
Print Assumptions parse_tokens_line.

Theorem parse_render_line_partial : forall l lay trail,
  wline_okb false l = true -> layout_okb lay trail l = true -> cond_tight lay trail l = true ->
  parse_line (render lay trail l) = Parsed (denote l).
Proof. exact parse_render_partial. Qed.
Print Assumptions parse_render_line_partial.

(* the tokens of every well-formed line are lexable, so the layout hypothesis is spacing alone:
   white space only, non-empty where two tokens would otherwise fuse (sep_okb / clash) *)
Theorem tokens_lexable : forall l, wline_okb false l = true -> toks_okb (toks_line l) = true.
Proof. exact toks_line_okb. Qed.
Print Assumptions tokens_lexable.

Theorem parse_render_line_spacing : forall l lay trail,
  wline_okb false l = true -> spacing_okb lay trail l = true -> cond_tight lay trail l = true ->
  parse_line (render lay trail l) = Parsed (denote l).
Proof. exact parse_render_spacing. Qed.
Print Assumptions parse_render_line_spacing.

(* the instruction-line instance: mnemonic and every operand recovered *)
Theorem parse_render_instr_partial : forall mn ops c lay trail,
  wline_okb false (WLInstr mn ops c) = true -> layout_okb lay trail (WLInstr mn ops c) = true ->
  cond_tight lay trail (WLInstr mn ops c) = true ->
  parse_line (render lay trail (WLInstr mn ops c)) =
  Parsed (mkpline (Some mn) (flat_map den_wop ops) None None (option_map comment_text c)).
Proof. intros. apply (parse_render_partial (WLInstr mn ops c)); assumption. Qed.
Print Assumptions parse_render_instr_partial.

(* consequence named by the property: a register index with shift amount n has scale 2^n *)
Theorem scale_is_pow2 : forall mn b p k op h n c lay trail,
  let l := WLInstr mn [WMem b (MTIdx p k (Some (mkwext op (Some (h, n))))) c] None in
  wline_okb false l = true -> layout_okb lay trail l = true -> cond_tight lay trail l = true ->
  exists off bp bn ix pre post,
    parse_line (render lay trail l) =
    Parsed (mkpline (Some mn) [OMem off bp bn ix (Z.pow 2 (num_value n)) pre post] None None None).
Proof.
  intros mn b p k op h n c lay trail l H1 H2 H3. rewrite (parse_render_partial l lay trail H1 H2 H3).
  unfold l. simpl. do 6 eexists. reflexivity.
Qed.
Print Assumptions scale_is_pow2.

(* ---------------------------------------------------------------- non-vacuity: the hypotheses hold on one line per operand kind
   (levels a-e of the construction; each Example applies the theorem, vm_compute only discharges its boolean hypotheses) *)
Definition inst (l : wline) (lay : list string) (trail : string) : Prop :=
  wline_okb false l = true /\ layout_okb lay trail l = true /\ cond_tight lay trail l = true /\ roundtrip_holds l lay trail.
Ltac inst := unfold inst, roundtrip_holds;
  match goal with |- _ /\ _ /\ _ /\ parse_line (render ?lay ?trail ?l) = _ =>
    assert (H1 : wline_okb false l = true) by (vm_compute; reflexivity);
    assert (H2 : layout_okb lay trail l = true) by (vm_compute; reflexivity);
    assert (H3 : cond_tight lay trail l = true) by (vm_compute; reflexivity);
    split; [exact H1 | split; [exact H2 | split; [exact H3 | exact (parse_render_line_partial l lay trail H1 H2 H3)]]] end.
Definition sp1 (n : nat) : list string := repeat " " n.

(* level a: mnemonic + scalar registers / aliases + immediates + labels *)
Example rt_scalar_alias : inst (WLInstr "add" [WReg (RSp "SP"); WReg (RSp "wsp"); WReg (RZr "WZR"); X 30] None) (sp1 9) " ".
Proof. inst. Qed.
Example rt_immediates : inst (WLInstr "mov" [WInt true (mknum true true "1f"); WInt false (mknum false false "16");
                                            WFlt true (mkwfloat true "1" "25" (Some ("e"%char, "+"%char, "1")) (Some "f"%char));
                                            WFlt false (mkwfloat false "1" "5" None None)] None) (sp1 12) "".
Proof. inst. Qed.
Example rt_cond_label : inst (WLInstr "b.ne" [WIdent false ".L3"] None) (sp1 2) "" /\
                        inst (WLInstr "csel" [X 0; X 1; X 2; WCond "NE"] None) [""; " "; ""; " "; ""; " "; ""; " "] "".
Proof. split; inst. Qed.
(* level b: vector / SVE / predicate registers *)
Example rt_vector_pred : inst (WLInstr "fmla" [WReg (RPlain (mkwreg "v"%char 0 (Some ("4", "s"%char))));
                                               WReg (RPredicated (mkwreg "p"%char 1 None) "m"%char);
                                               WReg (RIndexed (mkwreg "Z"%char 2 (Some ("", "D"%char))) "1")] None) (sp1 12) "".
Proof. inst. Qed.
(* level c: memory operands *)
Example rt_memory : inst (WLInstr "ldr" [X 0; WMem (BSp "sp") (MTIdx "w"%char 2 (Some (mkwext "SXTW" (Some (true, mknum false false "3"))))) MCNone] None) (sp1 13) ""
                 /\ inst (WLInstr "ldr" [X 0; WMem (BX false 1) (MTOff true (mknum true false "8")) MCPre] None) (sp1 9) ""
                 /\ inst (WLInstr "ldr" [X 0; WMem (BX true 1) (MTIdx "x"%char 2 None) MCNone] None) (sp1 9) "".
Proof. repeat split; inst. Qed.
(* level d: register lists and ranges (with post-index) ; level e: trailing comment *)
Example rt_list_range : inst (WLInstr "ld1" [WList [mkwreg "v"%char 0 (Some ("2","d"%char)); mkwreg "v"%char 1 (Some ("2","d"%char))] (Some "1");
                                             WRange (mkwreg "v"%char 4 (Some ("4","s"%char))) (mkwreg "v"%char 7 (Some ("4","s"%char))) None;
                                             WMem (BX false 0) MTNone (MCPost true (mknum false false "64"))] (Some " x  y ")) (sp1 30) "".
Proof. inst. Qed.
Example rt_scale_is_pow2 :
  parse_line "ldr x0, [x1, x2, lsl #3]" =
  Parsed (mkpline (Some "ldr") [OReg (plain "x" "0"); OMem MOffNone "x" "1" (Some (mkmindex "x" "2" (Some "lsl") (Some "3"))) 8 false None] None None None).
Proof. vm_compute. reflexivity. Qed.
Example rt_other_lines : inst (WLLabel ".L3" (Some " hi")) (sp1 3) "" /\ inst (WLDirective "p2align" ["4"; "15"] None) (sp1 4) "" /\
                         inst (WLComment " a  b") (sp1 1) "".
Proof. repeat split; inst. Qed.
(* the tightest and a loose layout of one line are both covered *)
Example rt_layout_tight : inst (WLInstr "ldr" [X 0; WMem (BX false 1) (MTOff true (mknum false false "8")) MCPre] None) [""; " "] "" /\
  render [""; " "] "" (WLInstr "ldr" [X 0; WMem (BX false 1) (MTOff true (mknum false false "8")) MCPre] None) = "ldr x0,[x1,#8]!".
Proof. split; [inst | vm_compute; reflexivity]. Qed.
