(* Property C02 -- optimised schedule never worse than uniform and close to the true optimum.
   Theorems only; proofs in Proofs/{Optimum,Family}.v. *)
From Coq Require Import QArith List Bool String ZArith PrimFloat.
From OV Require Import Model.Num Model.Pressure Model.Family Proofs.Feasible Proofs.Optimum Proofs.Family.
Import ListNotations.
Open Scope Q_scope.

(* (1) weak duality, unbounded in kernel length and port count: if every instruction's pressure is a feasible
       split (slack eps per share) then any upper bound B of all per-port totals -- in particular the
       bottleneck -- satisfies  |S| * B >= cycles confined to S - slack,  for EVERY port set S.  With C01's
       feasibility of the uniform split (eps = 0) this says the exact optimum max_S confined(S)/|S| is a lower
       bound of the bottleneck of any exact schedule. *)
Theorem C02_optimum_is_lower_bound : forall P eps ks S B,
  0 <= eps ->
  (forall i, (i < List.length ks)%nat -> Feasible P eps (fst (kget ks i)) (snd (kget ks i))) ->
  (forall p, (p < P)%nat -> kload ks p <= B) ->
  kconfined S ks - kslack P eps S ks <= card P S * B.
Proof. exact opt_is_lower_bound. Qed.
Print Assumptions C02_optimum_is_lower_bound.

Theorem C02_exact_schedules_reach_no_less_than_optimum : forall P ks S B,
  (forall i, (i < List.length ks)%nat -> Feasible P 0 (fst (kget ks i)) (snd (kget ks i))) ->
  (forall p, (p < P)%nat -> kload ks p <= B) ->
  0 < card P S -> kconfined S ks / card P S <= B.
Proof. exact bottleneck_ge_exact_optimum. Qed.
Print Assumptions C02_exact_schedules_reach_no_less_than_optimum.

(* (2) the bounded family of the property, on the BIT-EXACT binary64 model of the CLI path (two passes):
       the family is complete for its shape (5355 kernels) and for every kernel in it the reported bottleneck
       is within 0.15 cycles of the exact optimum, never above the uniform bottleneck and never more than
       the 0.01 rounding step below the optimum.  Finite domain, bound in the statement; comparisons exact. *)
Theorem C02_family_complete : forall w,
  (forall f, In f w -> is_form f) ->
  ((1 <= List.length w <= 3)%nat \/ (List.length w = 4%nat /\ forall f, In f w -> fst f = false)) ->
  In w family.
Proof. exact family_complete. Qed.
Print Assumptions C02_family_complete.

Theorem C02_small_family_near_optimum : forall w, In w family -> near_opt w = true /\ sane w = true.
Proof.
  intros w H. pose proof family_near_opt_sweep as S. rewrite forallb_forall in S.
  specialize (S w H). apply andb_true_iff in S. exact S.
Qed.
Print Assumptions C02_small_family_near_optimum.

Example C02_family_size : List.length family = 5355%nat.
Proof. exact family_size. Qed.
