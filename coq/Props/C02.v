(* Property C02 -- optimised schedule never worse than uniform and close to the true optimum.
   Theorems only; proofs in Proofs/{Optimum,Family}.v. *)
From Coq Require Import QArith List Bool String ZArith PrimFloat.
From OV Require Import Model.Num Model.Pressure Model.Family Proofs.Feasible Proofs.Optimum Proofs.Family.
Import ListNotations.
Open Scope Q_scope.

(* (1) weak duality, unbounded in kernel length and port count: if every instruction's pressure is a feasible
       split (slack eps per share) then any upper bound B of all per-port totals -- in particular the
       bottleneck -- satisfies  |S| * B >= cycles confined to S - slack,  for EVERY port set S.  With C01's
       feasibility of the uniform split (eps = 0) this says the exact optimum max_S confined(S)/|S| is a lower
       bound of the bottleneck of any exact schedule. *)
Theorem C02_optimum_is_lower_bound : forall P eps ks S B,
  0 <= eps ->
  (forall i, (i < List.length ks)%nat -> Feasible P eps (fst (kget ks i)) (snd (kget ks i))) ->
  (forall p, (p < P)%nat -> kload ks p <= B) ->
  kconfined S ks - kslack P eps S ks <= card P S * B.
Proof. exact opt_is_lower_bound. Qed.
Print Assumptions C02_optimum_is_lower_bound.

Theorem C02_exact_schedules_reach_no_less_than_optimum : forall P ks S B,
  (forall i, (i < List.length ks)%nat -> Feasible P 0 (fst (kget ks i)) (snd (kget ks i))) ->
  (forall p, (p < P)%nat -> kload ks p <= B) ->
  0 < card P S -> kconfined S ks / card P S <= B.
Proof. exact bottleneck_ge_exact_optimum. Qed.
Print Assumptions C02_exact_schedules_reach_no_less_than_optimum.

(* (2) the bounded family of the property, on the BIT-EXACT binary64 model of the CLI path (two passes):
       the family is complete for its shape (5355 kernels) and for every kernel in it the reported bottleneck
       is within 0.15 cycles of the exact optimum, never above the uniform bottleneck and never more than
       the 0.01 rounding step below the optimum.  Finite domain, bound in the statement; comparisons exact. *)
Theorem C02_family_complete : forall w,
  (forall f, In f w -> is_form f) ->
  ((1 <= List.length w <= 3)%nat \/ (List.length w = 4%nat /\ forall f, In f w -> fst f = false)) ->
  In w family.
Proof. exact family_complete. Qed.
Print Assumptions C02_family_complete.

Theorem C02_small_family_near_optimum : forall w, In w family -> near_opt w = true /\ sane w = true.
Proof.
  intros w H. pose proof family_near_opt_sweep as S. rewrite forallb_forall in S.
  specialize (S w H). apply andb_true_iff in S. exact S.
Qed.
Print Assumptions C02_small_family_near_optimum.

Example C02_family_size : List.length family = 5355%nat.
Proof. exact family_size. Qed.

(* ======================================================================================================================
   (3) ONE optimisation pass, exact rationals, kernels of ANY length without alternative port assignments
   (Proofs/BalancePass.v): C01's one-pass feasibility (slack 1/100 per (micro-op, port)) combined with weak duality (1).
   kview ports k = the instructions of k with their micro-ops (port numbers) and rows; only lines with a throughput are
   counted, as in get_throughput_sum; bottleneck = max of the port sums ROUNDED to hundredths (what OSACA reports). *)
From OV Require Import Proofs.PressureQ Proofs.BalanceMulti Proofs.BalancePass.

Theorem C02_one_pass_bottleneck_ge_optimum : forall ports (k k' : list (instr (T:=Q))) e B S,
  all_start_ok ports k -> balance QNum ports k = Ok (k', e) -> bottleneck QNum k' = Ok B ->
  kconfined S (kview ports (filter (counted QNum) k'))
  - kslack (List.length ports) (1 # 100) S (kview ports (filter (counted QNum) k'))
  <= card (List.length ports) S * (B + (1 # 200)).
Proof. exact pass_bottleneck_ge_optimum. Qed.
Print Assumptions C02_one_pass_bottleneck_ge_optimum.

(* for EVERY non-empty port set S: reported bottleneck >= (cycles of the INPUT kernel's counted micro-ops confined to S) / |S|
   - 1/100 per counted micro-op not confined to S - 1/200 (rounding of the port sums).  The exact optimum is the maximum of
   the first term over S, so: bottleneck >= optimum - explicit slack. *)
Theorem C02_one_pass_near_optimum : forall ports (k k' : list (instr (T:=Q))) e B S,
  all_start_ok ports k -> balance QNum ports k = Ok (k', e) -> bottleneck QNum k' = Ok B ->
  0 < card (List.length ports) S ->
  kconfined S (kview ports (filter (counted QNum) k)) / card (List.length ports) S
  - (1 # 100) * knonconf S (kview ports (filter (counted QNum) k)) - (1 # 200) <= B.
Proof. exact pass_bottleneck_near_optimum. Qed.
Print Assumptions C02_one_pass_near_optimum.

(* non-vacuity: the 3-port kernel of C01_one_pass_nonvacuous; reported bottleneck 0.78 (port 0) *)
Example C02_one_pass_nonvacuous :
  all_start_ok exm_ports exm_kernel /\
  exists k', balance QNum exm_ports exm_kernel = Ok (k', 0%nat) /\ bottleneck QNum k' = Ok (39 # 50) /\
             0 < card (List.length exm_ports) (fun p => Nat.eqb p 0).
Proof. split; [exact (proj1 balance_pass_nonvacuous) | exact pass_bottleneck_nonvacuous]. Qed.

(* the same with the sharper slack of Proofs/HallSharp.v: 1/100 per pair (counted micro-op of the input kernel not confined
   to S, port of S it may use); single-port micro-ops outside S and multi-port micro-ops disjoint from S cost nothing *)
From OV Require Import Proofs.HallSharp Proofs.BalancePassSharp.

Theorem C02_one_pass_near_optimum_sharp : forall ports (k k' : list (instr (T:=Q))) e B S,
  all_start_ok ports k -> balance QNum ports k = Ok (k', e) -> bottleneck QNum k' = Ok B ->
  0 < card (List.length ports) S ->
  (kconfined S (kview ports (filter (counted QNum) k))
   - (1 # 100) * kpairs (List.length ports) S (kview ports (filter (counted QNum) k))) / card (List.length ports) S
  - (1 # 200) <= B.
Proof. exact pass_bottleneck_near_optimum_sharp. Qed.
Print Assumptions C02_one_pass_near_optimum_sharp.
