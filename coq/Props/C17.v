(* C17 -- Model caches are transparent, also after interrupted or racing writes.
   Property theorems only; models in Model/Cache.v, proofs in Proofs/Cache.v.

   w : setup  fixes the number of chunks of a pickle, the loader (INTERNAL_VERSION, code identity), the write
   discipline (InPlace = shipped code, AtomicRename = repaired code) and the os.access answers.
   A history is any list of labels: LSpawn (a load starts), LStep (one process advances one step -- arbitrary
   interleaving), LCrash (a process disappears before its next step), LEdit (the model file changes).
   w_rt w = RtIgnored is the shipped rule for the in-process cache (never served); all theorems are about it, the
   refutation inproc_served_by_path_refuted is about the variant RtServed.
   w_rehash w = true models code whose _write_in_cache takes the cache key from a third read of the model file
   (before the repair "hash the parsed bytes"); false models the repaired code (key = hash of the parsed bytes).
   `quiet` only restricts LEdit, and only when w_rehash w = true: not while a load of that file sits between its
   parse and its write-hash (load_refines_parse_unguarded_refuted: for re-hashing code the restriction is necessary;
   load_refines_parse_full: for the repaired code no restriction is needed). *)
From Coq Require Import List Arith Bool.
From OV Require Import Model.Cache Proofs.Cache.
Import ListNotations.

(* 1. the keyed-content invariant is preserved by every step, under both disciplines *)
Theorem cache_content_keyed :
  forall w s0 ls s, w_rt w = RtIgnored -> Inv w s0 -> quiet w s0 ls -> run w s0 ls = Some s -> Inv w s /\ Keyed w s.
Proof. intros w s0 ls s Hrt HI HQ HR. assert (Inv w s) by (eapply run_inv; eauto). split; auto. apply InvF_Keyed, H. Qed.
Print Assumptions cache_content_keyed.

Theorem cache_content_keyed_step :
  forall w, w_rt w = RtIgnored -> forall s l s', Inv w s -> guard w s l -> step w s l = Some s' -> Inv w s'.
Proof. exact step_inv. Qed.
Print Assumptions cache_content_keyed_step.

(* the empty file system with any model-file contents satisfies the invariant (non-vacuity of the hypothesis) *)
Example inv_initial : forall w y, Inv w (empty_state y).
Proof. exact Inv_empty. Qed.

(* 2. every load that returns, returns the parse of the content it read -- and of the current content when no edit
      raced it: cold, cache-writing, companion-served and home-served loads are indistinguishable; under both
      disciplines, all interleavings, crashes of other processes included *)
Theorem load_refines_parse : refines_stmt true.
Proof. exact refines_guarded. Qed.
Print Assumptions load_refines_parse.

(* 2a. full strength -- edits at any time, no side condition -- for code that keys the cache by the parsed bytes *)
Theorem load_refines_parse_full : refines_full_stmt.
Proof. exact refines_full. Qed.
Print Assumptions load_refines_parse_full.

(* 2b. full strength is false of code that hashes the file again for the write (three reads are not atomic) *)
Theorem load_refines_parse_unguarded_refuted : ~ refines_stmt false.
Proof. exact refines_unguarded_refuted. Qed.
Print Assumptions load_refines_parse_unguarded_refuted.

(* 2c. the hypothesis Inv on the initial state (same_ver: no pickle built by other loader code under the same
       INTERNAL_VERSION) cannot be dropped *)
Theorem same_ver_hypothesis_needed :
  exists d, outcome_of (load wA stale_state 0 pa0 false) 0 = ODone d /\ d <> parse gI (yaml stale_state pa0).
Proof. exact same_ver_needed. Qed.
Print Assumptions same_ver_hypothesis_needed.

(* 3. AtomicRename: for every history -- every crash point, every racing writer -- no process ever raises and no
      partial file is ever visible under a final name *)
Theorem atomic_never_raises :
  forall w s0 ls s, w_rt w = RtIgnored -> w_disc w = AtomicRename -> 0 < w_nch w ->
    Inv w s0 -> NoRaise s0 -> quiet w s0 ls -> run w s0 ls = Some s -> NoRaise s.
Proof. intros w s0 ls s Hrt Ha Hn HI HN HQ HR. destruct (run_atomic w Hrt Ha Hn ls s0 s HI HQ HR) as [A _]; auto. Qed.
Print Assumptions atomic_never_raises.

Theorem no_partial_visible :
  forall w s0 ls s, w_rt w = RtIgnored -> w_disc w = AtomicRename -> 0 < w_nch w ->
    Inv w s0 -> NoPartial w s0 -> quiet w s0 ls -> run w s0 ls = Some s -> NoPartial w s.
Proof. intros w s0 ls s Hrt Ha Hn HI HN HQ HR. destruct (run_atomic w Hrt Ha Hn ls s0 s HI HQ HR) as [_ B]; auto. Qed.
Print Assumptions no_partial_visible.

(* 4. AtomicRename: after any history (also one that starts with truncated files planted under final names), a later
      run completes and returns the parse of the current content *)
Theorem atomic_later_run_ok : later_run_ok_stmt AtomicRename.
Proof. exact Proofs.Cache.atomic_later_run_ok. Qed.
Print Assumptions atomic_later_run_ok.

(* 4b. the repaired code (AtomicRename, key = hash of the parsed bytes): every history whatsoever -- edits at any
       time, every crash point, racing writers -- keeps the invariant, never raises, shows nothing partial, and a
       later run completes with the parse of the current content *)
Theorem current_code_safe :
  forall nch g e s0 ls s, 0 < nch ->
    let w := mkSetup nch g AtomicRename e false RtIgnored in
    Inv w s0 -> run w s0 ls = Some s ->
    Inv w s /\ (NoRaise s0 -> NoRaise s) /\ (NoPartial w s0 -> NoPartial w s).
Proof. exact Proofs.Cache.current_code_safe. Qed.
Print Assumptions current_code_safe.

Theorem current_code_later_run_ok :
  forall nch g e s0 ls s pid pa, 0 < nch ->
    let w := mkSetup nch g AtomicRename e false RtIgnored in
    Inv w s0 -> run w s0 ls = Some s -> procs s pid = None ->
    outcome_of (load w s pid pa false) pid = ODone (parse g (yaml s pa)).
Proof. exact Proofs.Cache.current_code_later_run_ok. Qed.
Print Assumptions current_code_later_run_ok.

Example edit_race_harmless_without_rehash :
  let s := run_skip wA1n (empty_state y0) (hist_edit_race ++ repeat (LStep 1) 12) in
  outcome_of s 0 = ODone (parse gI 7) /\ outcome_of s 1 = ODone (parse gI 8) /\
  observe wA1n s (Comp 0 0 7) = OComplete (parse gI 7) /\ observe wA1n s (Comp 0 0 8) = OComplete (parse gI 8).
Proof. exact Proofs.Cache.edit_race_harmless_without_rehash. Qed.

(* 5. InPlace (the shipped code): the same statement is false; witnesses: a writer killed after the truncate makes
      every later load raise; without any crash, a reader between a writer's truncate and close raises *)
Theorem inplace_refuted : ~ later_run_ok_stmt InPlace.
Proof. exact inplace_later_run_fails. Qed.
Print Assumptions inplace_refuted.

Theorem inplace_refuted_crash :
  exists s, run wI (empty_state y0) hist_crash = Some s /\
            outcome_of (load wI s 1 pa0 false) 1 = ORaised /\ observe wI s (Comp 0 0 7) = OPartial 0.
Proof. exact inplace_raises_after_crash. Qed.

Theorem inplace_refuted_race :
  exists s, run wI (empty_state y0) hist_race = Some s /\ no_crash hist_race = true /\ outcome_of s 1 = ORaised.
Proof. exact inplace_raises_in_race. Qed.
Print Assumptions inplace_refuted_race.

(* the same two histories under AtomicRename *)
Example atomic_on_the_refuting_histories :
  (exists s, run wA (empty_state y0) hist_crash = Some s /\
             outcome_of (load wA s 1 pa0 false) 1 = ODone (parse gI 7) /\
             observe wA s (Comp 0 0 7) = OAbsent /\ observe wA s (Tmp 0) = OPartial 0) /\
  (exists s, run wA (empty_state y0) hist_race = Some s /\ outcome_of s 1 = ORunning /\
             outcome_of (solo wA 20 (solo wA 20 s 1) 0) 1 = ODone (parse gI 7) /\
             outcome_of (solo wA 20 (solo wA 20 s 1) 0) 0 = ODone (parse gI 7)).
Proof. exact atomic_same_histories. Qed.

(* 5b. the in-process cache (MachineModel._runtime_cache, per process: path -> data of the last completed load).
       Shipped rule (w_rt = RtIgnored: a hit is always overridden by the content-keyed lookup or a re-parse): a load in a
       process that loaded the path before -- whatever its runtime cache holds, also data of an older content -- returns
       the parse of the CURRENT content, after any history.  The variant that serves the hit by path is refuted
       (load, edit, load again in one process returns the old data). *)
Theorem inproc_load_refines_parse : inproc_stmt RtIgnored.
Proof. exact inproc_ignored. Qed.
Print Assumptions inproc_load_refines_parse.

Theorem inproc_served_by_path_refuted : ~ inproc_stmt RtServed.
Proof. exact inproc_served_refuted. Qed.
Print Assumptions inproc_served_by_path_refuted.

Example inproc_load_edit_load :
  let wN := mkSetup 4 gI AtomicRename eI false RtIgnored in
  let s := run_skip wN (empty_state y0) hist_inproc in
  outcome_of s 0 = ODone (parse gI 7) /\ yaml s pa0 = 8 /\
  outcome_of (loadp wN s 1 pa0 false (Some 0)) 1 = ODone (parse gI 8) /\
  outcome_of (loadp wS s 1 pa0 false (Some 0)) 1 = ODone (parse gI 7).
Proof. exact inproc_demo. Qed.

(* 6. the lazy (header-only) load of the report generator neither reads nor writes a cache file *)
Theorem lazy_load_cache_free :
  forall w s pid pa, procs s pid = None ->
    files (load w s pid pa true) = files s /\ outcome_of (load w s pid pa true) pid = OLazy (yaml s pa).
Proof. exact lazy_load. Qed.
Print Assumptions lazy_load_cache_free.

(* non-vacuity: a guarded history with a cold load, a load served from the cache, an edit and a reload *)
Example history_nonvacuous :
  exists s, Inv wA (empty_state y0) /\ quiet wA (empty_state y0) hist_demo /\
            run wA (empty_state y0) hist_demo = Some s /\
            outcome_of s 0 = ODone (parse gI 7) /\ outcome_of s 1 = ODone (parse gI 7) /\
            outcome_of s 2 = ODone (parse gI 8) /\
            observe wA s (Comp 0 0 7) = OComplete (parse gI 7) /\ observe wA s (Comp 0 0 8) = OComplete (parse gI 8).
Proof. exact demo_history. Qed.

(* a pickle never decodes from a proper prefix *)
Example prefix_never_decodes : forall n d k, k <> n -> decode n (repeat (Some d) k) = None.
Proof. exact decode_prefix. Qed.
