(* C09 -- x86 AT&T parser recovers every line and operand exactly as written.
   Property theorems over the executable model Model/ParseX86.v + Model/ParseFileX86.v (tied to
   osaca/parser/parser_x86att.py and base_parser.py by the differential harness of checks/c09.py).
   Sub-language: Model/SubLangX86.v (valid_instr, valid_layout, ...). *)
From Coq Require Import String Ascii List Bool NArith ZArith.
From OV Require Import Model.ParseX86 Model.ParseFileX86 Model.SubLangX86
                       Proofs.ParseX86Op Proofs.ParseX86Line Proofs.ParseFileX86.
Import ListNotations.
Open Scope string_scope.

(* ------------------------------------------------------------------------------------------------
   Round trip: for ALL instruction ASTs of the sub-language (a letter-initial alphanumeric mnemonic,
   0-4 operands: any %alphanumeric register, any integer immediate, $label / label, memory
   disp(base,index,scale) in the 7 writable presence combinations, scales 1 2 4 8, and segment-override
   references %seg:disp(base,index,scale) -- displacement absent, a number as written (decimal, hexadecimal,
   negative, leading zeros), or identifier[@relocation[+-offset]]; all base/index/scale shapes incl. none)
   and ALL layouts (any blanks before the mnemonic, around commas, inside the parentheses, around the ":" of a
   segment override, before "@" and around the "+" of a relocation offset, before the end; hexadecimal
   (either case) or decimal spelling of every integer; scale 1 written or omitted; optional trailing
   "#"/"//" comment of printable text), the parser returns exactly the AST: the same number of operands,
   each of the written kind with the written parts. *)
Theorem parse_render_instr : forall lay a,
  valid_instr a = true -> valid_layout lay = true ->
  parse_line (render_line lay a) = Parsed (PInstr (fst a) (snd a)).
Proof. exact roundtrip_proof. Qed.
Print Assumptions parse_render_instr.

(* ------------------------------------------------------------------------------------------------
   The WRITTEN language is larger than what the code keeps.  valid_instr_w adds: opmasks %zmm3{%k1}{z} and
   disp(base,index,scale){%k1}; identifier@RELOCATION[+-offset] as operand, as $immediate and as displacement;
   numeric labels 1b / 2f (first operand); in every layout (blanks around every brace, "%" of the mask written or
   not, "*" in front of a parenthesised memory reference, data16 / data32 prefixes in front of the mnemonic).
   For ALL such lines the parser returns the mnemonic and, for every operand, its code_view: everything the
   property names (the operand count and kinds, register names, displacement / base / index / scale, the
   identifier's name, the numeric label's number) and not the mask, the relocation, the offset after it, the b/f
   direction -- parser_x86att.py drops those (process_register, process_identifier, process_memory_address).
   valid_instr = valid_instr_w + `lossless`: there code_view is the identity and the statement above follows. *)
Theorem parse_render_instr_written : forall lay a,
  valid_instr_w a = true -> valid_layout lay = true ->
  parse_line (render_line lay a) = Parsed (PInstr (fst a) (map code_view (snd a))).
Proof. exact roundtrip_view_proof. Qed.
Print Assumptions parse_render_instr_written.

(* what code_view keeps: the register name, the whole address, the identifier name, the label number;
   its results are lossless (a normal form), and on lossless operands it is the identity *)
Theorem code_view_keeps :
  (forall n k z, code_view (ORegK n k z) = OReg n)
  /\ (forall d b i sc k, code_view (OMemK d b i sc k) = OMem (disp_view d) b i sc)
  /\ (forall n rel off b i sc, code_view (OMem (DIdR n rel off) b i sc) = OMem (DId n) b i sc)
  /\ (forall n rel off, code_view (OIdR n rel off) = OId n)
  /\ (forall d x, code_view (ONumLbl d x) = OId d)
  /\ (forall o, lossless (code_view o) = true)
  /\ (forall o, lossless o = true -> code_view o = o)
  /\ (forall ops, length (map code_view ops) = length ops).
Proof.
  repeat split; try reflexivity.
  - intro o. destruct o as [| | |d ? ? ?| | | |d ? ? ? ?| |]; try reflexivity; destruct d; reflexivity.
  - exact lossless_view.
  - intro. apply map_length.
Qed.
Print Assumptions code_view_keeps.

(* the full as-written statement is FALSE for the written language: the mask, the relocation and the direction of a
   numeric label are not recovered (machine-checked witnesses; recorded as observations by checks/c09.py) *)
Theorem parse_render_instr_written_full_refuted :
  (exists lay a, valid_instr_w a = true /\ valid_layout lay = true
                 /\ render_line lay a = "vaddpd %zmm1,%zmm2,%zmm3{%k1}{z}"
                 /\ parse_line (render_line lay a) <> Parsed (PInstr (fst a) (snd a)))
  /\ (exists lay a, valid_instr_w a = true /\ valid_layout lay = true
                 /\ render_line lay a = "call foo@PLT"
                 /\ parse_line (render_line lay a) <> Parsed (PInstr (fst a) (snd a)))
  /\ (exists lay a, valid_instr_w a = true /\ valid_layout lay = true
                 /\ render_line lay a = "mov foo@GOTPCREL+8(%rip),%rax"
                 /\ parse_line (render_line lay a) <> Parsed (PInstr (fst a) (snd a)))
  /\ (exists lay1 lay2 a1 a2, valid_instr_w a1 = true /\ valid_instr_w a2 = true /\ valid_layout lay1 = true /\ valid_layout lay2 = true
                 /\ render_line lay1 a1 = "jmp 1b" /\ render_line lay2 a2 = "jmp 1f"
                 /\ parse_line (render_line lay1 a1) = parse_line (render_line lay2 a2)).
Proof.
  pose (lk := mkOplay false false false false "" "" "" "" "" "" "" "" "" "" "" "" (mkKlay false "" true "" "" "" "" "" "" "")).
  pose (l0 := mkLayout "" " " [(lk, "", ""); (lk, "", ""); (lk, "", "")] "" None []).
  repeat split.
  - exists l0, ("vaddpd", [OReg "zmm1"; OReg "zmm2"; ORegK "zmm3" "k1" true]). vm_compute. repeat split; discriminate.
  - exists l0, ("call", [OIdR "foo" "PLT" None]). vm_compute. repeat split; discriminate.
  - exists l0, ("mov", [OMem (DIdR "foo" "GOTPCREL" (Some "8")) (Some "rip") None 1; OReg "rax"]). vm_compute. repeat split; discriminate.
  - exists l0, l0, ("jmp", [ONumLbl "1" "b"%char]), ("jmp", [ONumLbl "1" "f"%char]). vm_compute. repeat split; reflexivity.
Qed.
Print Assumptions parse_render_instr_written_full_refuted.

(* "regardless of surrounding whitespace, tabs, separators' spacing, hex or decimal, trailing comment" *)
Corollary layout_irrelevant : forall lay1 lay2 a,
  valid_instr a = true -> valid_layout lay1 = true -> valid_layout lay2 = true ->
  parse_line (render_line lay1 a) = parse_line (render_line lay2 a).
Proof. intros. rewrite !parse_render_instr by assumption. reflexivity. Qed.
Print Assumptions layout_irrelevant.

(* the displacement of a segment-override reference is kept as text (the implementation does not convert it);
   every spelling of every integer is such a text, and it denotes that integer *)
Theorem segment_displacement_spelling : forall lo z,
  valid_numtxt (S_ (render_Z lo z)) = true /\ parse_number (render_Z lo z) = Some (NumOk z, []).
Proof. intros. split; [apply render_Z_numtxt|apply render_Z_value]. Qed.
Print Assumptions segment_displacement_spelling.

(* a segment-override reference is ONE operand, whatever its displacement and address part:
   the instance of the round trip for  m  o1, %seg:disp(base,index,scale), o3 *)
Corollary segment_reference_is_one_operand : forall lay m pre sg d b i sc post,
  valid_instr (m, (pre ++ OSeg sg d b i sc :: post)%list) = true -> valid_layout lay = true ->
  exists ops, parse_line (render_line lay (m, (pre ++ OSeg sg d b i sc :: post)%list)) = Parsed (PInstr m ops)
              /\ length ops = length pre + 1 + length post /\ nth (length pre) ops (OId "") = OSeg sg d b i sc.
Proof.
  intros. eexists. split; [apply (parse_render_instr lay (m, (pre ++ OSeg sg d b i sc :: post)%list)); assumption|].
  simpl snd. split.
  - rewrite app_length. simpl. rewrite <- PeanoNat.Nat.add_assoc. reflexivity.
  - rewrite app_nth2 by apply le_n. rewrite PeanoNat.Nat.sub_diag. reflexivity.
Qed.
Print Assumptions segment_reference_is_one_operand.

(* ------------------------------------------------------------------------------------------------ other kinds *)
Theorem classify_comment_line : forall lead slashes text,
  blanks lead = true -> allc is_textc text = true ->
  parse_line (render_comment_line lead slashes text) = Parsed PComment.
Proof. exact comment_line_proof. Qed.
Print Assumptions classify_comment_line.

Theorem classify_label_line : forall lead name w1 w2 c,
  blanks lead = true -> valid_label name = true -> blanks w1 = true -> blanks w2 = true -> valid_comment c = true ->
  parse_line (render_label_line lead name w1 w2 c) = Parsed (PLabel name).
Proof. exact label_line_proof. Qed.
Print Assumptions classify_label_line.

Theorem classify_numeric_label_line : forall lead name w1 w2 c,
  blanks lead = true -> valid_numlabel name = true -> blanks w1 = true -> blanks w2 = true -> valid_comment c = true ->
  parse_line (render_label_line lead name w1 w2 c) = Parsed (PLabel name).
Proof. exact numeric_label_line_proof. Qed.
Print Assumptions classify_numeric_label_line.

Theorem classify_directive_line : forall lead name rest,
  blanks lead = true -> valid_dirname name = true -> valid_dirrest rest = true ->
  parse_line (render_directive_line lead name rest) = Parsed (PDirective name).
Proof. exact directive_line_proof. Qed.
Print Assumptions classify_directive_line.

(* a parsed line is exactly one of comment / label / directive / instruction *)
Theorem classify_exclusive : forall s p, parse_line s = Parsed p ->
  let o := parse_line s in
  (kind_comment o /\ ~ kind_label o /\ ~ kind_directive o /\ ~ kind_instruction o)
  \/ (~ kind_comment o /\ kind_label o /\ ~ kind_directive o /\ ~ kind_instruction o)
  \/ (~ kind_comment o /\ ~ kind_label o /\ kind_directive o /\ ~ kind_instruction o)
  \/ (~ kind_comment o /\ ~ kind_label o /\ ~ kind_directive o /\ kind_instruction o).
Proof. exact classify_exclusive_proof. Qed.
Print Assumptions classify_exclusive.

(* ------------------------------------------------------------------------------------------------ files *)
(* the pieces of split("\n") really are the lines of the file *)
Theorem file_lines_faithful : forall content,
  S_ (join_nl (file_lines content)) = content
  /\ Forall (fun l => forallb (fun c => negb (is_nl c)) l = true) (file_lines content).
Proof. intro. split; [apply file_lines_join|apply split_no_nl]. Qed.
Print Assumptions file_lines_faithful.

(* line numbers = 1-based (plus start_line) positions of the non-blank lines, in order *)
Theorem parse_file_lines : forall content start,
  map fl_number (parse_file content start)
  = map (fun p => p + 1 + start) (positions_from 0 (file_lines content))
  /\ (forall p, In p (positions_from 0 (file_lines content))
              <-> p < length (file_lines content) /\ blank (nth p (file_lines content) []) = false)
  /\ Sorted.StronglySorted lt (positions_from 0 (file_lines content)).
Proof.
  intros. split; [apply parse_file_lines_proof|]. split; [intro; apply positions_in|].
  apply positions_increasing.
Qed.
Print Assumptions parse_file_lines.

(* verbatim text; the number of each parsed line points at its own text; it is parsed by parse_line *)
Theorem parse_file_text : forall content start,
  map fl_text (parse_file content start) = map S_ (filter nonblank (file_lines content))
  /\ forall f, In f (parse_file content start) ->
       1 + start <= fl_number f
       /\ nth (fl_number f - 1 - start) (file_lines content) [] = L (fl_text f)
       /\ blank (L (fl_text f)) = false
       /\ fl_parsed f = parse_line (fl_text f).
Proof. exact parse_file_text_proof. Qed.
Print Assumptions parse_file_text.

(* exactly one parsed line per non-blank line *)
Theorem parse_file_count : forall content start,
  length (parse_file content start) = length (filter nonblank (file_lines content)).
Proof. exact parse_file_count_proof. Qed.
Print Assumptions parse_file_count.

(* ------------------------------------------------------------------------------------------------ non-vacuity *)
Definition tab : string := String (ascii_of_nat 9) "".
Definition lo0 := default_oplay.
Definition kl_sp := mkKlay false " " true " " tab " " tab " " tab " ".
Definition lo_hexU := mkOplay true true false false "" " " tab "" " " tab "" " " tab " " tab " " kl_sp.
Definition lo_omit := mkOplay false false true true "" "" "" " " "" "" "" "" "" "" "" "" default_klay.
Definition lo_star := mkOplay false false true false "" "" "" "" "" "" "" "" "" "" "" "" (mkKlay true " " false "" "" "" "" "" "" "").
Definition lay0 := mkLayout "" " " [] "" None [].
Definition lay1 := mkLayout tab tab [(lo_hexU, " ", ""); (lo_omit, "", tab); (lo0, tab, " ")] " " (Some (false, " LLVM-MCA x: $1,(%rax)")) [].
Definition lay_pre := mkLayout tab " " [(lo_star, "", ""); (lo_star, "", "")] "" None [(false, " "); (true, tab)].

(* one rendered line per operand kind; the layouts and ASTs satisfy the hypotheses *)
Example ex_reg : render_line lay0 ("mov", [OReg "rax"; OReg "xmm31"]) = "mov %rax,%xmm31"
  /\ valid_instr ("mov", [OReg "rax"; OReg "xmm31"]) = true /\ valid_layout lay0 = true.
Proof. vm_compute. auto. Qed.
Example ex_imm : render_line lay1 ("movq", [OImm (-255); OImm 18446744073709551615; OReg "R15D"])
  = tab ++ "movq" ++ tab ++ "$-0xFF ," ++ tab ++ "$18446744073709551615, %R15D" ++ tab ++ " # LLVM-MCA x: $1,(%rax)"
  /\ valid_instr ("movq", [OImm (-255); OImm 18446744073709551615; OReg "R15D"]) = true /\ valid_layout lay1 = true.
Proof. vm_compute. auto. Qed.
Example ex_imm_parsed :
  parse_line (tab ++ "movq" ++ tab ++ "$-0xFF ," ++ tab ++ "$18446744073709551615, %R15D" ++ tab ++ " # LLVM-MCA x: $1,(%rax)")
  = Parsed (PInstr "movq" [OImm (-255); OImm 18446744073709551615; OReg "R15D"]).
Proof. vm_compute. reflexivity. Qed.
Example ex_label : render_line lay0 ("jne", [OId ".L4"]) = "jne .L4"
  /\ render_line lay1 ("movq", [OId "table+8"; OReg "rax"]) = tab ++ "movq" ++ tab ++ "table+8 ," ++ tab ++ "%rax # LLVM-MCA x: $1,(%rax)"
  /\ render_line lay0 ("cmp", [OReg "rax"; OId "foo"]) = "cmp %rax,$foo"
  /\ valid_instr ("jne", [OId ".L4"]) = true /\ valid_instr ("cmp", [OReg "rax"; OId "foo"]) = true.
Proof. vm_compute. auto 6. Qed.
(* memory: the 7 writable presence combinations of displacement / base / index *)
Definition mems : list operand :=
  [ OMem (DInt 4096) None None 1; OMem DNone (Some "rax") None 1; OMem DNone None (Some "rbx") 8;
    OMem DNone (Some "rax") (Some "rbx") 1; OMem (DInt (-8)) (Some "rbp") None 1;
    OMem (DInt 16) None (Some "r9") 4; OMem (DId "foo") (Some "rip") (Some "zmm3") 2 ].
Example ex_mem_valid : forallb valid_operand mems = true.
Proof. vm_compute. reflexivity. Qed.
Example ex_mem_render :
  map (fun o => render_line lay1 ("lea", [o])) mems =
  map (fun s => tab ++ "lea" ++ tab ++ s ++ "  # LLVM-MCA x: $1,(%rax)")
      [ "0x1000"; "( %rax" ++ tab ++ ")"; "( ,%rbx ," ++ tab ++ "8)"; "( %rax" ++ tab ++ ",%rbx ," ++ tab ++ "1)";
        "-0x8( %rbp" ++ tab ++ ")"; "0x10( ,%r9 ," ++ tab ++ "4)"; "foo( %rip" ++ tab ++ ",%zmm3 ," ++ tab ++ "2)" ].
Proof. vm_compute. reflexivity. Qed.
(* scale 1 omitted, decimal *)
Example ex_scale_default :
  render_line (mkLayout "" " " [(lo_omit, "", "")] "" None []) ("lea", [OMem (DInt 8) (Some "rax") (Some "rbx") 1]) = "lea 8(%rax, %rbx)"
  /\ parse_line "lea 8(%rax, %rbx)" = Parsed (PInstr "lea" [OMem (DInt 8) (Some "rax") (Some "rbx") 1])
  /\ parse_line "lea 0x8(%rax,%rbx,1)" = parse_line "lea 8(%rax, %rbx)".
Proof. vm_compute. auto. Qed.
(* segment-override references: every displacement form, every address shape; lay1 puts blanks around ":" "@" "+" *)
Definition segs : list operand :=
  [ OSeg "fs" (SNum "0x28") None None 1; OSeg "fs" (SNum "40") None None 1; OSeg "fs" (SNum "-8") (Some "rax") None 1;
    OSeg "fs" (SNum "8") (Some "rax") None 1; OSeg "gs" (SNum "0x10") (Some "rdi") (Some "rsi") 4;
    OSeg "gs" SNone (Some "rdi") (Some "rsi") 4; OSeg "gs" SNone None (Some "rsi") 1; OSeg "es" (SNum "010") None (Some "r9") 2;
    OSeg "fs" (SId "var" None None) None None 1; OSeg "fs" (SId "var" (Some "TPOFF") None) (Some "rcx") None 1;
    OSeg "fs" (SId "var" (Some "TPOFF") (Some "-8")) (Some "rcx") None 1; OSeg "fs" (SId "v.1+4" (Some "NTPOFF") (Some "16")) None None 1 ].
Example ex_seg_valid : forallb valid_operand segs = true.
Proof. vm_compute. reflexivity. Qed.
Example ex_seg_render :
  map (fun o => render_line lay0 ("mov", [o; OReg "rbx"])) segs =
  map (fun s => "mov " ++ s ++ ",%rbx")
      [ "%fs:0x28"; "%fs:40"; "%fs:-8(%rax)"; "%fs:8(%rax)"; "%gs:0x10(%rdi,%rsi,4)"; "%gs:(%rdi,%rsi,4)"; "%gs:(,%rsi,1)";
        "%es:010(,%r9,2)"; "%fs:var"; "%fs:var@TPOFF(%rcx)"; "%fs:var@TPOFF-8(%rcx)"; "%fs:v.1+4@NTPOFF+16" ]
  /\ render_line lay1 ("movq", [OSeg "fs" (SId "var" (Some "TPOFF") (Some "8")) (Some "rcx") None 1; OReg "rbx"])
     = tab ++ "movq" ++ tab ++ "%fs :" ++ tab ++ "var @TPOFF" ++ tab ++ "+ 8( %rcx" ++ tab ++ ") ," ++ tab ++ "%rbx # LLVM-MCA x: $1,(%rax)".
Proof. vm_compute. auto. Qed.
Example ex_seg_parsed :
  parse_line "movq %fs:8(%rax), %rbx" = Parsed (PInstr "movq" [OSeg "fs" (SNum "8") (Some "rax") None 1; OReg "rbx"])
  /\ parse_line "movq %fs : 8 (%rax), %rbx" = parse_line "movq %fs:8(%rax), %rbx"
  /\ parse_line "movl %ebx,%fs:16( %rax )" = Parsed (PInstr "movl" [OReg "ebx"; OSeg "fs" (SNum "16") (Some "rax") None 1])
  /\ parse_line "mov %fs:0x28, %rax" = Parsed (PInstr "mov" [OSeg "fs" (SNum "0x28") None None 1; OReg "rax"])
  /\ parse_line "mov %fs:8(%rax,%rbx,3), %rcx" = Reject.
Proof. vm_compute. auto 6. Qed.
(* every general-purpose register width and xmm/ymm/zmm 0-31 is a register of the sub-language *)
Example ex_registers : forallb valid_reg ["rax"; "eax"; "ax"; "al"; "ah"; "rbx"; "ebx"; "bx"; "bl"; "bh"; "rcx"; "ecx"; "cx"; "cl"; "ch"; "rdx"; "edx"; "dx"; "dl"; "dh"; "rbp"; "ebp"; "bp"; "bpl"; "rsp"; "esp"; "sp"; "spl"; "rsi"; "esi"; "si"; "sil"; "rdi"; "edi"; "di"; "dil"; "r8"; "r8d"; "r8w"; "r8b"; "r9"; "r9d"; "r9w"; "r9b"; "r10"; "r10d"; "r10w"; "r10b"; "r11"; "r11d"; "r11w"; "r11b"; "r12"; "r12d"; "r12w"; "r12b"; "r13"; "r13d"; "r13w"; "r13b"; "r14"; "r14d"; "r14w"; "r14b"; "r15"; "r15d"; "r15w"; "r15b"; "rip"; "eip"; "xmm0"; "xmm1"; "xmm2"; "xmm3"; "xmm4"; "xmm5"; "xmm6"; "xmm7"; "xmm8"; "xmm9"; "xmm10"; "xmm11"; "xmm12"; "xmm13"; "xmm14"; "xmm15"; "xmm16"; "xmm17"; "xmm18"; "xmm19"; "xmm20"; "xmm21"; "xmm22"; "xmm23"; "xmm24"; "xmm25"; "xmm26"; "xmm27"; "xmm28"; "xmm29"; "xmm30"; "xmm31"; "ymm0"; "ymm1"; "ymm2"; "ymm3"; "ymm4"; "ymm5"; "ymm6"; "ymm7"; "ymm8"; "ymm9"; "ymm10"; "ymm11"; "ymm12"; "ymm13"; "ymm14"; "ymm15"; "ymm16"; "ymm17"; "ymm18"; "ymm19"; "ymm20"; "ymm21"; "ymm22"; "ymm23"; "ymm24"; "ymm25"; "ymm26"; "ymm27"; "ymm28"; "ymm29"; "ymm30"; "ymm31"; "zmm0"; "zmm1"; "zmm2"; "zmm3"; "zmm4"; "zmm5"; "zmm6"; "zmm7"; "zmm8"; "zmm9"; "zmm10"; "zmm11"; "zmm12"; "zmm13"; "zmm14"; "zmm15"; "zmm16"; "zmm17"; "zmm18"; "zmm19"; "zmm20"; "zmm21"; "zmm22"; "zmm23"; "zmm24"; "zmm25"; "zmm26"; "zmm27"; "zmm28"; "zmm29"; "zmm30"; "zmm31"; "RAX"; "EAX"; "AX"; "AL"; "AH"; "RBX"; "EBX"; "BX"] = true.
Proof. vm_compute. reflexivity. Qed.
(* the written language: opmasks, relocations, numeric labels, indirect operands, data prefixes *)
Definition written : list instr :=
  [ ("vaddpd", [OReg "zmm1"; OReg "zmm2"; ORegK "zmm3" "k1" true]); ("vmovupd", [OReg "zmm1"; OMemK (DInt 8) (Some "rax") (Some "rbx") 2 "k1"]);
    ("call", [OIdR "foo" "PLT" None]); ("mov", [OIdR "foo" "GOT" (Some "-4"); OReg "rax"]);
    ("mov", [OMem (DIdR "foo" "GOTPCREL" (Some "8")) (Some "rip") None 1; OReg "rax"]); ("jmp", [ONumLbl "1" "b"%char]);
    ("jmp", [OStar (StReg "rax")]); ("jmp", [OStar (StDisp (SNum "010"))]); ("call", [OStar (StDisp (SId "foo" (Some "GOTPCREL") None))]);
    ("jmp", [OMem (DInt 8) (Some "rax") None 1]) ].
Example ex_written_valid : forallb valid_instr_w written = true /\ map valid_instr written = [false; false; false; false; false; false; true; true; true; true].
Proof. vm_compute. auto. Qed.
Example ex_written_render :
  map (render_line lay0) written =
  [ "vaddpd %zmm1,%zmm2,%zmm3{k1}{z}"; "vmovupd %zmm1,8(%rax,%rbx,2){k1}"; "call foo@PLT"; "mov foo@GOT-4,%rax";
    "mov foo@GOTPCREL+8(%rip),%rax"; "jmp 1b"; "jmp *%rax"; "jmp *010"; "call *foo@GOTPCREL"; "jmp 8(%rax)" ]
  /\ render_line lay1 ("vaddpd", [ORegK "zmm3" "k1" true]) = tab ++ "vaddpd" ++ tab ++ "%zmm3 {" ++ tab ++ "% k1" ++ tab ++ "} {" ++ tab ++ "z }  # LLVM-MCA x: $1,(%rax)"
  /\ render_line lay_pre ("mov", [OMem (DInt 8) (Some "rax") None 1; OReg "bx"]) = tab ++ "data16 data32" ++ tab ++ "mov * 8(%rax),%bx".
Proof. vm_compute. auto. Qed.
Example ex_written_parsed :
  map (fun a => parse_line (render_line lay0 a)) written = map (fun a => Parsed (PInstr (fst a) (map code_view (snd a)))) written
  /\ parse_line "vaddpd %zmm1, %zmm2, %zmm3{%k1}{z}" = Parsed (PInstr "vaddpd" [OReg "zmm1"; OReg "zmm2"; OReg "zmm3"])
  /\ parse_line "jmp *%rax" = Parsed (PInstr "jmp" [OStar (StReg "rax")])
  /\ parse_line "data16 nop" = Parsed (PInstr "nop" [])
  /\ parse_line (tab ++ ".ascii ""a, b # c""") = Parsed (PDirective "ascii") /\ valid_dirrest " ""a, b # c""" = true.
Proof. vm_compute. auto 7. Qed.
Example ex_four_operands : valid_instr ("vfoo", [OReg "xmm1"; OImm 3; OMem DNone (Some "rax") None 1; OReg "k1"]) = true.
Proof. vm_compute. reflexivity. Qed.
(* other kinds, and a file *)
Example ex_kinds :
  parse_line " # a comment" = Parsed PComment /\ parse_line "// icc" = Parsed PComment
  /\ parse_line ".L4:" = Parsed (PLabel ".L4") /\ parse_line "1: # x" = Parsed (PLabel "1")
  /\ parse_line (tab ++ ".align 16") = Parsed (PDirective "align")
  /\ valid_label ".L4" = true /\ valid_numlabel "1" = true /\ valid_dirname "align" = true /\ valid_dirrest " 16" = true.
Proof. vm_compute. auto 10. Qed.
Definition nl : string := String (ascii_of_nat 10) "".
Example ex_file :
  map (fun f => (fl_number f, fl_text f)) (parse_file ("main:" ++ nl ++ nl ++ "  " ++ tab ++ nl ++ " ret" ++ nl) 0)
  = [(1, "main:"); (4, " ret")].
Proof. vm_compute. reflexivity. Qed.
(* outside the sub-language the model does not guess *)
Example ex_unmodelled :
  parse_line "mov %fs:, %rax" = Unmodelled /\ parse_line "mov %fs{%k1}:8, %rax" = Unmodelled /\ parse_line "fadd %st(1)" = Unmodelled
  /\ parse_line "lea 8+foo(%rip), %rax" = Unmodelled /\ parse_line "call a::b" = Unmodelled /\ parse_line "mov (%rax{%k1}), %rbx" = Unmodelled
  /\ parse_line "jmp *%fs:8" = Unmodelled.
Proof. vm_compute. auto 8. Qed.
(* what the grammar refuses (ValueError) *)
Example ex_reject :
  parse_line "mov (%rax,%rbx,3), %rcx" = Reject /\ parse_line "vfoo %a, %b, %c, %d, %e" = Reject
  /\ parse_line "movl %eax, counter" = Reject /\ parse_line "add $010, %rbx" = Reject.
Proof. vm_compute. auto. Qed.
