From OV Require Import Model.ParseX86.
