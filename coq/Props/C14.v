(* Property C14 -- loop-carried dependencies are invariant under rotation of the loop body.   PARTIAL.
   Proved (Proofs/Rotation.v):
   (1) about the model: the dependency scan is prefix-determined, so the edges of the doubled kernel between two
       positions depend only on the instructions between them (they are a window of the periodic stream's edges);
   (2) abstractly: for any periodic edge relation on stream positions the cross-iteration paths seen through the
       unrotated window and through any rotated window correspond one to one with equal members (modulo the period)
       and equal weights.
   NOT proved: the glue between (1) and (2) for Model/Deps.lcd_entries (line numbers, offset, de-duplication).
   The property itself is decided by the exhaustive-rotation metamorphic oracle of checks/c14.py. *)
From Coq Require Import List Bool Arith.
From OV Require Import Model.Num Model.Pressure Model.Deps Proofs.Rotation.
Import ListNotations.

Theorem C14_scan_prefix_determined : forall (T : Type) (dep : regop -> regop -> bool) fd d (pre post : list (line (T:=T))) s,
  exists tail, scan dep fd d (pre ++ post) s = scan dep fd d pre s ++ tail /\
               forall n f, In (n, f) tail -> exists l, In l post /\ l_no l = n.
Proof. intros T dep. exact (scan_prefix_determined dep). Qed.
Print Assumptions C14_scan_prefix_determined.

Theorem C14_rotation_paths_correspond : forall (W : Type) (n : nat) (E : nat -> nat -> option W),
  0 < n -> (forall a b w, E a b = Some w -> a < b) -> (forall a b, E (a + n) (b + n) = E a b) ->
  forall r, r < n ->
  (forall p, in_window W n E 0 p -> exists p', in_window W n E r p' /\ canon W n p' = canon W n p) /\
  (forall p', in_window W n E r p' -> exists p, in_window W n E 0 p /\ canon W n p = canon W n p').
Proof. intros W n E Hn Hf Hp r Hr. exact (rotation_paths_correspond W n E Hn Hf Hp r Hr). Qed.
Print Assumptions C14_rotation_paths_correspond.

(* non-vacuity: a 2-periodic stream with one edge per iteration boundary *)
Example C14_nonvacuous :
  let E := fun a b => if Nat.eqb b (a + 2) then Some tt else None in
  spath unit E 0 2 [(0, tt)] /\ (forall a b, E (a + 2) (b + 2) = E a b).
Proof.
  split; [constructor; reflexivity|]. intros a b. cbn.
  destruct (Nat.eqb b (a + 2)) eqn:E1; destruct (Nat.eqb (b + 2) (a + 2 + 2)) eqn:E2; try reflexivity;
    [apply Nat.eqb_eq in E1; apply Nat.eqb_neq in E2; exfalso; apply E2; rewrite E1; reflexivity
    | apply Nat.eqb_neq in E1; apply Nat.eqb_eq in E2; exfalso; apply E1; apply (f_equal (fun x => x - 2)) in E2;
      rewrite !Nat.add_sub in E2; exact E2].
Qed.
