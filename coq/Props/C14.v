(* Property C14 -- loop-carried dependencies are invariant under rotation of the loop body.
   Proved:
   (1) Proofs/Rotation.v, about the model: the dependency scan is prefix-determined;
   (2) Proofs/Rotation.v, abstractly: for any periodic forward edge relation on stream positions the cross-iteration paths seen
       through the unrotated window and through any rotated window correspond one to one with equal members (modulo the
       period) and equal weights;
   (3) Proofs/RotationGlue.v, the GLUE for Model/Deps: with canonical line numbers 1..n (renumber) the dependency graph of the
       doubled rotated kernel is the window [r, r + 2n) of the instruction stream's edge relation (C14_window_edges), hence
       * C14_rotation_paths: the paths lcd_entries enumerates for `renumber k` and for `rotate r k` correspond, visiting the
         same instructions of k in the same order with the same edge weights (any numeric instance, any dep/fwd/pidx/flagdeps,
         no side condition except r < length k and fuel >= length k);
       * C14_rotation_raw: the entries before de-duplication correspond with the same members, each latency sum being the
         left-to-right sum of the entry's own sorted member list (since the repair "sum lat_path after lat_path.sort()");
       * C14_rotation_lcd_entries: after de-duplication every reported entry has a counterpart that is pairs_eqb-equal to an
         entry of the same cycle (numeric == reflexive);
       * C14_rotation_lcd_entries_Q / C14_rotation_lcd_figure_Q: for exact rationals the reported sums are == and the LCD
         figure (largest sum) is ==.
   Within ONE kernel the reported latency of a cycle no longer depends on which of its rotations (root nodes) is kept, for every
   numeric instance, binary64 included (Props/C16float.v: the sum is a function of the sorted member list).
   Not a theorem: for floats, rotating the KERNEL renumbers the lines, so the sorted member list of a cycle starts at a different
   member and its sum adds the same weights in a cyclically shifted order (checks/c14.py compares with a tolerance / reports it). *)
From Coq Require Import List Bool Arith QArith Permutation.
From OV Require Import Model.Num Model.Pressure Model.Deps Proofs.LCD Proofs.Rotation Proofs.RotationGlue.
Import ListNotations.
Local Open Scope nat_scope.

Theorem C14_scan_prefix_determined : forall (T : Type) (dep : regop -> regop -> bool) fd d (pre post : list (line (T:=T))) s,
  exists tail, scan dep fd d (pre ++ post) s = scan dep fd d pre s ++ tail /\
               forall n f, In (n, f) tail -> exists l, In l post /\ l_no l = n.
Proof. intros T dep. exact (scan_prefix_determined dep). Qed.
Print Assumptions C14_scan_prefix_determined.

Theorem C14_rotation_paths_correspond : forall (W : Type) (n : nat) (E : nat -> nat -> option W),
  0 < n -> (forall a b w, E a b = Some w -> a < b) -> (forall a b, E (a + n) (b + n) = E a b) ->
  forall r, r < n ->
  (forall p, in_window W n E 0 p -> exists p', in_window W n E r p' /\ canon W n p' = canon W n p) /\
  (forall p', in_window W n E r p' -> exists p, in_window W n E 0 p /\ canon W n p = canon W n p').
Proof. intros W n E Hn Hf Hp r Hr. exact (rotation_paths_correspond W n E Hn Hf Hp r Hr). Qed.
Print Assumptions C14_rotation_paths_correspond.

(* non-vacuity: a 2-periodic stream with one edge per iteration boundary *)
Example C14_nonvacuous :
  let E := fun a b => if Nat.eqb b (a + 2) then Some tt else None in
  spath unit E 0 2 [(0, tt)] /\ (forall a b, E (a + 2) (b + 2) = E a b).
Proof.
  split; [constructor; reflexivity|]. intros a b. cbn.
  destruct (Nat.eqb b (a + 2)) eqn:E1; destruct (Nat.eqb (b + 2) (a + 2 + 2)) eqn:E2; try reflexivity;
    [apply Nat.eqb_eq in E1; apply Nat.eqb_neq in E2; exfalso; apply E2; rewrite E1; reflexivity
    | apply Nat.eqb_neq in E1; apply Nat.eqb_eq in E2; exfalso; apply E1; apply (f_equal (fun x => x - 2)) in E2;
      rewrite !Nat.add_sub in E2; exact E2].
Qed.

(* ------------------------------------------------------------------ the glue (Proofs/RotationGlue.v) *)
(* WINDOW LEMMA: if L is, up to line numbers (strip), the window [s, s + |L|) of an instruction stream f and its line numbers are
   pairwise different, then the register/flag/memory edges of create_dg L are exactly the stream edges between its positions;
   stream_E f a b depends on the instructions f a .. f b only *)
Theorem C14_window_edges : forall (T : Type) (N : NumOps T) dep fwd pidx fd (L : list (line (T:=T))) f s,
  NoDup (map l_no L) -> is_window N L f s ->
  forall a b w, a < List.length L -> b < List.length L ->
    (In (l_no (nth b L (dline N)), w) (succs (create_dg N dep fwd pidx fd L) (l_no (nth a L (dline N))))
     <-> stream_E N dep fwd pidx fd f (s + a) (s + b) = Some w).
Proof. intros T N dep fwd pidx fd. exact (window_edges N dep fwd pidx fd). Qed.
Print Assumptions C14_window_edges.

(* the doubled rotated kernel is the window [r, r + 2n) of the stream `body k`, and instr_id names the right instruction *)
Theorem C14_doubled_window : forall (T : Type) (N : NumOps T) (k : list (line (T:=T))) r, r < List.length k ->
  is_window N (doubled (rotate r k)) (body N k) r /\
  forall l, In l (doubled (rotate r k)) -> strip l = strip (nth (instr_id k r (l_no l)) k (dline N)).
Proof. intros T N k r Hr. split; [exact (doubled_window N k r Hr) | exact (instr_id_correct N k r Hr)]. Qed.
Print Assumptions C14_doubled_window.

(* ROTATION INVARIANCE OF THE CROSS-ITERATION PATHS *)
Theorem C14_rotation_paths : forall (T : Type) (N : NumOps T) dep fwd pidx fd (k : list (line (T:=T))) r fuel fuel',
  r < List.length k -> List.length k <= fuel -> List.length k <= fuel' ->
  (forall l p, In l (renumber k) -> In p (lcd_paths N dep fwd pidx fd fuel (renumber k) l) ->
     exists l' p', In l' (rotate r k) /\ In p' (lcd_paths N dep fwd pidx fd fuel' (rotate r k) l') /\
                   ident_path k r p' = ident_path k 0 p) /\
  (forall l' p', In l' (rotate r k) -> In p' (lcd_paths N dep fwd pidx fd fuel' (rotate r k) l') ->
     exists l p, In l (renumber k) /\ In p (lcd_paths N dep fwd pidx fd fuel (renumber k) l) /\
                 ident_path k 0 p = ident_path k r p').
Proof.
  intros T N dep fwd pidx fd k r fuel fuel' Hr Hf Hf'. split.
  - exact (rotation_glue N dep fwd pidx fd k r fuel fuel' Hr Hf').
  - exact (rotation_glue_conv N dep fwd pidx fd k r fuel fuel' Hr Hf).
Qed.
Print Assumptions C14_rotation_paths.

(* ... of the entries before de-duplication: same members (as instructions of k, with the same per-edge latencies); each
   latency sum is the left-to-right sum of the entry's own sorted member list (kernel_dg.py sums lat_path after lat_path.sort()),
   so the two sums add the same weights in the orders given by the two line numberings *)
Theorem C14_rotation_raw : forall (T : Type) (N : NumOps T) dep fwd pidx fd (k : list (line (T:=T))) r, r < List.length k ->
  (forall e, In e (lcd_raw N dep fwd pidx fd (renumber k)) ->
     exists e', In e' (lcd_raw N dep fwd pidx fd (rotate r k)) /\
                (fst e = sum_pairs N (snd e) /\ fst e' = sum_pairs N (snd e')) /\
                Permutation (entry_ident k r e') (entry_ident k 0 e)) /\
  (forall e', In e' (lcd_raw N dep fwd pidx fd (rotate r k)) ->
     exists e, In e (lcd_raw N dep fwd pidx fd (renumber k)) /\
               (fst e = sum_pairs N (snd e) /\ fst e' = sum_pairs N (snd e')) /\
               Permutation (entry_ident k r e') (entry_ident k 0 e)).
Proof. intros T N dep fwd pidx fd k r Hr. exact (rotation_raw N dep fwd pidx fd k r Hr). Qed.
Print Assumptions C14_rotation_raw.

Theorem C14_lcd_entries_is_dedup_of_raw : forall (T : Type) (N : NumOps T) dep fwd pidx fd (K : list (line (T:=T))),
  lcd_entries N dep fwd pidx fd K = dedup_by (pairs_eqb N) [] (lcd_raw N dep fwd pidx fd K).
Proof. intros. reflexivity. Qed.
Print Assumptions C14_lcd_entries_is_dedup_of_raw.

(* ... of lcd_entries, any numeric instance with reflexive == *)
Theorem C14_rotation_lcd_entries : forall (T : Type) (N : NumOps T) dep fwd pidx fd (k : list (line (T:=T))) r,
  (forall a, neqb N a a = true) -> r < List.length k ->
  (forall e, In e (lcd_entries N dep fwd pidx fd (renumber k)) ->
     exists e' e'', In e'' (lcd_entries N dep fwd pidx fd (rotate r k)) /\ In e' (lcd_raw N dep fwd pidx fd (rotate r k)) /\
                    same_cycle N k r e e' /\ pairs_eqb N (snd e') (snd e'') = true) /\
  (forall e', In e' (lcd_entries N dep fwd pidx fd (rotate r k)) ->
     exists e e0, In e0 (lcd_entries N dep fwd pidx fd (renumber k)) /\ In e (lcd_raw N dep fwd pidx fd (renumber k)) /\
                  same_cycle N k r e e' /\ pairs_eqb N (snd e) (snd e0) = true).
Proof. intros T N dep fwd pidx fd k r R Hr. exact (rotation_lcd_entries N dep fwd pidx fd k r R Hr). Qed.
Print Assumptions C14_rotation_lcd_entries.

(* ... for exact rationals: same latency sums (==), same members with ==-equal latencies, same LCD figure *)
Theorem C14_rotation_lcd_entries_Q : forall dep (fwd pidx : Q) fd (k : list (line (T:=Q))) r, r < List.length k ->
  (forall e, In e (lcd_entries QNum dep fwd pidx fd (renumber k)) ->
     exists e'', In e'' (lcd_entries QNum dep fwd pidx fd (rotate r k)) /\ (fst e'' == fst e)%Q /\
                 same_members (entry_ident k 0 e) (entry_ident k r e'')) /\
  (forall e', In e' (lcd_entries QNum dep fwd pidx fd (rotate r k)) ->
     exists e0, In e0 (lcd_entries QNum dep fwd pidx fd (renumber k)) /\ (fst e0 == fst e')%Q /\
                same_members (entry_ident k r e') (entry_ident k 0 e0)).
Proof. intros dep fwd pidx fd k r Hr. exact (rotation_lcd_entries_Q dep fwd pidx fd k r Hr). Qed.
Print Assumptions C14_rotation_lcd_entries_Q.

Theorem C14_rotation_lcd_figure_Q : forall dep (fwd pidx : Q) fd (k : list (line (T:=Q))) r, r < List.length k ->
  (qmaxl (map fst (lcd_entries QNum dep fwd pidx fd (rotate r k))) ==
   qmaxl (map fst (lcd_entries QNum dep fwd pidx fd (renumber k))))%Q.
Proof. intros dep fwd pidx fd k r Hr. exact (rotation_lcd_figure_Q dep fwd pidx fd k r Hr). Qed.
Print Assumptions C14_rotation_lcd_figure_Q.

(* non-vacuity: a concrete 3-line kernel (a <- f(c); b <- f(a); c <- f(b)) with one cross-iteration cycle; both sides of
   C14_rotation_paths are inhabited and name the same instructions; both lcd_entries are non-empty *)
Example C14_glue_nonvacuous :
  lcd_paths QNum (fun a b => String.eqb (r_name a) (r_name b)) 0%Q 0%Q true 8 (renumber ex_kernel)
            (nth 0 (renumber ex_kernel) (dline QNum)) = [[(1, 1%Q); (2, 2%Q); (3, 3%Q)]] /\
  lcd_paths QNum (fun a b => String.eqb (r_name a) (r_name b)) 0%Q 0%Q true 8 (rotate 1 ex_kernel)
            (nth 2 (rotate 1 ex_kernel) (dline QNum)) = [[(3, 1%Q); (1001, 2%Q); (1002, 3%Q)]] /\
  ident_path ex_kernel 1 [(3, 1%Q); (1001, 2%Q); (1002, 3%Q)] = ident_path ex_kernel 0 [(1, 1%Q); (2, 2%Q); (3, 3%Q)] /\
  lcd_entries QNum (fun a b => String.eqb (r_name a) (r_name b)) 0%Q 0%Q true (renumber ex_kernel)
    = [(6%Q, [(1, 1%Q); (2, 2%Q); (3, 3%Q)])] /\
  lcd_entries QNum (fun a b => String.eqb (r_name a) (r_name b)) 0%Q 0%Q true (rotate 1 ex_kernel)
    = [(6%Q, [(1, 2%Q); (2, 3%Q); (3, 1%Q)])].
Proof. vm_compute. repeat split; reflexivity. Qed.
