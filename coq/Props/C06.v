(* Property C06 -- store-to-load dependencies through provably equal addresses, on both ISAs.
   Theorems only; proofs in Proofs/MemDep.v.  The model function is ISA-independent: a register is identified by
   prefix ++ name (prefix empty on x86), which is exactly what the repaired implementation compares. *)
From Coq Require Import ZArith List Bool String Lia.
From OV Require Import Model.Num Model.Pressure Model.Deps Proofs.MemDep.
Import ListNotations.
Open Scope Z_scope.

(* addr_load: the address a load reads, in the register file AFTER the load's own register changes (a pre-indexed
   load reads from its already bumped base; for every other load it is the ordinary base + index*scale + disp) *)
(* SOUNDNESS: whenever the model links a load operand `src` to an earlier store operand `mem` under tracked register
   changes s that describe the current register file relative to the one at the store, both addresses are equal *)
Theorem C06_memdep_sound : forall mem s src rho0 rho,
  describes s rho0 rho -> memload_one mem s src = true ->
  (match m_off src with OSym => False | _ => True end) ->
  addr_load rho src = addr rho0 mem.
Proof. exact memload_sound. Qed.
Print Assumptions C06_memdep_sound.

(* the tracking of increments / decrements / copies is sound: one tracked change keeps the description valid *)
Theorem C06_tracking_sound : forall s rho0 rho rho' reg c,
  describes s rho0 rho -> apply_change rho reg c rho' -> describes (update_one s reg c) rho0 rho'.
Proof. exact update_one_describes. Qed.
Print Assumptions C06_tracking_sound.

(* no dependency when the addressing shapes differ or the store's displacement is symbolic *)
Theorem C06_memdep_none_on_shape_mismatch : forall mem s src,
  (match m_base mem, m_base src with Some _, None | None, Some _ => True | _, _ => False end \/
   match m_index mem, m_index src with Some _, None | None, Some _ => True | _, _ => False end \/
   m_off mem = OSym) ->
  memload_one mem s src = false.
Proof. exact memload_none_shape. Qed.
Print Assumptions C06_memdep_none_on_shape_mismatch.

(* COMPLETENESS for the simplest provable case: same base (untouched), no index, equal displacements => linked *)
Theorem C06_memdep_complete_simple : forall b d k1 k2 pre post,
  memload_one (mkM (Some b) None 1 (OImm d) pre post k1) [] (mkM (Some b) None 1 (OImm d) false false k2) = true.
Proof.
  intros. unfold memload_one. cbn [m_off m_base m_index m_scale m_pre]. unfold lookup_change. cbn [rs_get].
  rewrite String.eqb_refl. apply Z.eqb_eq. lia.
Qed.
Print Assumptions C06_memdep_complete_simple.

(* a PRE-indexed load `ldr x, [b, #d]!` after a store to [b, #d]: the tracked state already contains the bump d of b, and
   the load is linked (the shipped code added d a second time and linked [b, #2d] instead -- fixed in /repo) *)
Theorem C06_memdep_complete_preindexed_load : forall b d k1 k2,
  memload_one (mkM (Some b) None 1 (OImm d) false false k1) [(fullname b, Some (fullname b, d))]
              (mkM (Some b) None 1 (OImm d) true false k2) = true.
Proof.
  intros. unfold memload_one. cbn [m_off m_base m_index m_scale m_pre]. unfold lookup_change. cbn [rs_get].
  rewrite String.eqb_refl. rewrite String.eqb_refl. apply Z.eqb_eq. lia.
Qed.
Print Assumptions C06_memdep_complete_preindexed_load.

Theorem C06_memdep_preindexed_load_other_cell : forall b d k1 k2, d <> 0 ->
  memload_one (mkM (Some b) None 1 (OImm (d + d)) false false k1) [(fullname b, Some (fullname b, d))]
              (mkM (Some b) None 1 (OImm d) true false k2) = false.
Proof.
  intros b d k1 k2 Hd. unfold memload_one. cbn [m_off m_base m_index m_scale m_pre]. unfold lookup_change. cbn [rs_get].
  rewrite String.eqb_refl. rewrite String.eqb_refl. apply Z.eqb_neq. lia.
Qed.
Print Assumptions C06_memdep_preindexed_load_other_cell.

(* a different adjusted displacement gives no link (same base, no index) *)
Theorem C06_memdep_none_on_displacement : forall b d1 d2 k1 k2 pre post,
  d1 <> d2 ->
  memload_one (mkM (Some b) None 1 (OImm d1) pre post k1) [] (mkM (Some b) None 1 (OImm d2) false false k2) = false.
Proof.
  intros. unfold memload_one. cbn [m_off m_base m_index m_scale m_pre]. unfold lookup_change. cbn [rs_get].
  rewrite String.eqb_refl. apply Z.eqb_neq. lia.
Qed.

(* a later store to the same operand ends the search; the weight adds the forwarding latency (definitional) *)
Theorem C06_later_store_kills : forall (T : Type) dep fd m (l : line (T:=T)) more s,
  is_memstore m l = true ->
  scan dep fd (OMem m) (l :: more) s =
  (if is_memload m l (update_changes s (l_chg l)) then [(l_no l, FStoreLoad)] else []).
Proof. intros T dep fd m l more s H3. cbn [scan]. rewrite H3. reflexivity. Qed.
Print Assumptions C06_later_store_kills.

(* nothing else ends the search of a store operand (in particular not a write to the base register of a pre-/post-indexed
   store: it is tracked in the state like for any other store -- the shipped code stopped there, fixed in /repo) *)
Theorem C06_search_continues : forall (T : Type) dep fd m (l : line (T:=T)) more s,
  is_memstore m l = false ->
  scan dep fd (OMem m) (l :: more) s =
  (if is_memload m l (update_changes s (l_chg l)) then [(l_no l, FStoreLoad)] else [])
  ++ scan dep fd (OMem m) more (update_changes (update_changes s (l_chg l)) (l_chg_post l)).
Proof. intros T dep fd m l more s H3. cbn [scan]. rewrite H3. reflexivity. Qed.
Print Assumptions C06_search_continues.

(* non-vacuity: AArch64  str x9,[x2],#8 ; sub x2,x2,#8 ; ldr x1,[x2]  -- post-index bump of the store itself and the later
   decrement cancel *)
Example C06_nonvacuous_postindexed_store :
  let x2 := mkR "2" "x" false in
  memload_one (mkM (Some x2) None 1 ONone false true 0)
              (update_one (update_one (update_one [] "x2" (Some ("x2"%string, 0))) "x2" (Some ("x2"%string, 8))) "x2" (Some ("x2"%string, -8)))
              (mkM (Some x2) None 1 ONone false false 1) = true.
Proof. vm_compute. reflexivity. Qed.

(* non-vacuity: x86  mov %rdx,8(%rax) ; add $8,%rax ; mov 0(%rax),%rsi  -- the bump is accounted for *)
Example C06_nonvacuous :
  let rax := mkR "rax" "" false in
  memload_one (mkM (Some rax) None 1 (OImm 8) false false 0)
              (update_one [] "rax" (Some ("rax"%string, 8)))
              (mkM (Some rax) None 1 (OImm 0) false false 1) = true.
Proof. vm_compute. reflexivity. Qed.
