(* Property C06 -- store-to-load dependencies through provably equal addresses, on both ISAs.
   Theorems only; proofs in Proofs/MemDep.v.  The model function is ISA-independent: a register is identified by
   prefix ++ name (prefix empty on x86), which is exactly what the repaired implementation compares. *)
From Coq Require Import ZArith List Bool String Lia.
From OV Require Import Model.Num Model.Pressure Model.Deps Proofs.MemDep.
Import ListNotations.
Open Scope Z_scope.

(* SOUNDNESS: whenever the model links a load operand `src` to an earlier store operand `mem` under tracked register
   changes s that describe the current register file relative to the one at the store, both addresses are equal *)
Theorem C06_memdep_sound : forall mem s src rho0 rho,
  describes s rho0 rho -> memload_one mem s src = true ->
  (match m_off src with OSym => False | _ => True end) ->
  addr rho src = addr rho0 mem.
Proof. exact memload_sound. Qed.
Print Assumptions C06_memdep_sound.

(* the tracking of increments / decrements / copies is sound: one tracked change keeps the description valid *)
Theorem C06_tracking_sound : forall s rho0 rho rho' reg c,
  describes s rho0 rho -> apply_change rho reg c rho' -> describes (update_one s reg c) rho0 rho'.
Proof. exact update_one_describes. Qed.
Print Assumptions C06_tracking_sound.

(* no dependency when the addressing shapes differ or the store's displacement is symbolic *)
Theorem C06_memdep_none_on_shape_mismatch : forall mem s src,
  (match m_base mem, m_base src with Some _, None | None, Some _ => True | _, _ => False end \/
   match m_index mem, m_index src with Some _, None | None, Some _ => True | _, _ => False end \/
   m_off mem = OSym) ->
  memload_one mem s src = false.
Proof. exact memload_none_shape. Qed.
Print Assumptions C06_memdep_none_on_shape_mismatch.

(* COMPLETENESS for the simplest provable case: same base (untouched), no index, equal displacements => linked *)
Theorem C06_memdep_complete_simple : forall b d k1 k2 pre post,
  memload_one (mkM (Some b) None 1 (OImm d) pre post k1) [] (mkM (Some b) None 1 (OImm d) false false k2) = true.
Proof.
  intros. unfold memload_one. cbn [m_off m_base m_index m_scale]. unfold lookup_change. cbn [rs_get].
  rewrite String.eqb_refl. apply Z.eqb_eq. lia.
Qed.
Print Assumptions C06_memdep_complete_simple.

(* a different adjusted displacement gives no link (same base, no index) *)
Theorem C06_memdep_none_on_displacement : forall b d1 d2 k1 k2 pre post,
  d1 <> d2 ->
  memload_one (mkM (Some b) None 1 (OImm d1) pre post k1) [] (mkM (Some b) None 1 (OImm d2) false false k2) = false.
Proof.
  intros. unfold memload_one. cbn [m_off m_base m_index m_scale]. unfold lookup_change. cbn [rs_get].
  rewrite String.eqb_refl. apply Z.eqb_neq. lia.
Qed.

(* a later store to the same operand ends the search; the weight adds the forwarding latency (definitional) *)
Theorem C06_later_store_kills : forall (T : Type) dep fd m (l : line (T:=T)) more s,
  andb (m_pre m) (match m_base m with Some b => is_written dep (OReg b) l | None => false end) = false ->
  andb (m_post m) (match m_base m with Some b => is_written dep (OReg b) l | None => false end) = false ->
  is_memstore m l = true ->
  scan dep fd (OMem m) (l :: more) s =
  (if is_memload m l (update_changes s (l_chg l)) then [(l_no l, FStoreLoad)] else []).
Proof. intros T dep fd m l more s H1 H2 H3. cbn [scan]. rewrite H1, H2, H3. reflexivity. Qed.

(* non-vacuity: x86  mov %rdx,8(%rax) ; add $8,%rax ; mov 0(%rax),%rsi  -- the bump is accounted for *)
Example C06_nonvacuous :
  let rax := mkR "rax" "" false in
  memload_one (mkM (Some rax) None 1 (OImm 8) false false 0)
              (update_one [] "rax" (Some ("rax"%string, 8)))
              (mkM (Some rax) None 1 (OImm 0) false false 1) = true.
Proof. vm_compute. reflexivity. Qed.
