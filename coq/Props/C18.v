(* C18 -- Analyses are independent of what was analysed before in the same process.
   Property theorems only; model in Model/Store.v, proofs in Proofs/Store.v.

   disk : nat -> mdata   the content of every model file (what a load returns)
   st   : style          Reload = the shipped MachineModel constructor (re-reads the file for every request),
                         Reuse  = the loaded object is used again (embedding keeps it / constructor returns the cached one)
   md   : mode           ExtendInPlace  = shipped composition `data_port_uops += st_data_port_uops`
                         CopyThenExtend = repaired composition (new list)
   A history is any list of requests; a request is any list of lines (non-instruction, unknown, direct hit, composed
   with any load/store row, default row or none) on any architecture/ISA file pair. *)
From Coq Require Import List Arith Bool.
From OV Require Import Model.Store Proofs.Store.
Import ListNotations.

(* 1. FRAME.  With the repaired composition no request changes the shared store: the loaded models (entries' micro-op
      lists, load/store rows, defaults, hidden operands), the default-argument lists, the parser state. *)
Theorem analyse_frame :
  forall disk s r, loaded s r -> snd (analyse disk Reuse CopyThenExtend s r) = s.
Proof. exact analyse_frame_reuse. Qed.
Print Assumptions analyse_frame.

(* ... for every store, also with models not loaded yet or already corrupted: whatever is loaded keeps its content,
   and the first load only ADDS an entry *)
Theorem analyse_frame_loaded_entries :
  forall disk s r p d, lookup p (cache s) = Some d ->
                       lookup p (cache (snd (analyse disk Reuse CopyThenExtend s r))) = Some d.
Proof. exact analyse_keeps_loaded. Qed.
Print Assumptions analyse_frame_loaded_entries.

(* ... under either constructor behaviour, once the files of the request are loaded and equal their files *)
Theorem analyse_frame_any_style :
  forall disk st s r, pristine disk s -> loaded s r -> snd (analyse disk st CopyThenExtend s r) = s.
Proof. exact analyse_frame_pristine. Qed.
Print Assumptions analyse_frame_any_style.

Theorem analyse_preserves_pristine :
  forall disk st s r, pristine disk s -> pristine disk (snd (analyse disk st CopyThenExtend s r)).
Proof. exact analyse_pristine. Qed.
Print Assumptions analyse_preserves_pristine.

(* the statics are written by no request in either mode *)
Theorem statics_untouched :
  forall disk st md s r,
    let s' := snd (analyse disk st md s r) in
    dflt_operands s' = dflt_operands s /\ dflt_hidden s' = dflt_hidden s /\ dflt_sem s' = dflt_sem s /\
    parser_x86 s' = parser_x86 s /\ parser_a64 s' = parser_a64 s.
Proof. exact analyse_statics. Qed.
Print Assumptions statics_untouched.

(* non-vacuity: a store with both files of the witness request loaded and pristine exists *)
Example frame_hypotheses_satisfiable : loaded w_loaded w_rmw /\ pristine w_disk w_loaded.
Proof. exact w_loaded_is_loaded. Qed.

(* 2. HISTORY INDEPENDENCE, for all histories (induction over the history), both constructor behaviours *)
Theorem history_independent :
  forall disk st s0 h r, pristine disk s0 ->
    fst (analyse disk st CopyThenExtend (run disk st CopyThenExtend h s0) r) = fst (analyse disk st CopyThenExtend s0 r).
Proof. exact history_independent_gen. Qed.
Print Assumptions history_independent.

(* ... in particular every report equals the one a fresh process prints *)
Theorem equals_fresh_process :
  forall disk st h r,
    fst (analyse disk st CopyThenExtend (run disk st CopyThenExtend h fresh) r) = fst (analyse disk st CopyThenExtend fresh r).
Proof. intros. apply history_independent_gen. apply fresh_pristine. Qed.
Print Assumptions equals_fresh_process.

Theorem repeat_same :
  forall disk st s r, pristine disk s ->
    fst (analyse disk st CopyThenExtend (snd (analyse disk st CopyThenExtend s r)) r) = fst (analyse disk st CopyThenExtend s r).
Proof. exact repeat_same_gen. Qed.
Print Assumptions repeat_same.

(* with the copy a line's cost is a function of that line and the tables: the other lines of the request, before or
   after it, unknown or not, do not enter (the model-side content of C08's unknown_frame) *)
Theorem line_cost_local :
  forall isa dflt is d,
    fst (cost_all CopyThenExtend isa dflt d is) = map (fun i => fst (cost CopyThenExtend isa dflt d i)) is.
Proof. exact cost_all_copy_map. Qed.
Print Assumptions line_cost_local.

(* non-vacuity: the history with a read-modify-write line is covered, and its report is not trivial *)
Example history_example :
  map lr_uops (fst (analyse w_disk Reuse CopyThenExtend (run w_disk Reuse CopyThenExtend [w_rmw; w_load; w_rmw] fresh) w_load))
  = [[2; 3]]
  /\ map lr_uops (fst (analyse w_disk Reuse CopyThenExtend fresh w_rmw)) = [[1; 3; 4; 5]].
Proof. split; vm_compute; reflexivity. Qed.

(* 3. The shipped composition (before commit 4f97804).  FRAME and HISTORY INDEPENDENCE are false: *)
Theorem frame_refuted :
  exists disk s r, loaded s r /\ pristine disk s /\ snd (analyse disk Reuse ExtendInPlace s r) <> s.
Proof.
  exists w_disk, w_loaded, w_rmw. destruct w_loaded_is_loaded as [L P]. split; [exact L|]. split; [exact P|]. exact frame_refuted_w.
Qed.
Print Assumptions frame_refuted.

(* [addq $1,(%rax)] then [vaddpd (%rax),%xmm0,%xmm1] on zen2: the later load is costed with the store micro-ops *)
Theorem history_refuted :
  exists disk h r,
    fst (analyse disk Reuse ExtendInPlace (run disk Reuse ExtendInPlace h fresh) r) <> fst (analyse disk Reuse ExtendInPlace fresh r).
Proof. exists w_disk, [w_rmw], w_load. exact history_refuted_w. Qed.
Print Assumptions history_refuted.

Example history_refuted_values :
  map lr_uops (fst (analyse w_disk Reuse ExtendInPlace (run w_disk Reuse ExtendInPlace [w_rmw] fresh) w_load)) = [[2; 3; 4; 5]]
  /\ map lr_uops (fst (analyse w_disk Reuse ExtendInPlace fresh w_load)) = [[2; 3]].
Proof. exact later_load_has_store_uops. Qed.

Theorem repeat_refuted :
  exists disk r,
    fst (analyse disk Reuse ExtendInPlace (snd (analyse disk Reuse ExtendInPlace fresh r)) r)
    <> fst (analyse disk Reuse ExtendInPlace fresh r).
Proof. exists w_disk, (Req 0 1 [Composed 0 (Some (LRow 0)) (Some (SRow 0)) None]). exact repeat_refuted_w. Qed.
Print Assumptions repeat_refuted.

(* 4. Why a sequence of command-line style calls does not show it: the shipped constructor re-reads the model file per
      request, so BETWEEN requests nothing written to the cached object is ever read (either mode) ... *)
Theorem reload_masks :
  forall disk md s s' r, dflt_operands s = dflt_operands s' ->
    fst (analyse disk Reload md s r) = fst (analyse disk Reload md s' r).
Proof. exact reload_masks_gen. Qed.
Print Assumptions reload_masks.

(* ... but inside one request the in-place extension is visible even then (line_cost_local fails for ExtendInPlace) *)
Theorem within_request_refuted :
  exists disk i0 i,
    nth 1 (map lr_uops (fst (analyse disk Reload ExtendInPlace fresh (Req 0 1 [i0; i])))) []
    <> nth 0 (map lr_uops (fst (analyse disk Reload ExtendInPlace fresh (Req 0 1 [i])))) [].
Proof.
  exists w_disk, (Composed 0 (Some (LRow 0)) (Some (SRow 0)) None), (Composed 1 (Some (LRow 0)) None None).
  exact within_request_refuted_w.
Qed.
Print Assumptions within_request_refuted.
