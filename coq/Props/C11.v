(* Property C11 -- kernel selection is exact (marker / --lines / whole file); selection is
   transparent for noise lines.  Model: Model/Select.v (greedy = true: match_bytes as shipped,
   greedy = false: match_bytes with patches/C11-fix-match-bytes-stop.diff).  Which of the two the tree
   under test implements is decided on every run by the correspondence harness (checks/c11.py).
   The theorems about get_line_range (regenerated from the source) are in PropsGen/C11.v. *)
From Coq Require Import String Ascii List Bool Arith ZArith Sorted.
From OV Require Import Model.Select Proofs.Select.
Import ListNotations.
Local Open Scope list_scope.

(* ---------------------------------------------------------------- marked kernels *)
(* repaired code: full strength.  Every prologue, body, epilogue; start/end marker each in any of the
   styles (comment | mov + the nop bytes on one line | on several lines); both ISAs. *)
Theorem marked_exact_fixed : forall i pro sm body em epi,
  no_marker false i pro -> no_marker false i body ->
  marker_min i val_start c_start sm -> marker_min i val_end c_end em ->
  reduce_fixed i (pro ++ sm ++ body ++ em ++ epi) = Ok body.
Proof. exact marked_exact_fixed_lemma. Qed.
Print Assumptions marked_exact_fixed.

(* shipped code: the full statement is false ... *)
Definition ln (m : option string) (ops : list operand) (d : option directive) (c : option string) (n : nat) : line :=
  {| l_mnemonic := m; l_operands := ops; l_directive := d; l_comment := c; l_number := n |}.
Definition x_mov (v : Z) (r : string) n := ln (Some "movl"%string) [OImm v; OReg r] None None n.
Definition a_mov (v : Z) (r : string) n := ln (Some "mov"%string) [OReg r; OImm v] None None n.
Definition bytes (ps : list string) n := ln None [] (Some {| d_name := "byte"; d_params := ps |}) None n.
Definition instr (m : string) n := ln (Some m) [OReg "eax"%string; OReg "ecx"%string] None None n.
Definition cmt (c : string) n := ln None [] None (Some c) n.
Definition dirv (nm : string) n := ln None [] (Some {| d_name := nm; d_params := [] |}) None n.

Definition x_start3 := [x_mov 111 "ebx" 3; bytes ["100"] 4; bytes ["103"] 5; bytes ["144"] 6]%string.
Definition x_end3 n := [x_mov 222 "ebx" n; bytes ["100"] (n+1); bytes ["103"] (n+2); bytes ["144"] (n+3)]%string.
Definition x_start1 := [x_mov 111 "ebx" 3; bytes ["0x64"; "103"; "144"] 4]%string.

Lemma x_start3_marker : marker_min X86 val_start c_start x_start3.
Proof. apply MM_bytes; vm_compute; reflexivity. Qed.
Lemma x_end3_marker n : marker_min X86 val_end c_end (x_end3 n).
Proof. apply MM_bytes; vm_compute; reflexivity. Qed.

(* ... a .byte line at the head of the kernel is dropped ... *)
Theorem marked_exact_refuted : exists i pro sm body em epi,
  no_marker true i pro /\ no_marker true i body /\
  marker_min i val_start c_start sm /\ marker_min i val_end c_end em /\
  exists k, reduce i (pro ++ sm ++ body ++ em ++ epi) = Ok k /\ k <> body.
Proof.
  exists X86, [instr "addl" 1], x_start3, [bytes ["15"; "31"; "0"]%string 7; instr "addl" 8], (x_end3 9), [instr "ret" 13].
  split; [vm_compute; reflexivity|]. split; [vm_compute; reflexivity|].
  split; [apply x_start3_marker|]. split; [apply x_end3_marker|].
  eexists. split; [vm_compute; reflexivity | discriminate].
Qed.
Print Assumptions marked_exact_refuted.

(* ... and a .byte line with a symbolic / octal operand right after the end marker makes the search raise *)
Theorem marked_exact_crash_refuted : exists i pro sm body em epi,
  no_marker true i pro /\ no_marker true i body /\
  marker_min i val_start c_start sm /\ marker_min i val_end c_end em /\
  reduce i (pro ++ sm ++ body ++ em ++ epi) = Err ValueError.
Proof.
  exists X86, [instr "addl" 1], x_start3, [instr "addl" 7], (x_end3 8), [bytes ["0144"]%string 12].
  split; [vm_compute; reflexivity|]. split; [vm_compute; reflexivity|].
  split; [apply x_start3_marker|]. split; [apply x_end3_marker|]. vm_compute. reflexivity.
Qed.
Print Assumptions marked_exact_crash_refuted.

(* ... the strongest true statement: exact unless the kernel starts with a .byte line directly after a
   byte-style start marker; no exception unless .byte lines with non-literal operands follow a byte-style
   end marker.  (Markers may even carry superfluous .byte lines here: [marker], not [marker_min].) *)
Theorem marked_exact_partial : forall i pro sm body em epi,
  no_marker true i pro -> no_marker true i body ->
  marker i val_start c_start sm -> marker i val_end c_end em ->
  (1 < length sm -> first_is_byte body = false) ->
  (1 < length em -> leading_bytes_ok epi = true) ->
  reduce i (pro ++ sm ++ body ++ em ++ epi) = Ok body.
Proof. exact marked_exact_partial_lemma. Qed.
Print Assumptions marked_exact_partial.

(* ---------------------------------------------------------------- no marker / one marker *)
Theorem unmarked_whole : forall g i f, no_marker g i f -> reduce_to_section g i f = Ok f.
Proof. exact unmarked_whole_lemma. Qed.
Print Assumptions unmarked_whole.

(* only a start marker: everything after it; (as coded -- the property text does not speak about it) *)
Theorem start_marker_only : forall i pro sm rest,
  no_marker false i pro -> no_marker false i rest -> marker_min i val_start c_start sm ->
  reduce_fixed i (pro ++ sm ++ rest) = Ok rest.
Proof. intros. apply start_only_generic; auto using start_ok_fixed. Qed.
Print Assumptions start_marker_only.

(* ---------------------------------------------------------------- noise lines inside the kernel *)
(* comment / label / directive (not .byte) lines inserted anywhere in the body: the selected kernel is the
   body with exactly these lines inserted; its instruction lines are those of the body. *)
Theorem marked_noise_transparent_fixed : forall i pro sm body body' em epi,
  no_marker false i pro -> no_marker false i body -> forallb (ops_ok i) body = true ->
  marker_min i val_start c_start sm -> marker_min i val_end c_end em ->
  noisy body body' ->
  reduce_fixed i (pro ++ sm ++ body' ++ em ++ epi) = Ok body' /\
  filter has_mnemonic body' = filter has_mnemonic body.
Proof.
  intros. split; [|apply noisy_instructions; assumption].
  apply marked_exact_fixed_lemma; auto. eapply no_marker_noisy; eauto.
Qed.
Print Assumptions marked_noise_transparent_fixed.

Theorem marked_noise_transparent_partial : forall i pro sm body body' em epi,
  no_marker true i pro -> no_marker true i body -> forallb (ops_ok i) body = true ->
  marker i val_start c_start sm -> marker i val_end c_end em ->
  (1 < length sm -> first_is_byte body = false) ->
  (1 < length em -> leading_bytes_ok epi = true) ->
  noisy body body' ->
  reduce i (pro ++ sm ++ body' ++ em ++ epi) = Ok body' /\
  filter has_mnemonic body' = filter has_mnemonic body.
Proof.
  intros. split; [|apply noisy_instructions; assumption].
  apply marked_exact_partial_lemma; auto.
  - eapply no_marker_noisy; eauto.
  - intros Hl. eapply noisy_first_byte; eauto.
Qed.
Print Assumptions marked_noise_transparent_partial.

(* ... and line numbers are never looked at by the selection: two files that differ only in their line numbers
   (what inserting lines does to the lines that follow) select kernels that differ only in line numbers *)
Theorem selection_ignores_line_numbers : forall g i f f',
  map erase f = map erase f' ->
  rmap (map erase) (reduce_to_section g i f) = rmap (map erase) (reduce_to_section g i f').
Proof. exact renumber_invariant_lemma. Qed.
Print Assumptions selection_ignores_line_numbers.

(* without the operand-count hypothesis the statement is false of the code: a one-operand `mov` that
   is harmless before a non-directive line raises IndexError once a directive is inserted after it *)
Theorem noise_after_short_mov_refuted : exists i body body',
  no_marker true i body /\ noisy body body' /\ reduce i body' = Err IndexError.
Proof.
  exists X86, [ln (Some "mov"%string) [OReg "eax"%string] None None 1; instr "addl" 2],
              [ln (Some "mov"%string) [OReg "eax"%string] None None 1; dirv "p2align" 0; instr "addl" 2].
  split; [vm_compute; reflexivity|]. split; [|vm_compute; reflexivity].
  apply N_keep. apply N_ins; [vm_compute; reflexivity|]. apply N_keep. apply N_nil.
Qed.
Print Assumptions noise_after_short_mov_refuted.

(* ---------------------------------------------------------------- selection by line number *)
Theorem lines_select_exact : forall r pro body epi,
  (forall l, In l body -> In (Z.of_nat (l_number l)) r) ->
  (forall l, In l (pro ++ epi) -> ~ In (Z.of_nat (l_number l)) r) ->
  select_lines r (pro ++ body ++ epi) = body.
Proof. exact select_exact_lemma. Qed.
Print Assumptions lines_select_exact.

(* parse_file: numbers are 1-based physical line numbers, strictly increasing; blank lines only shift them *)
Theorem parse_file_numbers_increasing : forall (L : Type) (pl : string -> nat -> L) (num : L -> nat),
  (forall s n, num (pl s n) = n) ->
  forall lines start, StronglySorted (fun a b => num a < num b) (parse_file pl lines start) /\
                      forall x, In x (parse_file pl lines start) -> start < num x <= start + length lines.
Proof.
  intros L pl num H lines start. split; [apply parse_file_sorted; exact H|].
  intros x Hx. eapply parse_file_numbers_bounds; eauto.
Qed.
Print Assumptions parse_file_numbers_increasing.

Theorem parse_file_blank_transparent : forall (L : Type) (pl : string -> nat -> L) a b blank start,
  is_blank blank = true ->
  parse_file pl (a ++ blank :: b) start = parse_file pl a start ++ parse_file pl b (S (start + length a)) /\
  parse_file pl (a ++ b) start = parse_file pl a start ++ parse_file pl b (start + length a).
Proof. intros. split; [apply parse_file_blank; assumption | apply parse_file_app]. Qed.
Print Assumptions parse_file_blank_transparent.

(* ---------------------------------------------------------------- non-vacuity *)
(* decoys that no_marker permits: other value, other register, upper-case register/mnemonic, start value not
   followed by a directive, followed by a non-.byte directive, followed by other bytes, marker text inside a
   longer comment, marker comment on an instruction line *)
Definition decoys_x86 : list line :=
  [ x_mov 112 "ebx" 1; bytes ["100"; "103"; "144"] 2;
    x_mov 111 "eax" 3; bytes ["100"; "103"; "144"] 4;
    x_mov 111 "EBX" 5; bytes ["100"; "103"; "144"] 6;
    ln (Some "MOVL") [OImm 111; OReg "ebx"] None None 7; bytes ["100"; "103"; "144"] 8;
    x_mov 111 "ebx" 9; instr "addl" 10;
    x_mov 111 "ebx" 11; dirv "p2align" 12;
    x_mov 222 "ebx" 13; bytes ["100"; "103"; "145"] 14;
    x_mov 111 "ebx" 15; bytes ["100"; "103"] 16; instr "addl" 17;
    ln (Some "movq") [OImm 111; OReg "ebx"] None None 18; bytes ["100"; "103"; "144"] 19;
    ln (Some "movl") [OImmOther; OReg "ebx"] None None 20; bytes ["100"; "103"; "144"] 21;
    cmt "OSACA-BEGIN here" 22; cmt "osaca-begin" 23;
    ln (Some "addl") [OReg "eax"; OReg "ecx"] None (Some "OSACA-BEGIN") 24;
    x_mov 111 "ebx" 25 ]%string.
Example decoys_x86_no_marker : no_marker true X86 decoys_x86 /\ no_marker false X86 decoys_x86.
Proof. split; vm_compute; reflexivity. Qed.

Definition decoys_a64 : list line :=
  [ a_mov 111 "x2" 1; bytes ["213"; "3"; "32"; "31"] 2;
    a_mov 111 "w1" 3; bytes ["213"; "3"; "32"; "31"] 4;
    a_mov 110 "x1" 5; bytes ["213"; "3"; "32"; "31"] 6;
    a_mov 111 "x1" 7; bytes ["213"; "3"; "32"] 8;
    ln (Some "mov") [OImm 111; OReg "x1"] None None 9; bytes ["213"; "3"; "32"; "31"] 10;
    a_mov 222 "x1" 11 ]%string.
Example decoys_a64_no_marker : no_marker true A64 decoys_a64 /\ no_marker false A64 decoys_a64.
Proof. split; vm_compute; reflexivity. Qed.

Example marked_x86_instance :
  reduce X86 (decoys_x86 ++ x_start3 ++ decoys_x86 ++ x_end3 60 ++ x_start3) = Ok decoys_x86 /\
  reduce_fixed X86 (decoys_x86 ++ x_start1 ++ decoys_x86 ++ [cmt c_end 70] ++ x_start3) = Ok decoys_x86.
Proof. split; vm_compute; reflexivity. Qed.

Definition a_start := [a_mov 111 "x1" 1; bytes ["213"; "3"; "32"; "31"] 2]%string.
Definition a_end := [a_mov 222 "x1" 9; bytes ["213"; "3"] 10; bytes ["0x20"; "31"] 11]%string.
Example markers_a64 : marker_min A64 val_start c_start a_start /\ marker_min A64 val_end c_end a_end /\
                      marker_min A64 val_start c_start [cmt c_start 1] /\ marker A64 val_end c_end a_end.
Proof.
  repeat split; try (apply MM_bytes; vm_compute; reflexivity); try (apply MM_comment; vm_compute; reflexivity).
  apply M_bytes; vm_compute; reflexivity.
Qed.
Example marked_a64_instance :
  reduce A64 (decoys_a64 ++ a_start ++ decoys_a64 ++ a_end ++ decoys_a64) = Ok decoys_a64.
Proof. vm_compute. reflexivity. Qed.

Example noisy_instance : noisy [instr "addl" 1; instr "subl" 2]
                               [cmt "hello" 0; instr "addl" 1; dirv "loc" 0; ln None [] None None 0; instr "subl" 2].
Proof. repeat (first [apply N_nil | apply N_keep | apply N_ins; [vm_compute; reflexivity|]]). Qed.
Example ops_ok_decoys : forallb (ops_ok X86) decoys_x86 = true /\ forallb (ops_ok A64) decoys_a64 = true.
Proof. split; vm_compute; reflexivity. Qed.

(* Python int(x, 0) as modelled *)
Example py_int0_samples :
  map py_int0 ["100"; "0x64"; "0X64"; "0o144"; "0b1100100"; " 100 "; "+100"; "-100"; "1_00"; "0"; "00"; "0x_64"]%string
  = [Ok 100; Ok 100; Ok 100; Ok 100; Ok 100; Ok 100; Ok 100; Ok (-100); Ok 100; Ok 0; Ok 0; Ok 100]%Z /\
  map py_int0 ["0144"; "foo"; ""; "1__0"; "_1"; "1_"; "0x"; "- 1"; "'a'"; "1+2"]%string
  = [Err ValueError; Err ValueError; Err ValueError; Err ValueError; Err ValueError; Err ValueError;
     Err ValueError; Err ValueError; Err ValueError; Err ValueError].
Proof. split; vm_compute; reflexivity. Qed.
