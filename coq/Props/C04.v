(* Property C04 -- the critical path is the longest latency-weighted dependency chain.
   Theorems only; proof in Proofs/CritPathQ.v (exact rationals).  The implementation's result is tied to cp_opt by the
   certificate check of the harness (Model/CritPath.cert_ok: reported lines are linked by edges of the model graph,
   every CP cell is the edge latency / the last line's latency, and the cells add up to cp_opt). *)
From Coq Require Import QArith List Bool.
From OV Require Import Model.Num Model.Pressure Model.Deps Model.CritPath Proofs.CritPathQ.
Import ListNotations.
Open Scope Q_scope.

(* for EVERY dependency chain c (edge-sum e) ending in instruction n of the kernel: its length -- edge latencies,
   plus the leading load stage counted once, plus the latency of its last instruction -- is at most cp_opt *)
Theorem C04_cp_bounds_every_chain : forall g k,
  (forall s isld t w, In ((s, isld), t, w) g -> 0 <= w) ->
  forward_ok g [] k ->
  forall c e n lat, chain g c e -> last_of c = n -> In (n, lat) k ->
  (match c with _ :: _ :: _ => e + loadw QNum g (first_of c) | _ => e end) + lat <= cp_opt QNum g k.
Proof. exact cp_opt_upper. Qed.
Print Assumptions C04_cp_bounds_every_chain.

Theorem C04_cp_ge_single_latency : forall g k n lat,
  (forall s isld t w, In ((s, isld), t, w) g -> 0 <= w) -> forward_ok g [] k -> In (n, lat) k ->
  lat <= cp_opt QNum g k.
Proof. exact cp_opt_ge_single. Qed.
Print Assumptions C04_cp_ge_single_latency.

(* ... and cp_opt is ATTAINED: unless it is the trivial 0, some chain of the kernel has exactly this length.  Together
   with the bound above: cp_opt = length of the longest chain. *)
Theorem C04_cp_is_attained : forall g k,
  (forall s isld t w, In ((s, isld), t, w) g -> 0 <= w) ->
  cp_opt QNum g k = 0 \/
  exists c e n lat, chain g c e /\ last_of c = n /\ In (n, lat) k /\
    (match c with _ :: _ :: _ => e + loadw QNum g (first_of c) | _ => e end) + lat == cp_opt QNum g k.
Proof. exact cp_opt_attained. Qed.
Print Assumptions C04_cp_is_attained.

(* non-vacuity + the shape that the shipped code got wrong (fixed in /repo): chain 1 -> 2 with edge latency 1,
   instruction 2 has latency 7: the critical path is 8, not max(1, 7) *)
Example C04_chain_ending_in_expensive_instruction :
  cp_opt QNum [((1%nat, false), 2%nat, 1)] [(1%nat, 1); (2%nat, 7)] == 8 /\
  forward_ok [((1%nat, false), 2%nat, 1)] [] [(1%nat, 1); (2%nat, 7)].
Proof.
  split; [vm_compute; reflexivity|]. cbn. repeat split; try tauto.
  - intros s w [H|[]]; discriminate.
  - intros [H|[]]; discriminate.
  - intros s w [H|[]]. inversion H. left. reflexivity.
Qed.
