(* Property C04 -- the critical path is the longest latency-weighted dependency chain.
   Theorems only; proof in Proofs/CritPathQ.v (exact rationals).  The implementation's result is tied to cp_opt by the
   certificate check of the harness (Model/CritPath.cert_ok: reported lines are linked by edges of the model graph,
   every CP cell is the edge latency / the last line's latency, and the cells add up to cp_opt). *)
From Coq Require Import QArith List Bool.
From OV Require Import Model.Num Model.Pressure Model.Deps Model.CritPath Proofs.CritPathQ Proofs.CritCert.
Import ListNotations.
Open Scope Q_scope.

(* for EVERY dependency chain c (edge-sum e) ending in instruction n of the kernel: its length -- edge latencies,
   plus the leading load stage counted once, plus the latency of its last instruction -- is at most cp_opt *)
Theorem C04_cp_bounds_every_chain : forall g k,
  (forall s isld t w, In ((s, isld), t, w) g -> 0 <= w) ->
  forward_ok g [] k ->
  forall c e n lat, chain g c e -> last_of c = n -> In (n, lat) k ->
  (match c with _ :: _ :: _ => e + loadw QNum g (first_of c) | _ => e end) + lat <= cp_opt QNum g k.
Proof. exact cp_opt_upper. Qed.
Print Assumptions C04_cp_bounds_every_chain.

Theorem C04_cp_ge_single_latency : forall g k n lat,
  (forall s isld t w, In ((s, isld), t, w) g -> 0 <= w) -> forward_ok g [] k -> In (n, lat) k ->
  lat <= cp_opt QNum g k.
Proof. exact cp_opt_ge_single. Qed.
Print Assumptions C04_cp_ge_single_latency.

(* ... and cp_opt is ATTAINED: unless it is the trivial 0, some chain of the kernel has exactly this length.  Together
   with the bound above: cp_opt = length of the longest chain. *)
Theorem C04_cp_is_attained : forall g k,
  (forall s isld t w, In ((s, isld), t, w) g -> 0 <= w) ->
  cp_opt QNum g k = 0 \/
  exists c e n lat, chain g c e /\ last_of c = n /\ In (n, lat) k /\
    (match c with _ :: _ :: _ => e + loadw QNum g (first_of c) | _ => e end) + lat == cp_opt QNum g k.
Proof. exact cp_opt_attained. Qed.
Print Assumptions C04_cp_is_attained.

(* non-vacuity + the shape that the shipped code got wrong (fixed in /repo): chain 1 -> 2 with edge latency 1,
   instruction 2 has latency 7: the critical path is 8, not max(1, 7) *)
Example C04_chain_ending_in_expensive_instruction :
  cp_opt QNum [((1%nat, false), 2%nat, 1)] [(1%nat, 1); (2%nat, 7)] == 8 /\
  forward_ok [((1%nat, false), 2%nat, 1)] [] [(1%nat, 1); (2%nat, 7)].
Proof.
  split; [vm_compute; reflexivity|]. cbn. repeat split; try tauto.
  - intros s w [H|[]]; discriminate.
  - intros [H|[]]; discriminate.
  - intros s w [H|[]]. inversion H. left. reflexivity.
Qed.

(* ================================================================ the certificate (Proofs/CritCert.v) *)
(* The check never re-implements networkx: per kernel it evaluates  cp_certificate = cert_ok && (sum of cells = cp_opt)  on
   the lines and CP cells the implementation reports.  The theorems below say what a passed certificate MEANS, for every
   graph g, line list k, latency function lat and reported cells (exact rationals):
     cells_spec   : every cell is what the chain semantics assigns to its position (edge latency; first line of a chain
                    of >= 2 lines: load stage + edge latency; last line: the instruction's latency),
     chain        : the reported lines are a dependency chain of g,
     clen == ...  : the cells add up to the chain's length, which is cp_opt g k,
     longest_chain: no chain of the kernel is longer. *)
Theorem C04_certificate_sound : forall g k lat cells,
  nonneg_edges g -> forward_ok g [] k ->
  (forall n l, lat n = Some l -> In (n, l) k) ->
  cert_ok QNum g lat true cells = true ->
  cert_value QNum cells == cp_opt QNum g k ->
  cells_spec g lat true cells /\
  exists e l, chain g (map fst cells) e /\ lat (last_of (map fst cells)) = Some l /\
    clen g (map fst cells) e l == cells_sum cells /\
    clen g (map fst cells) e l == cp_opt QNum g k /\
    longest_chain g k (map fst cells) e l.
Proof. exact cert_sound. Qed.
Print Assumptions C04_certificate_sound.

(* the same for the latency function the shards use (lookup k, see C04_shard_latency_function_is_lookup), stated on the
   boolean the shards evaluate *)
Theorem C04_certificate_sound_kernel_latencies : forall g k cells,
  nonneg_edges g -> forward_ok g [] k ->
  cp_certificate QNum g k (lookup k) cells = true ->
  cells_spec g (lookup k) true cells /\
  exists e l, chain g (map fst cells) e /\ In (last_of (map fst cells), l) k /\
    clen g (map fst cells) e l == cells_sum cells /\
    clen g (map fst cells) e l == cp_opt QNum g k /\
    longest_chain g k (map fst cells) e l.
Proof. exact cp_certificate_sound_lookup. Qed.
Print Assumptions C04_certificate_sound_kernel_latencies.

(* the hypotheses are decidable: with the boolean input check (non-negative weights, distinct line numbers, every edge
   points from an earlier line of k) nothing but two evaluations is assumed *)
Theorem C04_certificate_sound_checked : forall g k cells,
  cert_inputs_okb QNum g k = true ->
  cp_certificate QNum g k (lookup k) cells = true ->
  cells_spec g (lookup k) true cells /\
  exists e l, chain g (map fst cells) e /\ In (last_of (map fst cells), l) k /\
    clen g (map fst cells) e l == cells_sum cells /\
    clen g (map fst cells) e l == cp_opt QNum g k /\
    longest_chain g k (map fst cells) e l.
Proof. exact cp_certificate_sound_checked. Qed.
Print Assumptions C04_certificate_sound_checked.

(* contrapositive: whenever some chain of the kernel is strictly longer than the reported cells add up to, the
   certificate is rejected -- whatever lines and cells are reported *)
Theorem C04_certificate_rejects_non_maximal : forall g k lat cells c e n l,
  nonneg_edges g -> forward_ok g [] k ->
  (forall n l, lat n = Some l -> In (n, l) k) ->
  chain g c e -> last_of c = n -> In (n, l) k -> cells_sum cells < clen g c e l ->
  cp_certificate QNum g k lat cells = false.
Proof. exact cp_certificate_rejects_non_maximal. Qed.
Print Assumptions C04_certificate_rejects_non_maximal.

(* converse (no false alarms, whatever tie-breaking networkx applies): EVERY longest chain, reported with the cells of
   the chain semantics, passes the certificate.  Needs one weight per (u, v) -- true of the model graph, see
   C04_model_graph_one_weight_per_pair -- and a non-negative latency of the chain's last instruction. *)
Theorem C04_longest_chain_has_certificate : forall g k c e n l,
  nonneg_edges g -> forward_ok g [] k -> edges_functional g ->
  chain g c e -> last_of c = n -> In (n, l) k -> 0 <= l ->
  longest_chain g k c e l ->
  exists cells, map fst cells = c /\ cells_spec g (lookup k) true cells /\ cells_sum cells == clen g c e l /\
                cp_certificate QNum g k (lookup k) cells = true.
Proof. exact longest_has_cert_lookup. Qed.
Print Assumptions C04_longest_chain_has_certificate.

(* ... and any chain at all passes cert_ok with cells adding up to its length: only the comparison with cp_opt can reject
   an honestly reported chain *)
Theorem C04_every_chain_passes_cert_ok : forall g lat c e l,
  edges_functional g -> chain g c e -> lat (last_of c) = Some l ->
  exists cells, map fst cells = c /\ cert_ok QNum g lat true cells = true /\ cert_value QNum cells == clen g c e l.
Proof. exact chain_cells_pass_cert_ok. Qed.
Print Assumptions C04_every_chain_passes_cert_ok.

(* glue to the shards (harness/deps.py `check`): their latency function is lookup of their k; their graph is create_dg *)
Theorem C04_shard_latency_function_is_lookup : forall (A T : Type) (no : A -> nat) (f : A -> T) (ls : list A) n,
  option_map f (find (fun l => Nat.eqb (no l) n) ls) = lookup (map (fun l => (no l, f l)) ls) n.
Proof. exact @find_is_lookup. Qed.
Print Assumptions C04_shard_latency_function_is_lookup.

Theorem C04_model_graph_one_weight_per_pair : forall dep fwd pidx fd (k : list (line (T:=Q))),
  edges_functional (create_dg QNum dep fwd pidx fd k).
Proof. exact create_dg_functional. Qed.
Print Assumptions C04_model_graph_one_weight_per_pair.

(* the load-stage rule used by cells_spec / clen: the weight of the line's load edge, 0 without one *)
Theorem C04_load_stage_rule : forall (g : list qedge) n,
  loadw QNum g n = 0 \/ In ((n, true), n, loadw QNum g n) g.
Proof. exact loadw_spec. Qed.
Print Assumptions C04_load_stage_rule.

(* ---------------------------------------------------------------- non-vacuity: 4 lines, line 1 has a load stage (4 cy) *)
Definition g4 : list qedge :=
  [((1%nat, true), 1%nat, 4); ((1%nat, false), 2%nat, 2); ((2%nat, false), 3%nat, 3);
   ((1%nat, false), 3%nat, 2); ((3%nat, false), 4%nat, 1)].
Definition k4 : list (nat * Q) := [(1%nat, 5); (2%nat, 3); (3%nat, 1); (4%nat, 2)].
(* longest chain 1 -> 2 -> 3 -> 4: (4 + 2) + 3 + 1 + latency 2 = 12 *)
Definition cells4 : list (nat * Q) := [(1%nat, 6); (2%nat, 3); (3%nat, 1); (4%nat, 2)].

Example C04_g4_hypotheses : nonneg_edges g4 /\ forward_ok g4 [] k4 /\ edges_functional g4.
Proof.
  split; [|split].
  - intros s isld t w H. unfold g4 in H. cbn [In] in H.
    repeat (destruct H as [H|H]; [inversion H; subst; discriminate|]). contradiction.
  - assert (E : forall s w (P : Prop), has_edge g4 s 1%nat w -> P).
    { intros s w P H. unfold has_edge, g4 in H. cbn [In] in H.
      repeat (destruct H as [H|H]; [discriminate H|]). contradiction. }
    cbn [forward_ok k4]. repeat split; try tauto.
    + intros s w H. exact (E s w _ H).
    + intros [H|[]]; discriminate.
    + intros s w H. unfold has_edge, g4 in H. cbn [In] in H.
      repeat (destruct H as [H|H]; [try discriminate H; inversion H; subst; cbn; tauto|]). contradiction.
    + intros [H|[H|[]]]; discriminate.
    + intros s w H. unfold has_edge, g4 in H. cbn [In] in H.
      repeat (destruct H as [H|H]; [try discriminate H; inversion H; subst; cbn; tauto|]). contradiction.
    + intros [H|[H|[H|[]]]]; discriminate.
    + intros s w H. unfold has_edge, g4 in H. cbn [In] in H.
      repeat (destruct H as [H|H]; [try discriminate H; inversion H; subst; cbn; tauto|]). contradiction.
  - intros u v w w' H1 H2. unfold has_edge, g4 in *. cbn [In] in *.
    repeat (destruct H1 as [H1|H1]; [inversion H1; subst; clear H1|]); try contradiction;
    repeat (destruct H2 as [H2|H2]; [try (inversion H2; subst; reflexivity); try discriminate H2|]); try contradiction.
Qed.

(* the certificate passes on the longest chain (first cell = load stage 4 + edge 2) ... *)
Example C04_g4_certificate_passes :
  cp_certificate QNum g4 k4 (lookup k4) cells4 = true /\ cp_opt QNum g4 k4 == 12.
Proof. split; vm_compute; reflexivity. Qed.
Example C04_g4_inputs_ok : cert_inputs_okb QNum g4 k4 = true.
Proof. vm_compute. reflexivity. Qed.

(* ... so C04_certificate_sound_kernel_latencies applies: 1 -> 2 -> 3 -> 4 is a longest chain of g4 *)
Example C04_g4_reported_path_is_longest :
  exists e l, chain g4 [1; 2; 3; 4]%nat e /\ clen g4 [1; 2; 3; 4]%nat e l == 12 /\ longest_chain g4 k4 [1; 2; 3; 4]%nat e l.
Proof.
  destruct C04_g4_hypotheses as (Hw & FO & _).
  destruct (C04_certificate_sound_kernel_latencies g4 k4 cells4 Hw FO (proj1 C04_g4_certificate_passes))
    as (_ & e & l & Hc & _ & _ & Ho & Lg).
  exists e, l. split; [exact Hc|]. split; [|exact Lg]. rewrite Ho. exact (proj2 C04_g4_certificate_passes).
Qed.

(* ... and is rejected on: the non-maximal chain 1 -> 3 -> 4 with honest cells (cert_ok passes, the sum 9 is not cp_opt);
   the longest chain with the load stage left out of the first cell (cert_ok alone would accept it: the comparison with
   cp_opt is what pins the first cell); lines that are not linked; a cell that is not the edge latency *)
Example C04_g4_certificate_rejects :
  (cert_ok QNum g4 (lookup k4) true [(1%nat, 6); (3%nat, 1); (4%nat, 2)] = true /\
   cp_certificate QNum g4 k4 (lookup k4) [(1%nat, 6); (3%nat, 1); (4%nat, 2)] = false) /\
  (cert_ok QNum g4 (lookup k4) true [(1%nat, 2); (2%nat, 3); (3%nat, 1); (4%nat, 2)] = true /\
   cp_certificate QNum g4 k4 (lookup k4) [(1%nat, 2); (2%nat, 3); (3%nat, 1); (4%nat, 2)] = false) /\
  cert_ok QNum g4 (lookup k4) true [(2%nat, 3); (4%nat, 2)] = false /\
  cert_ok QNum g4 (lookup k4) true [(1%nat, 6); (2%nat, 4); (3%nat, 1); (4%nat, 2)] = false.
Proof. vm_compute. repeat split; reflexivity. Qed.
