(* Property C05 -- loop-carried dependencies are exactly the cross-iteration dependency cycles.
   Theorems only; proofs in Proofs/LCD.v.  lcd_entries (Model/Deps.v) = de-duplication of the images of ALL
   dependency paths from an instruction to its copy in the second iteration of the doubled kernel. *)
From Coq Require Import List Bool Arith Lia.
From OV Require Import Model.Num Model.Pressure Model.Deps Proofs.LCD.
Import ListNotations.

(* the enumeration finds exactly the dependency paths u -> t (sound and complete; fuel only bounds the length) *)
Theorem C05_paths_sound : forall (T : Type) (g : list (edge (T:=T))) fuel u t p,
  In p (paths fuel g u t) -> vpath g u t p.
Proof. intros T g. exact (paths_sound g). Qed.
Print Assumptions C05_paths_sound.

Theorem C05_paths_complete : forall (T : Type) (g : list (edge (T:=T))) fuel u t p,
  vpath g u t p -> List.length p <= fuel -> In p (paths fuel g u t).
Proof. intros T g. exact (paths_complete g). Qed.
Print Assumptions C05_paths_complete.

(* the model's result IS the first-kept de-duplication of those paths' entries ... *)
Theorem C05_lcd_is_dedup_of_cross_iteration_paths : forall (T : Type) (N : NumOps T) dep fwd pidx fd (k : list (line (T:=T))),
  lcd_entries N dep fwd pidx fd k =
  dedup_by (pairs_eqb N) []
    (flat_map (fun l => map (entry_of N (lcd_offset k))
                            (paths (2 * List.length k + 2) (create_dg N dep fwd pidx fd (doubled k)) (l_no l) (l_no l + lcd_offset k))) k).
Proof. intros. reflexivity. Qed.
Print Assumptions C05_lcd_is_dedup_of_cross_iteration_paths.

(* ... and de-duplication (for any key equality that is an equivalence) reports only input entries, represents every
   input entry, and reports each class of equal sorted (line, latency) lists exactly once *)
Theorem C05_each_cycle_once : forall (T : Type) (keq : list (nat * T) -> list (nat * T) -> bool),
  (forall a, keq a a = true) -> (forall a b, keq a b = keq b a) ->
  (forall a b c, keq a b = true -> keq b c = true -> keq a c = true) ->
  forall es,
  (forall e, In e (dedup_by keq [] es) -> In e es) /\
  (forall e, In e es -> exists e', In e' (dedup_by keq [] es) /\ keq (snd e) (snd e') = true) /\
  NoDup (dedup_by keq [] es) /\
  (forall a b, In a (dedup_by keq [] es) -> In b (dedup_by keq [] es) -> keq (snd a) (snd b) = true -> a = b).
Proof.
  intros T keq R S Tr es. repeat split.
  - apply dedup_subset.
  - intros e H. destruct (dedup_covers keq R es [] e H) as [A|A]; [discriminate | exact A].
  - apply (dedup_nodup keq R S es []).
  - apply (dedup_nodup keq R S es []).
Qed.
Print Assumptions C05_each_cycle_once.

(* ------------------------------------------------------------------ declarative characterisation (Proofs/StreamCycles.v)
   For a loop body k (n lines; `renumber k` = the kernel with line numbers 1..n) let `body N k` be the periodic instruction
   stream  position x |-> instruction x mod n  and `stream_E … (body N k) a b` the dependency edge from stream position a to b. *)
From Coq Require Import String QArith.
From OV Require Import Proofs.DepsScan Proofs.Rotation Proofs.RotationGlue Proofs.StreamCycles.
Local Open Scope nat_scope.

(* (a) the paths enumerated in the doubled kernel from root i = the paths of the stream from position i (instruction i in one
   iteration) to position i + n (the same instruction in the next iteration); `cycle_lines` only renames positions to the line
   numbers of the doubled kernel (x + 1 resp. x - n + 1 + offset) *)
Theorem C05_lcd_paths_are_stream_cycles : forall (T : Type) (N : NumOps T) dep fwd pidx fd (k : list (line (T:=T))) i fuel p,
  i < List.length k -> List.length k <= fuel ->
  (In p (lcd_paths N dep fwd pidx fd fuel (renumber k) (nth i (renumber k) (dline N))) <->
   exists q, spath T (stream_E N dep fwd pidx fd (body N k)) i (i + List.length k) q /\ p = cycle_lines k q).
Proof. intros T N dep fwd pidx fd. exact (lcd_paths_are_stream_cycles N dep fwd pidx fd). Qed.
Print Assumptions C05_lcd_paths_are_stream_cycles.

(* (b) what an edge of the stream is: a < b and w is the weight of the LAST report about f b (numbered b - a when
   f (a+1) .. f b = `between f a b` are numbered 1 .. b - a) of the scans of f a's destinations over f (a+1) .. f b *)
Theorem C05_stream_edge_is_raw : forall (T : Type) (N : NumOps T) dep fwd pidx fd (f : nat -> line (T:=T)) a b w,
  stream_E N dep fwd pidx fd f a b = Some w <->
  a < b /\ exists out1 fl out2,
    find_depending dep fd (f a) (renum_from 1 (between f a b)) = out1 ++ (b - a, fl) :: out2 /\
    (forall nf, In nf out2 -> fst nf <> b - a) /\ w = edge_weight N fwd pidx (f a) fl.
Proof. intros T N dep fwd pidx fd. exact (stream_edge_is_last_report N dep fwd pidx fd). Qed.
Print Assumptions C05_stream_edge_is_raw.

Theorem C05_stream_edge_exists_iff_report : forall (T : Type) (N : NumOps T) dep fwd pidx fd (f : nat -> line (T:=T)) a b,
  (exists w, stream_E N dep fwd pidx fd f a b = Some w) <->
  a < b /\ exists fl, In (b - a, fl) (find_depending dep fd (f a) (renum_from 1 (between f a b))).
Proof. intros T N dep fwd pidx fd. exact (stream_edge_exists_iff_report N dep fwd pidx fd). Qed.
Print Assumptions C05_stream_edge_exists_iff_report.

(* ... and a register/flag (non store-to-load) report about f b exists iff f b reads a destination of f a that no instruction
   strictly between them writes (read after write) *)
Theorem C05_stream_edge_read_after_write : forall (T : Type) (N : NumOps T) dep fd (f : nat -> line (T:=T)) a b, a < b ->
  ((exists fl, In (b - a, fl) (find_depending dep fd (f a) (renum_from 1 (between f a b))) /\ fl <> FStoreLoad) <->
   (exists d, In d (dsts (f a)) /\ is_regflag fd d /\ is_read dep d (f b) = true /\
              forall c, a < c < b -> is_written dep d (f c) = false)).
Proof. intros T N dep fd. exact (stream_edge_raw N dep fd). Qed.
Print Assumptions C05_stream_edge_read_after_write.

(* (c) entries: every reported loop-carried dependency is `cycle_entry` of such a stream cycle -- members = its instructions
   (line = position mod n + 1) with the weight of the edge leaving them, sorted; latency = the members' weights added left to right
   from 0 in the order of that sorted list (so a function of the member list, whichever position the cycle is entered at) -- and every stream cycle is represented by a reported entry with the same sorted (line, latency) list *)
Theorem C05_lcd_entries_are_stream_cycles : forall (T : Type) (N : NumOps T) dep fwd pidx fd (k : list (line (T:=T))) e,
  In e (lcd_entries N dep fwd pidx fd (renumber k)) ->
  exists i q, i < List.length k /\ spath T (stream_E N dep fwd pidx fd (body N k)) i (i + List.length k) q /\
              e = (sum_pairs N (sort_pairs N (map (fun xw => (fst xw mod List.length k + 1, snd xw)) q)),
                   sort_pairs N (map (fun xw => (fst xw mod List.length k + 1, snd xw)) q)).
Proof. intros T N dep fwd pidx fd. exact (lcd_entries_are_stream_cycles N dep fwd pidx fd). Qed.
Print Assumptions C05_lcd_entries_are_stream_cycles.

Theorem C05_stream_cycles_are_reported : forall (T : Type) (N : NumOps T) dep fwd pidx fd (k : list (line (T:=T))) i q,
  (forall a, neqb N a a = true) ->
  i < List.length k -> spath T (stream_E N dep fwd pidx fd (body N k)) i (i + List.length k) q ->
  exists e, In e (lcd_entries N dep fwd pidx fd (renumber k)) /\
            pairs_eqb N (sort_pairs N (map (fun xw => (fst xw mod List.length k + 1, snd xw)) q)) (snd e) = true.
Proof. intros T N dep fwd pidx fd. exact (stream_cycles_are_reported N dep fwd pidx fd). Qed.
Print Assumptions C05_stream_cycles_are_reported.

(* non-vacuity: the kernel a <- f(c); b <- f(a); c <- f(b) (latencies 1, 2, 3): the stream cycle 0 -> 1 -> 2 -> 3 exists, is the
   enumerated path [(1,1);(2,2);(3,3)] and its entry is (6, [(1,1);(2,2);(3,3)]) *)
Example C05_stream_cycle_nonvacuous :
  spath Q (stream_E QNum (fun a b => String.eqb (r_name a) (r_name b)) 0%Q 0%Q true (body QNum ex_kernel))
        0 (0 + List.length ex_kernel) [(0, 1%Q); (1, 2%Q); (2, 3%Q)] /\
  cycle_lines ex_kernel [(0, 1%Q); (1, 2%Q); (2, 3%Q)] = [(1, 1%Q); (2, 2%Q); (3, 3%Q)] /\
  cycle_entry QNum ex_kernel [(0, 1%Q); (1, 2%Q); (2, 3%Q)] = (6%Q, [(1, 1%Q); (2, 2%Q); (3, 3%Q)]) /\
  lcd_entries QNum (fun a b => String.eqb (r_name a) (r_name b)) 0%Q 0%Q true (renumber ex_kernel)
    = [(6%Q, [(1, 1%Q); (2, 2%Q); (3, 3%Q)])].
Proof.
  destruct ex_stream_cycle as (A & B & C). split; [exact A|]. split; [exact B|]. split; [exact C|]. vm_compute. reflexivity.
Qed.
