(* Property C05 -- loop-carried dependencies are exactly the cross-iteration dependency cycles.
   Theorems only; proofs in Proofs/LCD.v.  lcd_entries (Model/Deps.v) = de-duplication of the images of ALL
   dependency paths from an instruction to its copy in the second iteration of the doubled kernel. *)
From Coq Require Import List Bool Arith Lia.
From OV Require Import Model.Num Model.Pressure Model.Deps Proofs.LCD.
Import ListNotations.

(* the enumeration finds exactly the dependency paths u -> t (sound and complete; fuel only bounds the length) *)
Theorem C05_paths_sound : forall (T : Type) (g : list (edge (T:=T))) fuel u t p,
  In p (paths fuel g u t) -> vpath g u t p.
Proof. intros T g. exact (paths_sound g). Qed.
Print Assumptions C05_paths_sound.

Theorem C05_paths_complete : forall (T : Type) (g : list (edge (T:=T))) fuel u t p,
  vpath g u t p -> List.length p <= fuel -> In p (paths fuel g u t).
Proof. intros T g. exact (paths_complete g). Qed.
Print Assumptions C05_paths_complete.

(* the model's result IS the first-kept de-duplication of those paths' entries ... *)
Theorem C05_lcd_is_dedup_of_cross_iteration_paths : forall (T : Type) (N : NumOps T) dep fwd pidx fd (k : list (line (T:=T))),
  lcd_entries N dep fwd pidx fd k =
  dedup_by (pairs_eqb N) []
    (flat_map (fun l => map (entry_of N (lcd_offset k))
                            (paths (2 * List.length k + 2) (create_dg N dep fwd pidx fd (doubled k)) (l_no l) (l_no l + lcd_offset k))) k).
Proof. intros. reflexivity. Qed.
Print Assumptions C05_lcd_is_dedup_of_cross_iteration_paths.

(* ... and de-duplication (for any key equality that is an equivalence) reports only input entries, represents every
   input entry, and reports each class of equal sorted (line, latency) lists exactly once *)
Theorem C05_each_cycle_once : forall (T : Type) (keq : list (nat * T) -> list (nat * T) -> bool),
  (forall a, keq a a = true) -> (forall a b, keq a b = keq b a) ->
  (forall a b c, keq a b = true -> keq b c = true -> keq a c = true) ->
  forall es,
  (forall e, In e (dedup_by keq [] es) -> In e es) /\
  (forall e, In e es -> exists e', In e' (dedup_by keq [] es) /\ keq (snd e) (snd e') = true) /\
  NoDup (dedup_by keq [] es) /\
  (forall a b, In a (dedup_by keq [] es) -> In b (dedup_by keq [] es) -> keq (snd a) (snd b) = true -> a = b).
Proof.
  intros T keq R S Tr es. repeat split.
  - apply dedup_subset.
  - intros e H. destruct (dedup_covers keq R es [] e H) as [A|A]; [discriminate | exact A].
  - apply (dedup_nodup keq R S es []).
  - apply (dedup_nodup keq R S es []).
Qed.
Print Assumptions C05_each_cycle_once.
