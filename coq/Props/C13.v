(* C13 -- Text report, machine-readable output and totals agree.
   Property theorems about Model/Report.v (report_model = structure of frontend.py's combined view, LCD list and
   warnings; dict_model = full_analysis_dict; arch_used / print_*_warning = osaca.py:inspect) and Model/Fmt.v
   (fmt_fixed = '{:.Nf}'.format).  All statements quantify over every request, every analysed kernel, CP list and
   LCD dict; wf_analysis (a boolean the check evaluates on every real case) is assumed only where stated. *)
From Coq Require Import ZArith QArith List Bool String Ascii Arith.
From Coq Require Import PrimFloat SpecFloat FloatOps.
From OV Require Import Model.Num Model.Fmt Model.Report Proofs.Fmt Proofs.Report Proofs.ReportThm.
Import ListNotations.

(* ------------------------------------------------------------------ non-vacuity: a concrete request and analysis *)
Definition ex_flags (unk : bool) : flagset :=
  {| fl_tp_unkwn := unk; fl_lt_unkwn := unk; fl_not_bound := false; fl_hidden_ld := false;
     fl_ld := false; fl_has_ld := false; fl_has_st := false |}.
Definition ex_a : analysis :=
  {| a_ports := ["0"; "1"]%string;
     a_kernel := [ {| l_num := 1; l_press := [0x1p-1; 0x1p-1]%float; l_used := ["0"; "1"]%string; l_tp := 0x1p-1%float;
                      l_lat_cp := 0x1p+2%float; l_flags := ex_flags false; l_instr := true |};
                   {| l_num := 2; l_press := [0; 0]%float; l_used := []; l_tp := 0%float;
                      l_lat_cp := 0%float; l_flags := ex_flags true; l_instr := true |};
                   {| l_num := 3; l_press := [0; 0]%float; l_used := []; l_tp := 0%float;
                      l_lat_cp := 0%float; l_flags := ex_flags false; l_instr := false |} ];
     a_cp := [ {| cp_num := 1; cp_lat := 0x1p+2%float |} ];
     a_lcd := [ {| lcd_lat := 0x1p+0%float; lcd_deps := [(1%Z, 0x1p+0%float)] |} ];
     a_timed_out := false |}.
Definition ex_q (ign : bool) : request :=
  {| q_arch := None; q_lines_given := false; q_marker_found := false; q_parsed := 3; q_ignore_unknown := ign;
     q_cnt_x86 := 2; q_cnt_a64 := 0; q_first_parse_ok := true |}.

Example ex_wf : wf_analysis ex_a = true.
Proof. vm_compute. reflexivity. Qed.
Example ex_selection : selection_consistent (ex_q false) ex_a.
Proof. intros _. split; [discriminate|reflexivity]. Qed.
Example ex_suppressed : exists r, report_model (ex_q false) ex_a = Some r /\ summary r = None
                                  /\ w_missing (warns r) = Some 1%nat /\ w_arch (warns r) = true.
Proof. eexists. split; [vm_compute; reflexivity|]. repeat split. Qed.
Example ex_totals : exists r s, report_model (ex_q true) ex_a = Some r /\ summary r = Some s
                                /\ map render_cell (s_press s) = ["0.50"; "0.50"]%string /\ a_lcd ex_a <> [].
Proof. eexists. eexists. split; [vm_compute; reflexivity|]. split; [reflexivity|]. split; [vm_compute; reflexivity|discriminate]. Qed.
Example ex_finite : f_is_finite 0x1.8p+3%float = true /\ fmt_fixed 1 0x1.88p+3%float = "12.2"%string
                    /\ f_decode 0x1.88p+3%float = FD_fin false 6896136929411072 562949953421312.
Proof. vm_compute. repeat split. Qed.

(* ------------------------------------------------------------------ the summary row is the totals *)
(* per-port cells show the dict's totals (blank only for a zero total), the dict's totals are the rounded column sums
   of the dict's own kernel lines with a non-zero throughput (the first line's vector if there is none); the CP total
   is the dict's CriticalPath and the sum of the CP cells shown in the rows; the LCD figure is the dict's LCD, an
   upper bound of every loop-carried latency, attained by one of them, and 0.0 if there is none. *)
Theorem summary_is_totals : forall q a r s, report_model q a = Some r -> summary r = Some s ->
  let d := dict_model q a in
  (wf_analysis a = true -> List.length (tp_sum (a_kernel a)) = List.length (a_ports a) ->
     Forall2 cell_shows (s_press s) (dd_sum_press d))
  /\ dd_sum_press d = d_totals (dd_kernel d)
  /\ s_cp s = dd_cp d
  /\ (wf_analysis a = true -> s_cp s = f_sum (shown_cp r))
  /\ s_lcd s = dd_lcd d
  /\ (a_lcd a = [] -> s_lcd s = 0%float)
  /\ (forall e, In e (a_lcd a) -> leQ (lcd_lat e) (s_lcd s))
  /\ (a_lcd a <> [] -> exists e, In e (a_lcd a) /\ lcd_lat e = s_lcd s).
Proof. exact summary_is_totals_proof. Qed.
Print Assumptions summary_is_totals.

(* every row belongs to the dict line of the same number; each pressure cell shows that line's dict value (blank only
   for a zero value); a shown CP / LCD cell is the dict's LatencyCP / LatencyLCD, a blank LCD cell means LatencyLCD 0 *)
Theorem cells_agree : forall q a r, report_model q a = Some r -> wf_analysis a = true ->
  Forall2 (fun w d =>
             r_num w = d_num d
             /\ Forall2 cell_shows (r_press w) (d_press d)
             /\ (forall v, r_cp w = Some v -> f_biteq v (d_lat_cp d) = true)
             /\ (forall v, r_lcd w = Some v -> v = d_lat_lcd d)
             /\ (r_lcd w = None -> d_lat_lcd d = 0%float))
          (rows r) (dd_kernel (dict_model q a)).
Proof. exact cells_agree_proof. Qed.
Print Assumptions cells_agree.

Theorem blank_cell_iff : forall plen used v,
  press_cell plen used v = Blank <-> (f_is_zero v = true /\ used = false).
Proof. exact blank_cell_iff_proof. Qed.
Print Assumptions blank_cell_iff.

(* the LCD column marks exactly the member lines of the dependency whose latency is the LCD figure *)
Theorem lcd_column_is_longest : forall q a r, report_model q a = Some r ->
  match longest_lcd (a_lcd a) with
  | None => forall w, In w (rows r) -> r_lcd w = None
  | Some m => In m (a_lcd a) /\ lcd_lat m = lcd_sum a /\
              forall w, In w (rows r) -> (r_lcd w <> None <-> In (r_num w) (map fst (lcd_deps m)))
  end.
Proof. exact lcd_column_proof. Qed.
Print Assumptions lcd_column_is_longest.

(* a row carries X exactly when the dict flags the line tp_unknown (non-instruction lines carry no flags: wf) *)
Theorem x_marks_iff_unknown : forall q a r, report_model q a = Some r ->
  Forall2 (fun w d => r_num w = d_num d /\
             (has_X (r_flags w) = true -> fl_tp_unkwn (d_flags d) = true) /\
             (wf_analysis a = true -> has_X (r_flags w) = fl_tp_unkwn (d_flags d)))
          (rows r) (dd_kernel (dict_model q a)).
Proof. exact x_marks_proof. Qed.
Print Assumptions x_marks_iff_unknown.

Theorem totals_iff : forall q a r, report_model q a = Some r ->
  (summary r <> None <-> (q_ignore_unknown q = true \/ forall l, In l (a_kernel a) -> fl_tp_unkwn (l_flags l) = false)).
Proof. exact totals_iff_proof. Qed.
Print Assumptions totals_iff.

(* the missing-data warning appears exactly when the totals do not, and states the number of unknown lines,
   which is the number of rows marked X *)
Theorem warning_count : forall q a r, report_model q a = Some r ->
  (forall n, w_missing (warns r) = Some n ->
     q_ignore_unknown q = false /\ n = List.length (unknown_lines (a_kernel a)) /\ (0 < n)%nat /\ summary r = None
     /\ (wf_analysis a = true -> n = List.length (x_rows r)))
  /\ (w_missing (warns r) = None <-> summary r <> None).
Proof. exact warning_count_proof. Qed.
Print Assumptions warning_count.

Theorem arch_warning_iff : forall q a r, report_model q a = Some r ->
  (w_arch (warns r) = true <-> q_arch q = None)
  /\ (In "ArchWarning"%string (dd_warnings (dict_model q a)) <-> q_arch q = None).
Proof. exact arch_warning_iff_proof. Qed.
Print Assumptions arch_warning_iff.

(* selection_consistent: markers found => the kernel is a proper part of the parsed file; none => the whole file
   (C11's theorems marked_exact / unmarked_whole) *)
Theorem length_warning_iff : forall q a r, report_model q a = Some r -> selection_consistent q a ->
  (w_length (warns r) = true <-> (q_lines_given q = false /\ q_marker_found q = false /\ (100 < q_parsed q)%nat)).
Proof. exact length_warning_iff_proof. Qed.
Print Assumptions length_warning_iff.

Theorem lcd_list_complete : forall q a r, report_model q a = Some r ->
  (forall e, In e (a_lcd a) ->
     exists w, In w (lcd_list r) /\ lr_lat w = lcd_lat e /\ lr_members w = map fst (lcd_deps e)
               /\ (forall n v t, lcd_deps e = (n, v) :: t -> lr_first w = n))
  /\ (forall w, In w (lcd_list r) -> exists e, In e (a_lcd a) /\ w = lcd_row_of e)
  /\ List.length (lcd_list r) = List.length (a_lcd a).
Proof. exact lcd_list_complete_proof. Qed.
Print Assumptions lcd_list_complete.

(* for EVERY finite double and every number of decimals: the printed characters read back as the exact binary value
   rounded half-even at that many decimals, with the sign bit *)
Theorem fmt_fixed_reads_back : forall n x, f_is_finite x = true ->
  exists d, read_decimal (fmt_fixed n x) = Some d /\ d_scale d = n /\ d_neg d = f_signbit x
            /\ dec_to_Q d == Qround_he n (f_to_Q x).
Proof. exact fmt_fixed_reads_back_Q. Qed.
Print Assumptions fmt_fixed_reads_back.

(* ... and is within half a unit of the last shown decimal of the exact value *)
Theorem fmt_fixed_half_unit : forall n x s num den, f_decode x = FD_fin s num den ->
  exists d, read_decimal (fmt_fixed n x) = Some d /\
            (2 * Z.abs (num * pow10 n - Z.pos den * d_units d) <= Z.pos den)%Z.
Proof. exact fmt_fixed_nearest. Qed.
Print Assumptions fmt_fixed_half_unit.

(* hence a cell of the report, read as a decimal, is the dict value at the shown precision *)
Theorem shown_cell_reads_back : forall c v, cell_shows c v -> f_is_finite v = true ->
  (c = Blank /\ f_to_Q v == 0)
  \/ (exists dg d, c = Shown dg v /\ read_decimal (render_cell c) = Some d /\ d_scale d = dg
                   /\ dec_to_Q d == Qround_he dg (f_to_Q v)).
Proof. exact shown_cell_reads_back_proof. Qed.
Print Assumptions shown_cell_reads_back.

(* DEFAULT_ARCHS o detect_ISA: decision table on the two register-spelling counts *)
Theorem default_arch_by_isa : forall q,
  (forall a, q_arch q = Some a -> arch_used q = a)
  /\ (q_arch q = None ->
      arch_used q = if q_first_parse_ok q
                    then (if (q_cnt_x86 q <? q_cnt_a64 q)%nat then "V2" else "SPR")%string
                    else (if (q_cnt_x86 q <? q_cnt_a64 q)%nat then "SPR" else "V2")%string).
Proof. exact default_arch_by_isa_proof. Qed.
Print Assumptions default_arch_by_isa.
