(* C20 -- property theorems about the two benchmark file formats and the insertion into the
   machine model.  They hold for ANY number type, snapping function, operand decoder and float
   parser (Section variables of Model/Import.v), hence in particular for the functions translated
   from the current source (PropsGen/C20.v instantiates them). *)
From Coq Require Import String Ascii List Bool Arith ZArith.
From OV Require Import Model.PyString Model.ImportPre Model.Import Proofs.Import.
Import ListNotations.
Open Scope string_scope.

(* A malformed asmbench block (fourth line not blank; with the bounds-check repair also: file ends
   inside the block) stops the import there: the result is exactly the result of importing the
   blocks before it -- earlier entries are unaffected. *)
Theorem asmbench_prefix :
  forall T validate decode parse_float V (good bad : list string),
    good_blocks good -> malformed_head V bad ->
    get_asmbench_output (T:=T) validate decode parse_float V (good ++ bad)
    = get_asmbench_output validate decode parse_float V good.
Proof. intros. unfold get_asmbench_output. apply asm_prefix; assumption. Qed.
Print Assumptions asmbench_prefix.

(* non-vacuity: a good block followed by a malformed one *)
Example asmbench_prefix_nonvacuous :
  good_blocks ["a-r"; "Latency: 1 cy"; "Throughput: 1 cy"; nl] /\
  malformed_head repaired ["b-r"; "Latency: 1 cy"] /\
  malformed_head as_found ["b-r"; "Latency: 1 cy"; "Throughput: 1 cy"; "c-r"].
Proof.
  split; [constructor; [reflexivity | constructor]|]. split.
  - right. simpl. split; auto.
  - left. repeat eexists.
Qed.

(* The code as found (no bounds check): a file that ends inside a block NEVER imports anything,
   whatever the earlier blocks contain. *)
Theorem asmbench_truncated_always_fails :
  forall T validate decode parse_float (good bad : list string),
    good_blocks good -> 1 <= length bad <= 3 ->
    exists e, get_asmbench_output (T:=T) validate decode parse_float as_found (good ++ bad) = Err e.
Proof. intros. unfold get_asmbench_output. apply asm_truncated_fails; auto. Qed.
Print Assumptions asmbench_truncated_always_fails.

(* ibench: one entry per key; the entry's throughput / latency is the snapped measurement of the
   LAST TP / LT line of that key, for any order and interleaving of the lines (later lines
   overwrite); a form for which no such line exists keeps "missing". *)
Theorem ibench_merge :
  forall T validate decode parse_float V (lines : list string) d,
    get_ibench_output (T:=T) validate decode parse_float V lines = Ok d ->
    let toks := ibench_tokens decode parse_float V lines in
    NoDup (map fst d) /\
    (forall k, In k (map fst d) <-> exists t, In t toks /\ t_key t = k) /\
    (forall k e, assoc k d = Some e ->
       f_tp e = final_val T validate KTP "tp" k toks None /\
       f_lt e = final_val T validate KLT "lt" k toks None).
Proof.
  intros. unfold get_ibench_output in H. apply ibench_merge_gen; auto.
  intros t I. eapply tokens_blank; eauto.
Qed.
Print Assumptions ibench_merge.

(* the two lines of one form in either order give ONE entry carrying both values *)
Theorem ibench_merge_two_lines :
  forall T validate key (e0 : iform T) mt ml k1 k2,
    f_tp e0 = None -> f_lt e0 = None ->
    ((k1 = KTP /\ k2 = KLT) \/ (k1 = KLT /\ k2 = KTP)) ->
    let mk kd := mktoken key (Ok e0) kd (Ok (match kd with KTP => mt | _ => ml end)) in
    ibench_fold validate [mk k1; mk k2] [] =
      Ok [(key, mkform (f_mnemonic e0) (f_operands e0) (validate mt "tp") (validate ml "lt"))].
Proof. intros. apply ibench_two_lines; auto. Qed.
Print Assumptions ibench_merge_two_lines.

(* Insertion: on AArch64, or on x86 with the exact-match repair, every imported form appears in
   the dumped model (under its own values or those of a later line for the same form), and
   nothing is invented. *)
Theorem import_all_forms_appear :
  forall T V x86 existing (entries : list (iform T)),
    sound_matching V x86 ->
    (forall e, In e entries -> f_operands e <> []) ->
    (forall e, In e entries -> exists f, In f (insert_all V x86 existing entries) /\ same_form T f e) /\
    (forall f, In f (insert_all V x86 existing entries) -> In f entries).
Proof. intros. apply insert_all_appear; auto. Qed.
Print Assumptions import_all_forms_appear.

Example sound_matching_nonvacuous : sound_matching repaired true /\ sound_matching as_found false.
Proof. split; [right | left]; reflexivity. Qed.
