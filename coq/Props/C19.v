(* Property C19 -- LCD timeout yields sound partial results and leaves no workers behind.
   Models: Model/Parallel.v (post), Model/Timeout.v (poll loop).  Proofs: Proofs/Parallel.v,
   Proofs/Timeout.v. *)
From Coq Require Import ZArith List Bool Lia.
From OV Require Import Model.Parallel Model.Timeout Proofs.Parallel Proofs.Timeout.
Import ListNotations.
Open Scope Z_scope.

(* ---------------------------------------------------------------- (a) partial results *)

(* Whatever subset of the complete path list was delivered before the kill (ps), every entry of
   the reported dictionary -- key, root, member lines with latencies, latency sum -- is an entry
   of the untimed dictionary.  Hypothesis key_inj: two different latency paths of the complete
   list never have the same line list (checked by the harness on every real path list; it is what
   makes the dictionary's overwrite-by-key harmless). *)
Theorem partial_sound :
  forall off (ps all : list path) D,
    incl ps all -> key_inj off all -> post off all = Some D ->
    exists d, post off ps = Some d /\ forall e, In e d -> In e D.
Proof. exact partial_sound_lemma. Qed.
Print Assumptions partial_sound.

(* the statement without key_inj is false of the faithful model: with two cycles over the same
   lines the smaller one overwrites the larger in the full result, but not in the partial one *)
Theorem partial_sound_refuted :
  exists off (ps all : list path) D d e,
    incl ps all /\ post off all = Some D /\ post off ps = Some d /\ In e d /\ ~ In e D.
Proof.
  exists 1000, [[(1, 5); (2, 1)]], [[(1, 5); (2, 1)]; [(1, 3); (2, 1)]].
  eexists. eexists. exists ([1; 2], (1, [(1, 5); (2, 1)], 6)).
  split; [intros x [<-|[]]; left; reflexivity|].
  split; [vm_compute; reflexivity|]. split; [vm_compute; reflexivity|].
  split; [left; reflexivity|]. intros [H|[]]. inversion H.
Qed.
Print Assumptions partial_sound_refuted.

(* unconditionally: every reported entry is computed from one path that was really delivered *)
Theorem partial_genuine_partial :
  forall off (ps : list path) d e,
    post off ps = Some d -> In e d ->
    exists p, In p ps /\ p <> [] /\ e = entry_of (lat_sum p, lat_path off p).
Proof. exact partial_genuine_lemma. Qed.
Print Assumptions partial_genuine_partial.

(* link with the state machine: on every exit of the poll loop the copied list is a subset of the
   complete search's blocks, hence the reported dictionary is sound *)
Theorem timeout_result_sound :
  forall rule off clk step T ws D,
    let all := concat (flat_map all_blocks ws) in
    key_inj off all -> post off all = Some D ->
    exists d, post off (concat (shared (run_parallel rule clk step T ws))) = Some d /\ forall e, In e d -> In e D.
Proof.
  intros rule off clk step T ws D all KI HD. apply partial_sound_lemma with (all := all); auto.
  apply concat_incl, shared_incl.
Qed.
Print Assumptions timeout_result_sound.

(* ---------------------------------------------------------------- (b) the poll loop *)

Theorem loop_terminates :
  forall rule clk step T ws, ClockOK clk step -> how (poll rule (fuel_for T step) clk T ws 1) <> OutOfFuel.
Proof. exact poll_terminates. Qed.
Print Assumptions loop_terminates.

(* timeout -1 (workers that terminate), or some poll within the deadline finds every worker
   dead: complete list, nobody killed, no flag *)
Theorem complete_when_untimed :
  forall rule clk step T ws,
    let o := run_parallel rule clk step T ws in
    (T = -1 -> forallb terminates ws = true ->
       how o = ExitUntimed /\ timed_out o = false /\ shared o = flat_map all_blocks ws /\ killed o = all_false ws) /\
    (T <> -1 -> ClockOK clk step -> (exists i, AllDoneAt clk T ws i) ->
       how o = ExitAllDone /\ timed_out o = false /\ shared o = flat_map all_blocks ws /\ killed o = all_false ws).
Proof. exact complete_lemma. Qed.
Print Assumptions complete_when_untimed.

(* "the search finishes in time" with a margin of one poll interval (dmax = longest distance of
   two clock readings) and a first test inside the deadline *)
Theorem complete_when_in_time_partial :
  forall rule clk step dmax T ws,
    ClockOK clk step -> T <> -1 ->
    (forall i, clk (S i) <= clk i + dmax) ->
    clk 1%nat - clk 0%nat <= T ->
    (forall w, In w ws -> exists f, w_fin w = Some f /\ f + dmax <= clk 0%nat + T) ->
    let o := run_parallel rule clk step T ws in
    timed_out o = false /\ shared o = flat_map all_blocks ws /\ killed o = all_false ws.
Proof. exact in_time_lemma. Qed.
Print Assumptions complete_when_in_time_partial.

(* the flag is set exactly when the loop ran into its `else:`; equivalently when the timeout is
   not -1 and every poll inside the deadline saw a live worker *)
Theorem flag_iff_loop_exhausted :
  forall clk step T ws, ClockOK clk step ->
    let o := run_parallel FlagOnExhaustion clk step T ws in
    (timed_out o = true <-> how o = ExitDeadline) /\
    (timed_out o = true <->
       T <> -1 /\ forall i, (1 <= i)%nat -> (forall j, (1 <= j <= i)%nat -> clk j - clk 0%nat <= T) ->
                            any_alive ws (clk i) = true).
Proof. exact flag_iff_lemma. Qed.
Print Assumptions flag_iff_loop_exhausted.

(* every worker is joined on every path; it was killed or it has terminated by itself *)
Theorem killed_or_joined :
  forall rule clk step T ws,
    let o := run_parallel rule clk step T ws in
    how o <> Hangs -> how o <> OutOfFuel ->
    joined o = all_true ws /\
    forall n w, nth_error ws n = Some w ->
      nth_error (killed o) n = Some true \/ (nth_error (killed o) n = Some false /\ terminates w = true).
Proof. exact killed_or_joined_lemma. Qed.
Print Assumptions killed_or_joined.

(* the parallel branch returns within timeout + one poll interval *)
Theorem parallel_time_bounded :
  forall rule clk step dmax T ws,
    ClockOK clk step -> 0 <= T -> (forall i, clk (S i) <= clk i + dmax) ->
    clk (exit_poll (run_parallel rule clk step T ws)) - clk 0%nat <= T + dmax.
Proof. exact time_bounded_lemma. Qed.
Print Assumptions parallel_time_bounded.

(* ---------------------------------------------------------------- refuted at the edges *)

(* "warning iff the search was cut short" fails for timeout 0: the loop body never runs, the flag
   is set although every worker had finished before start_time was even read; nothing is killed
   and the list is complete *)
Definition clk_us (i : nat) : Z := match i with O => 0 | S j => 3 + 200000 * Z.of_nat j end.
Definition done_worker : worker := mkworker [(-500, [[(1, 2); (1001, 3)]])] (Some (-100)).

Theorem flag_without_cut_refuted :
  exists clk step T ws,
    ClockOK clk step /\ T = 0 /\ (forall w, In w ws -> alive w (clk 0%nat) = false) /\
    let o := run_parallel FlagOnExhaustion clk step T ws in
    timed_out o = true /\ killed o = all_false ws /\ shared o = flat_map all_blocks ws.
Proof.
  exists clk_us, 200000, 0, [done_worker]. split.
  - unfold ClockOK. split; [lia|]. split; [simpl; lia|].
    intros i Hi. destruct i as [|i]; [lia|]. unfold clk_us. lia.
  - split; [reflexivity|]. split.
    + intros w [<-|[]]. reflexivity.
    + vm_compute. auto.
Qed.
Print Assumptions flag_without_cut_refuted.

(* in fact timeout 0 sets the flag on every run whose clock advances between two readings *)
Theorem timeout_zero_always_flags :
  forall clk step ws, clk 0%nat < clk 1%nat ->
    timed_out (run_parallel FlagOnExhaustion clk step 0 ws) = true /\ how (run_parallel FlagOnExhaustion clk step 0 ws) = ExitDeadline.
Proof. exact timeout_zero_lemma. Qed.
Print Assumptions timeout_zero_always_flags.

(* the same edge for any timeout: all workers finish between the last poll inside the deadline
   and the first one beyond it (here: timeout 1 s, polls every 200.01 ms, worker done at 0.9 s) *)
Theorem flag_without_cut_window_refuted :
  exists clk step T ws,
    ClockOK clk step /\ 0 < T /\
    let o := run_parallel FlagOnExhaustion clk step T ws in
    timed_out o = true /\ killed o = all_false ws /\ shared o = flat_map all_blocks ws.
Proof.
  exists (fun i => 200010 * Z.of_nat i), 200000, 1000000,
         [mkworker [(100000, [[(1, 2); (1001, 3)]])] (Some 900000)].
  split.
  - unfold ClockOK. split; [lia|]. split; [lia|]. intros; lia.
  - split; [lia|]. vm_compute. auto.
Qed.
Print Assumptions flag_without_cut_window_refuted.

(* below the threshold the timeout is ignored: for every bound there is a kernel shorter than the
   threshold whose search takes longer than timeout + bound, and no flag is raised *)
Theorem sequential_untimed_refuted :
  forall rule bound, 0 <= bound ->
    exists klen clk step T ws seq_work,
      klen < 50 /\ 0 <= T /\
      let '(flag, wall, res) := analyse rule 50 klen clk step T ws seq_work in
      flag = false /\ T + bound < wall.
Proof.
  intros rule bound Hb. exists 49, clk_us, 200000, 1, [done_worker], (bound + 2).
  split; [lia|]. split; [lia|]. unfold analyse. change (50 <=? 49) with false. cbv iota. split; [reflexivity|lia].
Qed.
Print Assumptions sequential_untimed_refuted.

(* ---------------------------------------------------------------- the repaired rule (FlagOnKill) *)
(* patches/C19-fix-flag-only-when-a-worker-is-killed.diff: self.timed_out = True moves inside
   `if p.is_alive():`.  For this rule the property's "warning iff the search was cut short" holds
   without edge cases. *)

(* on every exit of the state machine the flag says exactly whether some worker was killed *)
Theorem flag_iff_some_worker_killed :
  forall clk step T ws,
    let o := run_parallel FlagOnKill clk step T ws in
    timed_out o = existsb (fun b : bool => b) (killed o).
Proof. exact flag_is_kill_lemma. Qed.
Print Assumptions flag_iff_some_worker_killed.

(* no flag => nobody was killed and the shared list is complete *)
Theorem no_flag_means_complete :
  forall clk step T ws,
    let o := run_parallel FlagOnKill clk step T ws in
    how o <> Hangs -> how o <> OutOfFuel -> timed_out o = false ->
    killed o = all_false ws /\ shared o = flat_map all_blocks ws.
Proof. exact no_flag_complete_lemma. Qed.
Print Assumptions no_flag_means_complete.

(* under either rule: if nobody had to be killed the list is complete *)
Theorem nobody_killed_means_complete :
  forall rule clk step T ws,
    let o := run_parallel rule clk step T ws in
    how o <> Hangs -> how o <> OutOfFuel -> killed o = all_false ws ->
    shared o = flat_map all_blocks ws.
Proof. exact nobody_killed_complete_lemma. Qed.
Print Assumptions nobody_killed_means_complete.

(* the flag is set exactly when the loop ran into its else: branch and found a live worker there *)
Theorem flag_on_kill_iff_deadline_with_live_worker :
  forall clk step T ws, ClockOK clk step ->
    let o := run_parallel FlagOnKill clk step T ws in
    timed_out o = true <-> how o = ExitDeadline /\ any_alive ws (clk (exit_poll o)) = true.
Proof. exact flag_on_kill_iff_lemma. Qed.
Print Assumptions flag_on_kill_iff_deadline_with_live_worker.

(* every worker finished (no live worker at the exit poll) => no flag, complete result: the
   statements refuted for the shipped rule hold for the repaired one, for every clock *)
Theorem every_worker_finished_no_flag :
  forall clk step T ws,
    let o := run_parallel FlagOnKill clk step T ws in
    how o <> Hangs -> how o <> OutOfFuel ->
    any_alive ws (clk (exit_poll o)) = false ->
    timed_out o = false /\ killed o = all_false ws /\ shared o = flat_map all_blocks ws.
Proof.
  intros clk step T ws o H1 H2 A.
  assert (F : timed_out o = false).
  { subst o. revert H1 H2 A. unfold run_parallel. destruct (T =? -1).
    - destruct (forallb terminates ws); simpl; auto.
    - pose proof (poll_spec FlagOnKill clk T ws (fuel_for T step) 1%nat) as P. unfold poll_post in P.
      destruct P as (_ & _ & P).
      destruct (how (poll FlagOnKill (fuel_for T step) clk T ws 1)) eqn:E; try contradiction; try congruence; intros _ _ A.
      + destruct P as (_ & _ & F & _). exact F.
      + destruct P as (_ & F & _). rewrite F. simpl. exact A. }
  split; [exact F|]. apply no_flag_complete_lemma; assumption.
Qed.
Print Assumptions every_worker_finished_no_flag.

(* timeout 0 no longer flags a finished search *)
Theorem timeout_zero_flags_only_live_workers :
  forall clk step ws, clk 0%nat < clk 1%nat ->
    timed_out (run_parallel FlagOnKill clk step 0 ws) = any_alive ws (clk 1%nat).
Proof. exact timeout_zero_kill_lemma. Qed.
Print Assumptions timeout_zero_flags_only_live_workers.

(* the two witnesses that refute the shipped rule, re-run under the repaired rule: no flag *)
Example flag_without_cut_repaired :
  timed_out (run_parallel FlagOnKill clk_us 200000 0 [done_worker]) = false /\
  timed_out (run_parallel FlagOnKill (fun i => 200010 * Z.of_nat i) 200000 1000000
               [mkworker [(100000, [[(1, 2); (1001, 3)]])] (Some 900000)]) = false.
Proof. vm_compute. split; reflexivity. Qed.

(* ---------------------------------------------------------------- non-vacuity *)
Definition slow_worker : worker :=
  mkworker [(100000, [[(1, 2); (1001, 3)]]); (5000000, [[(2, 1); (1002, 1)]])] None.

(* a run that is cut: timeout 1 s, the slow worker is killed after its first block *)
Example cut_run :
  let o := run_parallel FlagOnExhaustion (fun i => 200010 * Z.of_nat i) 200000 1000000 [done_worker; slow_worker] in
  how o = ExitDeadline /\ exit_poll o = 5%nat /\ timed_out o = true /\ killed o = [false; true] /\
  joined o = [true; true] /\
  shared o = [[[(1, 2); (1001, 3)]]; [[(1, 2); (1001, 3)]]].
Proof. vm_compute. repeat split; reflexivity. Qed.

(* the same cut run under the repaired rule: same kills, same list, flag set because of the kill *)
Example cut_run_repaired :
  let o := run_parallel FlagOnKill (fun i => 200010 * Z.of_nat i) 200000 1000000 [done_worker; slow_worker] in
  how o = ExitDeadline /\ timed_out o = true /\ killed o = [false; true].
Proof. vm_compute. repeat split; reflexivity. Qed.

Example clock_ok_example : ClockOK (fun i => 200010 * Z.of_nat i) 200000.
Proof. unfold ClockOK. split; [lia|]. split; [lia|]. intros; lia. Qed.

Example all_done_example :
  AllDoneAt (fun i => 200010 * Z.of_nat i) 1000000 [done_worker] 1.
Proof.
  unfold AllDoneAt. split; [lia|]. split.
  - intros j Hj. assert (j = 1%nat) by lia. subst. simpl. lia.
  - reflexivity.
Qed.

Example key_inj_example : key_inj 1000 [[(1, 2); (1001, 3)]; [(2, 1); (1002, 1)]].
Proof.
  intros p q [<-|[<-|[]]] [<-|[<-|[]]]; vm_compute; intros H; try reflexivity; discriminate.
Qed.
