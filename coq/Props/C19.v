(* Property C19 -- LCD timeout yields sound partial results and leaves no workers behind.
   Models: Model/Parallel.v (post), Model/Timeout.v (poll loop).  Proofs: Proofs/Parallel.v,
   Proofs/Timeout.v. *)
From Coq Require Import ZArith List Bool Lia.
From OV Require Import Model.Parallel Model.Timeout Proofs.Parallel Proofs.Timeout.
Import ListNotations.
Open Scope Z_scope.

(* ---------------------------------------------------------------- (a) partial results *)

(* Whatever subset of the complete path list was delivered before the kill (ps), every entry of
   the reported dictionary -- key, root, member lines with latencies, latency sum -- is an entry
   of the untimed dictionary.  Hypothesis key_inj: two different latency paths of the complete
   list never have the same line list (checked by the harness on every real path list; it is what
   makes the dictionary's overwrite-by-key harmless). *)
Theorem partial_sound :
  forall off (ps all : list path) D,
    incl ps all -> key_inj off all -> post off all = Some D ->
    exists d, post off ps = Some d /\ forall e, In e d -> In e D.
Proof. exact partial_sound_lemma. Qed.
Print Assumptions partial_sound.

(* the statement without key_inj is false of the faithful model: with two cycles over the same
   lines the smaller one overwrites the larger in the full result, but not in the partial one *)
Theorem partial_sound_refuted :
  exists off (ps all : list path) D d e,
    incl ps all /\ post off all = Some D /\ post off ps = Some d /\ In e d /\ ~ In e D.
Proof.
  exists 1000, [[(1, 5); (2, 1)]], [[(1, 5); (2, 1)]; [(1, 3); (2, 1)]].
  eexists. eexists. exists ([1; 2], (1, [(1, 5); (2, 1)], 6)).
  split; [intros x [<-|[]]; left; reflexivity|].
  split; [vm_compute; reflexivity|]. split; [vm_compute; reflexivity|].
  split; [left; reflexivity|]. intros [H|[]]. inversion H.
Qed.
Print Assumptions partial_sound_refuted.

(* unconditionally: every reported entry is computed from one path that was really delivered *)
Theorem partial_genuine_partial :
  forall off (ps : list path) d e,
    post off ps = Some d -> In e d ->
    exists p, In p ps /\ p <> [] /\ e = entry_of (lat_sum (lat_path off p), lat_path off p).
Proof. exact partial_genuine_lemma. Qed.
Print Assumptions partial_genuine_partial.

(* link with the state machine: on every exit of the poll loop the copied list is a subset of the
   complete search's blocks, hence the reported dictionary is sound *)
Theorem timeout_result_sound :
  forall rule off clk step T ws D,
    let all := concat (flat_map all_blocks ws) in
    key_inj off all -> post off all = Some D ->
    exists d, post off (concat (shared (run_parallel rule clk step T ws))) = Some d /\ forall e, In e d -> In e D.
Proof.
  intros rule off clk step T ws D all KI HD. apply partial_sound_lemma with (all := all); auto.
  apply concat_incl, shared_incl.
Qed.
Print Assumptions timeout_result_sound.

(* ---------------------------------------------------------------- (b) the poll loop *)

Theorem loop_terminates :
  forall rule clk step T ws, ClockOK clk step -> how (poll rule (fuel_for T step) clk T ws 1) <> OutOfFuel.
Proof. exact poll_terminates. Qed.
Print Assumptions loop_terminates.

(* timeout -1 (workers that terminate), or some poll within the deadline finds every worker
   dead: complete list, nobody killed, no flag *)
Theorem complete_when_untimed :
  forall rule clk step T ws,
    let o := run_parallel rule clk step T ws in
    (T = -1 -> forallb terminates ws = true ->
       how o = ExitUntimed /\ timed_out o = false /\ shared o = flat_map all_blocks ws /\ killed o = all_false ws) /\
    (T <> -1 -> ClockOK clk step -> (exists i, AllDoneAt clk T ws i) ->
       how o = ExitAllDone /\ timed_out o = false /\ shared o = flat_map all_blocks ws /\ killed o = all_false ws).
Proof. exact complete_lemma. Qed.
Print Assumptions complete_when_untimed.

(* "the search finishes in time" with a margin of one poll interval (dmax = longest distance of
   two clock readings) and a first test inside the deadline *)
Theorem complete_when_in_time_partial :
  forall rule clk step dmax T ws,
    ClockOK clk step -> T <> -1 ->
    (forall i, clk (S i) <= clk i + dmax) ->
    clk 1%nat - clk 0%nat <= T ->
    (forall w, In w ws -> exists f, w_fin w = Some f /\ f + dmax <= clk 0%nat + T) ->
    let o := run_parallel rule clk step T ws in
    timed_out o = false /\ shared o = flat_map all_blocks ws /\ killed o = all_false ws.
Proof. exact in_time_lemma. Qed.
Print Assumptions complete_when_in_time_partial.

(* the flag is set exactly when the loop ran into its `else:`; equivalently when the timeout is
   not -1 and every poll inside the deadline saw a live worker *)
Theorem flag_iff_loop_exhausted :
  forall clk step T ws, ClockOK clk step ->
    let o := run_parallel FlagOnExhaustion clk step T ws in
    (timed_out o = true <-> how o = ExitDeadline) /\
    (timed_out o = true <->
       T <> -1 /\ forall i, (1 <= i)%nat -> (forall j, (1 <= j <= i)%nat -> clk j - clk 0%nat <= T) ->
                            any_alive ws (clk i) = true).
Proof. exact flag_iff_lemma. Qed.
Print Assumptions flag_iff_loop_exhausted.

(* every worker is joined on every path; it was killed or it has terminated by itself *)
Theorem killed_or_joined :
  forall rule clk step T ws,
    let o := run_parallel rule clk step T ws in
    how o <> Hangs -> how o <> OutOfFuel ->
    joined o = all_true ws /\
    forall n w, nth_error ws n = Some w ->
      nth_error (killed o) n = Some true \/ (nth_error (killed o) n = Some false /\ terminates w = true).
Proof. exact killed_or_joined_lemma. Qed.
Print Assumptions killed_or_joined.

(* the parallel branch returns within timeout + one poll interval *)
Theorem parallel_time_bounded :
  forall rule clk step dmax T ws,
    ClockOK clk step -> 0 <= T -> (forall i, clk (S i) <= clk i + dmax) ->
    clk (exit_poll (run_parallel rule clk step T ws)) - clk 0%nat <= T + dmax.
Proof. exact time_bounded_lemma. Qed.
Print Assumptions parallel_time_bounded.

(* ---------------------------------------------------------------- refuted at the edges *)

(* "warning iff the search was cut short" fails for timeout 0: the loop body never runs, the flag
   is set although every worker had finished before start_time was even read; nothing is killed
   and the list is complete *)
Definition clk_us (i : nat) : Z := match i with O => 0 | S j => 3 + 200000 * Z.of_nat j end.
Definition done_worker : worker := mkworker [(-500, [[(1, 2); (1001, 3)]])] (Some (-100)).

Theorem flag_without_cut_refuted :
  exists clk step T ws,
    ClockOK clk step /\ T = 0 /\ (forall w, In w ws -> alive w (clk 0%nat) = false) /\
    let o := run_parallel FlagOnExhaustion clk step T ws in
    timed_out o = true /\ killed o = all_false ws /\ shared o = flat_map all_blocks ws.
Proof.
  exists clk_us, 200000, 0, [done_worker]. split.
  - unfold ClockOK. split; [lia|]. split; [simpl; lia|].
    intros i Hi. destruct i as [|i]; [lia|]. unfold clk_us. lia.
  - split; [reflexivity|]. split.
    + intros w [<-|[]]. reflexivity.
    + vm_compute. auto.
Qed.
Print Assumptions flag_without_cut_refuted.

(* in fact timeout 0 sets the flag on every run whose clock advances between two readings *)
Theorem timeout_zero_always_flags :
  forall clk step ws, clk 0%nat < clk 1%nat ->
    timed_out (run_parallel FlagOnExhaustion clk step 0 ws) = true /\ how (run_parallel FlagOnExhaustion clk step 0 ws) = ExitDeadline.
Proof. exact timeout_zero_lemma. Qed.
Print Assumptions timeout_zero_always_flags.

(* the same edge for any timeout: all workers finish between the last poll inside the deadline
   and the first one beyond it (here: timeout 1 s, polls every 200.01 ms, worker done at 0.9 s) *)
Theorem flag_without_cut_window_refuted :
  exists clk step T ws,
    ClockOK clk step /\ 0 < T /\
    let o := run_parallel FlagOnExhaustion clk step T ws in
    timed_out o = true /\ killed o = all_false ws /\ shared o = flat_map all_blocks ws.
Proof.
  exists (fun i => 200010 * Z.of_nat i), 200000, 1000000,
         [mkworker [(100000, [[(1, 2); (1001, 3)]])] (Some 900000)].
  split.
  - unfold ClockOK. split; [lia|]. split; [lia|]. intros; lia.
  - split; [lia|]. vm_compute. auto.
Qed.
Print Assumptions flag_without_cut_window_refuted.

(* below the threshold the timeout is ignored: for every bound there is a kernel shorter than the
   threshold whose search takes longer than timeout + bound, and no flag is raised *)
Theorem sequential_untimed_refuted :
  forall rule bound, 0 <= bound ->
    exists klen clk step T ws seq_work,
      klen < 50 /\ 0 <= T /\
      let '(flag, wall, res) := analyse rule 50 klen clk step T ws seq_work in
      flag = false /\ T + bound < wall.
Proof.
  intros rule bound Hb. exists 49, clk_us, 200000, 1, [done_worker], (bound + 2).
  split; [lia|]. split; [lia|]. unfold analyse. change (50 <=? 49) with false. cbv iota. split; [reflexivity|lia].
Qed.
Print Assumptions sequential_untimed_refuted.

(* ---------------------------------------------------------------- the repaired rule (FlagOnKill) *)
(* patches/C19-fix-flag-only-when-a-worker-is-killed.diff: self.timed_out = True moves inside
   `if p.is_alive():`.  For this rule the property's "warning iff the search was cut short" holds
   without edge cases. *)

(* on every exit of the state machine the flag says exactly whether some worker was killed *)
Theorem flag_iff_some_worker_killed :
  forall clk step T ws,
    let o := run_parallel FlagOnKill clk step T ws in
    timed_out o = existsb (fun b : bool => b) (killed o).
Proof. exact flag_is_kill_lemma. Qed.
Print Assumptions flag_iff_some_worker_killed.

(* no flag => nobody was killed and the shared list is complete *)
Theorem no_flag_means_complete :
  forall clk step T ws,
    let o := run_parallel FlagOnKill clk step T ws in
    how o <> Hangs -> how o <> OutOfFuel -> timed_out o = false ->
    killed o = all_false ws /\ shared o = flat_map all_blocks ws.
Proof. exact no_flag_complete_lemma. Qed.
Print Assumptions no_flag_means_complete.

(* under either rule: if nobody had to be killed the list is complete *)
Theorem nobody_killed_means_complete :
  forall rule clk step T ws,
    let o := run_parallel rule clk step T ws in
    how o <> Hangs -> how o <> OutOfFuel -> killed o = all_false ws ->
    shared o = flat_map all_blocks ws.
Proof. exact nobody_killed_complete_lemma. Qed.
Print Assumptions nobody_killed_means_complete.

(* the flag is set exactly when the loop ran into its else: branch and found a live worker there *)
Theorem flag_on_kill_iff_deadline_with_live_worker :
  forall clk step T ws, ClockOK clk step ->
    let o := run_parallel FlagOnKill clk step T ws in
    timed_out o = true <-> how o = ExitDeadline /\ any_alive ws (clk (exit_poll o)) = true.
Proof. exact flag_on_kill_iff_lemma. Qed.
Print Assumptions flag_on_kill_iff_deadline_with_live_worker.

(* every worker finished (no live worker at the exit poll) => no flag, complete result: the
   statements refuted for the shipped rule hold for the repaired one, for every clock *)
Theorem every_worker_finished_no_flag :
  forall clk step T ws,
    let o := run_parallel FlagOnKill clk step T ws in
    how o <> Hangs -> how o <> OutOfFuel ->
    any_alive ws (clk (exit_poll o)) = false ->
    timed_out o = false /\ killed o = all_false ws /\ shared o = flat_map all_blocks ws.
Proof.
  intros clk step T ws o H1 H2 A.
  assert (F : timed_out o = false).
  { subst o. revert H1 H2 A. unfold run_parallel. destruct (T =? -1).
    - destruct (forallb terminates ws); simpl; auto.
    - pose proof (poll_spec FlagOnKill clk T ws (fuel_for T step) 1%nat) as P. unfold poll_post in P.
      destruct P as (_ & _ & P).
      destruct (how (poll FlagOnKill (fuel_for T step) clk T ws 1)) eqn:E; try contradiction; try congruence; intros _ _ A.
      + destruct P as (_ & _ & F & _). exact F.
      + destruct P as (_ & F & _). rewrite F. simpl. exact A. }
  split; [exact F|]. apply no_flag_complete_lemma; assumption.
Qed.
Print Assumptions every_worker_finished_no_flag.

(* timeout 0 no longer flags a finished search *)
Theorem timeout_zero_flags_only_live_workers :
  forall clk step ws, clk 0%nat < clk 1%nat ->
    timed_out (run_parallel FlagOnKill clk step 0 ws) = any_alive ws (clk 1%nat).
Proof. exact timeout_zero_kill_lemma. Qed.
Print Assumptions timeout_zero_flags_only_live_workers.

(* the two witnesses that refute the shipped rule, re-run under the repaired rule: no flag *)
Example flag_without_cut_repaired :
  timed_out (run_parallel FlagOnKill clk_us 200000 0 [done_worker]) = false /\
  timed_out (run_parallel FlagOnKill (fun i => 200010 * Z.of_nat i) 200000 1000000
               [mkworker [(100000, [[(1, 2); (1001, 3)]])] (Some 900000)]) = false.
Proof. vm_compute. split; reflexivity. Qed.

(* ---------------------------------------------------------------- non-vacuity *)
Definition slow_worker : worker :=
  mkworker [(100000, [[(1, 2); (1001, 3)]]); (5000000, [[(2, 1); (1002, 1)]])] None.

(* a run that is cut: timeout 1 s, the slow worker is killed after its first block *)
Example cut_run :
  let o := run_parallel FlagOnExhaustion (fun i => 200010 * Z.of_nat i) 200000 1000000 [done_worker; slow_worker] in
  how o = ExitDeadline /\ exit_poll o = 5%nat /\ timed_out o = true /\ killed o = [false; true] /\
  joined o = [true; true] /\
  shared o = [[[(1, 2); (1001, 3)]]; [[(1, 2); (1001, 3)]]].
Proof. vm_compute. repeat split; reflexivity. Qed.

(* the same cut run under the repaired rule: same kills, same list, flag set because of the kill *)
Example cut_run_repaired :
  let o := run_parallel FlagOnKill (fun i => 200010 * Z.of_nat i) 200000 1000000 [done_worker; slow_worker] in
  how o = ExitDeadline /\ timed_out o = true /\ killed o = [false; true].
Proof. vm_compute. repeat split; reflexivity. Qed.

Example clock_ok_example : ClockOK (fun i => 200010 * Z.of_nat i) 200000.
Proof. unfold ClockOK. split; [lia|]. split; [lia|]. intros; lia. Qed.

Example all_done_example :
  AllDoneAt (fun i => 200010 * Z.of_nat i) 1000000 [done_worker] 1.
Proof.
  unfold AllDoneAt. split; [lia|]. split.
  - intros j Hj. assert (j = 1%nat) by lia. subst. simpl. lia.
  - reflexivity.
Qed.

Example key_inj_example : key_inj 1000 [[(1, 2); (1001, 3)]; [(2, 1); (1002, 1)]].
Proof.
  intros p q [<-|[<-|[]]] [<-|[<-|[]]]; vm_compute; intros H; try reflexivity; discriminate.
Qed.

(* ---------------------------------------------------------------- (c) the sequential branch (kernels below the threshold) *)
(* Model/Timeout.v run_sequential: one step = one resumption of the chained all_simple_paths generators
   (a path or exhaustion); clk 0 = start_time, clk i = the reading made when the i-th path was yielded,
   clk (S (length all)) = the instant of exhaustion.  SeqIgnoresTimeout = the code as shipped,
   SeqDeadlinePerPath = patches/C19-fix-sequential-timeout.diff. *)

(* the shipped branch on this machine: complete, never flagged, whatever the clock says ... *)
Theorem sequential_shipped_ignores_clock :
  forall (clk : nat -> Z) T (all : list path),
    run_sequential SeqIgnoresTimeout clk T all = mkseq SeqExhausted (S (length all)) false all.
Proof. intros. apply seq_shipped_lemma. Qed.
Print Assumptions sequential_shipped_ignores_clock.

(* ... hence untimed: even when no single generator step takes longer than one time unit, for every
   bound there is an enumeration that keeps the shipped loop busy longer than timeout + bound, no flag
   (sequential_untimed_refuted above says the same about the black-box model `analyse`) *)
Theorem sequential_machine_untimed_refuted :
  forall bound, 0 <= bound ->
    exists (clk : nat -> Z) T (all : list path),
      0 <= T /\ StepsWithin clk 1 /\
      let o := run_sequential SeqIgnoresTimeout clk T all in
      s_flag o = false /\ T + bound < clk (s_exit o) - clk 0%nat.
Proof.
  intros bound Hb. exists (fun i => Z.of_nat i), 0, (repeat [] (Z.to_nat bound)).
  split; [lia|]. split; [intros i; lia|].
  rewrite seq_shipped_lemma. simpl s_flag. simpl s_exit. rewrite repeat_length. split; [reflexivity|]. lia.
Qed.
Print Assumptions sequential_machine_untimed_refuted.

(* --- the repaired loop --- *)

Theorem sequential_terminates :
  forall rule (clk : nat -> Z) T (all : list path), s_how (run_sequential rule clk T all) <> SeqOutOfFuel.
Proof. intros. apply seq_terminates_lemma. Qed.
Print Assumptions sequential_terminates.

(* what is handed to the post-processing is a PREFIX of the complete enumeration (either rule) *)
Theorem sequential_result_is_prefix :
  forall rule (clk : nat -> Z) T (all : list path),
    exists rest, all = s_result (run_sequential rule clk T all) ++ rest.
Proof. intros. apply seq_prefix_lemma. Qed.
Print Assumptions sequential_result_is_prefix.

(* hence every reported entry is an entry of the untimed result (partial_sound) *)
Theorem sequential_result_sound :
  forall rule off (clk : nat -> Z) T (all : list path) D,
    key_inj off all -> post off all = Some D ->
    exists d, post off (s_result (run_sequential rule clk T all)) = Some d /\ forall e, In e d -> In e D.
Proof.
  intros rule off clk T all D KI HD. apply partial_sound_lemma with (all := all); auto. apply seq_incl_lemma.
Qed.
Print Assumptions sequential_result_sound.

(* the flag is set exactly when the loop was left through `break`, exactly when the result differs from
   the complete enumeration, exactly when a genuine path is missing from it *)
Theorem sequential_flag_iff_cut :
  forall (clk : nat -> Z) T (all : list path),
    let o := run_sequential SeqDeadlinePerPath clk T all in
    (s_flag o = true <-> s_how o = SeqCut) /\
    (s_flag o = true <-> s_result o <> all) /\
    (s_flag o = true <-> exists p rest, all = s_result o ++ p :: rest) /\
    (s_flag o = false <-> s_result o = all).
Proof. intros. apply seq_flag_iff_cut_lemma. Qed.
Print Assumptions sequential_flag_iff_cut.

(* where it is cut: at the first reading beyond the deadline that is made on a yielded path; the
   paths yielded before that reading are all kept *)
Theorem sequential_cut_at_first_late_reading :
  forall (clk : nat -> Z) T (all : list path) i,
    (1 <= i <= length all)%nat -> late clk T i = true ->
    (forall j, (1 <= j < i)%nat -> late clk T j = false) ->
    let o := run_sequential SeqDeadlinePerPath clk T all in
    s_how o = SeqCut /\ s_flag o = true /\ s_exit o = i /\ s_result o = firstn (i - 1) all.
Proof. intros. apply seq_cut_at_first_late_lemma; assumption. Qed.
Print Assumptions sequential_cut_at_first_late_reading.

(* timeout -1, or every path is yielded at a reading inside the deadline: complete, no flag *)
Theorem sequential_complete_when_untimed_or_in_time :
  forall (clk : nat -> Z) T (all : list path),
    (T = -1 \/ forall i, (1 <= i <= length all)%nat -> clk i - clk 0%nat <= T) ->
    let o := run_sequential SeqDeadlinePerPath clk T all in
    s_how o = SeqExhausted /\ s_flag o = false /\ s_result o = all /\ s_exit o = S (length all).
Proof. intros. apply seq_complete_lemma; assumption. Qed.
Print Assumptions sequential_complete_when_untimed_or_in_time.

(* "finishes in time" for a clock that does not run backwards: the last path is yielded inside the
   deadline (no margin needed, unlike complete_when_in_time_partial for the poll loop) *)
Theorem sequential_complete_when_last_path_in_time :
  forall (clk : nat -> Z) T (all : list path),
    (forall i, clk i <= clk (S i)) -> clk (length all) - clk 0%nat <= T ->
    let o := run_sequential SeqDeadlinePerPath clk T all in
    s_how o = SeqExhausted /\ s_flag o = false /\ s_result o = all.
Proof. intros. apply seq_in_time_lemma; assumption. Qed.
Print Assumptions sequential_complete_when_last_path_in_time.

(* the loop is left no later than deadline + one generator step *)
Theorem sequential_time_bounded :
  forall (clk : nat -> Z) T dmax (all : list path),
    0 <= T -> StepsWithin clk dmax ->
    clk (s_exit (run_sequential SeqDeadlinePerPath clk T all)) - clk 0%nat <= T + dmax.
Proof. intros. apply seq_time_bounded_lemma; assumption. Qed.
Print Assumptions sequential_time_bounded.

(* the statement sequential_untimed_refuted falsifies for the shipped code, for the repaired one:
   whatever the kernel length, the search phase of check_for_loopcarried_dep takes at most
   timeout + one step (a poll interval above the threshold, a generator step below it) *)
Theorem analysis_time_bounded_repaired :
  forall rule threshold klen clk step dmax T ws (all : list path),
    0 <= T -> StepsWithin clk dmax -> (threshold <= klen -> ClockOK clk step) ->
    let '(flag, wall, res) := analyse_seq rule SeqDeadlinePerPath threshold klen clk step T ws all in
    wall <= T + dmax.
Proof.
  intros rule threshold klen clk step dmax T ws all HT D C. unfold analyse_seq.
  destruct (threshold <=? klen) eqn:E.
  - apply Z.leb_le in E. apply time_bounded_lemma; auto.
  - apply seq_time_bounded_lemma; assumption.
Qed.
Print Assumptions analysis_time_bounded_repaired.

(* and below the threshold: no flag => complete; flag => a genuine path is missing *)
Theorem analysis_sequential_flag_repaired :
  forall rule threshold klen clk step T ws (all : list path),
    klen < threshold ->
    let '(flag, wall, res) := analyse_seq rule SeqDeadlinePerPath threshold klen clk step T ws all in
    (flag = false <-> res = all) /\ (flag = true <-> exists p rest, all = res ++ p :: rest).
Proof.
  intros rule threshold klen clk step T ws all H. unfold analyse_seq.
  assert (E : (threshold <=? klen) = false) by (apply Z.leb_gt; exact H). rewrite E.
  destruct (seq_flag_iff_cut_lemma clk T all) as (_ & _ & H3 & H4). split; assumption.
Qed.
Print Assumptions analysis_sequential_flag_repaired.

(* the witness family of sequential_machine_untimed_refuted under the repaired rule: cut at the first path *)
Example sequential_untimed_repaired :
  forall n, let o := run_sequential SeqDeadlinePerPath (fun i => Z.of_nat i) 0 (repeat ([] : path) (S n)) in
    s_flag o = true /\ s_exit o = 1%nat /\ s_result o = [].
Proof. intros n. cbv zeta. unfold run_sequential. simpl. auto. Qed.

(* non-vacuity: timeout 1 s, a path every 0.3 s, six paths: three are kept, the fourth is yielded at 1.2 s *)
Definition six_paths : list path := [[(1, 1)]; [(2, 1)]; [(3, 1)]; [(4, 1)]; [(5, 1)]; [(6, 1)]].
Example seq_cut_run :
  let o := run_sequential SeqDeadlinePerPath (fun i => 300000 * Z.of_nat i) 1000000 six_paths in
  s_how o = SeqCut /\ s_flag o = true /\ s_exit o = 4%nat /\ s_result o = firstn 3 six_paths.
Proof. vm_compute. repeat split; reflexivity. Qed.
Example seq_complete_run :
  let o := run_sequential SeqDeadlinePerPath (fun i => 100000 * Z.of_nat i) 1000000 six_paths in
  s_how o = SeqExhausted /\ s_flag o = false /\ s_exit o = 7%nat /\ s_result o = six_paths.
Proof. vm_compute. repeat split; reflexivity. Qed.
Example seq_untimed_run :
  let o := run_sequential SeqDeadlinePerPath (fun i => 300000 * Z.of_nat i) (-1) six_paths in
  s_flag o = false /\ s_result o = six_paths.
Proof. vm_compute. split; reflexivity. Qed.
Example steps_within_example : StepsWithin (fun i => 300000 * Z.of_nat i) 300000.
Proof. intros i. lia. Qed.

(* ---------------------------------------------------------------- (d) the restriction of the repaired search *)
(* The repaired code searches, for root u and target t, dg.subgraph(nx.ancestors(dg, t) | {t}) and skips the
   root when it is not an ancestor.  Over the enumeration `Deps.paths` (the model of all_simple_paths of
   C05) this yields the same paths in the same order -- for any kept set that contains t and its ancestors. *)
From OV Require Model.Deps Proofs.SeqRestrict.

Theorem restricted_search_same_paths :
  forall (W : Type) (keep : nat -> bool) (g : list (Deps.edge (T:=W))) (t F : nat),
    keep t = true ->
    (forall f v, (f <= F)%nat -> Deps.paths f g v t <> [] -> keep v = true) ->
    forall fuel u, (fuel <= F)%nat -> SeqRestrict.paths_pruned keep fuel g u t = Deps.paths fuel g u t.
Proof. intros W keep g t F. apply SeqRestrict.paths_pruned_same. Qed.
Print Assumptions restricted_search_same_paths.

(* with the set nx.ancestors computes (decided with the enumeration itself) *)
Theorem ancestor_restricted_search_same_paths :
  forall (W : Type) (F : nat) (g : list (Deps.edge (T:=W))) (u t : nat),
    SeqRestrict.paths_pruned (SeqRestrict.anc_or_target F g t) F g u t = Deps.paths F g u t.
Proof. intros. apply SeqRestrict.ancestor_pruned_same. Qed.
Print Assumptions ancestor_restricted_search_same_paths.

(* the complete enumeration of the sequential search (all roots, in kernel order) is unchanged *)
Theorem ancestor_restricted_enumeration_same :
  forall (W : Type) (F off : nat) (g : list (Deps.edge (T:=W))) (roots : list nat),
    flat_map (fun r => SeqRestrict.paths_pruned (SeqRestrict.anc_or_target F g (r + off)) F g r (r + off)) roots =
    flat_map (fun r => Deps.paths F g r (r + off)) roots.
Proof.
  intros. induction roots as [|r rs IH]; [reflexivity|]. simpl. rewrite IH, SeqRestrict.ancestor_pruned_same. reflexivity.
Qed.
Print Assumptions ancestor_restricted_enumeration_same.
