(* Property C01 -- port pressure is a feasible split of each instruction's micro-ops.
   Theorems only; proofs are in Proofs/{Feasible,PressureQ,BalanceFrame,BalanceSingle}.v. *)
From Coq Require Import QArith List Bool String ZArith PrimFloat.
From OV Require Import Model.Num Model.Pressure Model.Family Model.Family2 Proofs.Feasible Proofs.PressureQ Proofs.BalanceFrame Proofs.Family2 Proofs.BalanceSingle.
Import ListNotations.
Open Scope Q_scope.

(* (1) uniform scheduling: the vector computed by the model's average_port_pressure (exact arithmetic)
       is a feasible split with slack 0 ... *)
Theorem C01_uniform_feasible : forall ports us v,
  avg_pressure_list QNum ports us = Ok v ->
  (forall u, In u us -> wf_names ports u) ->
  Feasible (List.length ports) 0 (map (toU ports) us) (qnth v).
Proof. exact uniform_model_feasible. Qed.
Print Assumptions C01_uniform_feasible.

(* (2) ... and every feasible split (slack eps per share) is non-negative up to eps per micro-op, puts
       nothing on a port no micro-op may use, adds up to the micro-ops' cycles, and satisfies Hall's
       condition for EVERY port set S (given as a boolean predicate). *)
Theorem C01_feasible_consequences : forall P eps us v,
  0 <= eps -> Feasible P eps us v ->
  (forall p, (p < P)%nat -> - (inject_Z (Z.of_nat (List.length us)) * eps) <= v p) /\
  (forall p, (p < P)%nat -> (forall u, (u < List.length us)%nat -> ~ In p (up (uget us u))) -> v p == 0) /\
  sumn P v == sumn (List.length us) (fun u => uc (uget us u)) /\
  (forall S, confined_cycles S us - eps * card P S * nonconfined S us <= load P S v).
Proof.
  intros P eps us v He F. repeat split.
  - apply feasible_lower. exact F.
  - apply (feasible_support P eps us v F).
  - apply (feasible_total P eps us v F).
  - intros S. apply feasible_hall; assumption.
Qed.
Print Assumptions C01_feasible_consequences.

(* (3) optimised scheduling, any numeric instance (binary64 included), any kernel context, any number of
       passes: balancing the micro-ops of an instruction changes only pressure cells of ports those
       micro-ops may use and keeps the vector's length (support is preserved). *)
Theorem C01_balance_preserves_support : forall (T : Type) (N : NumOps T) (d : T) ports idx us k pp ex pp' e,
  balance_uops N ports k idx pp us ex = Ok (pp', e) ->
  List.length pp' = List.length pp /\
  forall j, ~ allowed ports us j -> nth j pp' d = nth j pp d.
Proof. intros T N d ports idx us. exact (balance_uops_frame N d ports idx us). Qed.
Print Assumptions C01_balance_preserves_support.

(* (4) totals: lines whose throughput is 0 are shown but not summed *)
Theorem C01_totals_ignore_zero_throughput : forall (T : Type) (N : NumOps T) k1 i k2,
  neqb N (i_tp i) (zero N) = true -> tp_sum N (k1 ++ i :: k2) = tp_sum N (k1 ++ k2).
Proof.
  intros T N k1 i k2 H. unfold tp_sum. rewrite !filter_app. cbn [filter]. unfold counted at 2. rewrite H. reflexivity.
Qed.
Print Assumptions C01_totals_ignore_zero_throughput.

(* (5) the CLI's second pass is NOT feasible (refutation on the bit-exact binary64 model): one instruction
       with micro-ops [1 cycle on P1DV; 0.33 cycles on P0|P1DV]; after one pass P1DV carries >= 0.99,
       after the two passes of osaca.inspect it carries < 0.83 although 1.0 cycle is confined to it. *)
Open Scope float_scope.
Definition wit_ports : list string := ["P0"%string; "P1DV"%string].
Definition wit_uops : list (uop (T:=float)) := [(1, ["P1DV"%string]); (0x1.51eb851eb851fp-2, ["P0"%string; "P1DV"%string])].
Definition wit_kernel (pp : list float) : list (instr (T:=float)) := [mkinstr 0.5 pp (UList wit_uops)].
Definition p1_of (r : res (list (instr (T:=float)) * nat)) : option float :=
  match r with Ok ([i], _) => Some (nth 1 (i_pp i) 0) | _ => None end.

Theorem C01_second_pass_refuted :
  exists pp, avg_pressure_list FNum wit_ports wit_uops = Ok pp /\
  (exists a, p1_of (balance FNum wit_ports (wit_kernel pp)) = Some a /\ PrimFloat.leb 0.99 a = true) /\
  (exists b, p1_of (balance_cli FNum wit_ports (wit_kernel pp)) = Some b /\ PrimFloat.ltb b 0.83 = true).
Proof.
  eexists. split; [vm_compute; reflexivity|]. split; eexists; split; vm_compute; reflexivity.
Qed.
Print Assumptions C01_second_pass_refuted.
Close Scope float_scope.

(* (6) ONE optimisation pass on multi-micro-op instructions, bounded family, bit-exact binary64 model: for every
       kernel of length <= 2 over all forms with one or two 1-cycle micro-ops on non-empty subsets of 3 ports (3192
       kernels, complete for that shape) every instruction's pressure is exactly feasible under uniform scheduling and,
       after one balancing pass, non-negative up to 0.005 per micro-op using the port, supported on admissible ports,
       adds up to the micro-ops' cycles and satisfies Hall's condition for every port set up to 0.005 per
       (micro-op not confined to the set, port of it in the set) -- finite sweep, comparisons in exact rationals.
       After the CLI's two passes 798 of the 3192 kernels violate this (the known finding, counted exactly). *)
Theorem C01_family2_complete : forall w,
  (forall f, In f w -> In f all_forms2) -> (List.length w = 1%nat \/ List.length w = 2%nat) -> In w family2.
Proof. exact family2_complete. Qed.
Print Assumptions C01_family2_complete.

Theorem C01_family2_uniform_exact_and_once_feasible : forall w, In w family2 -> uniform_ok w = true /\ once_ok w = true.
Proof.
  intros w H. pose proof family2_sweep as S. rewrite forallb_forall in S. specialize (S w H).
  apply andb_true_iff in S. exact S.
Qed.
Print Assumptions C01_family2_uniform_exact_and_once_feasible.

Theorem C01_family2_second_pass_refuted_count : List.length (filter (fun w => negb (twice_ok w)) family2) = 798%nat.
Proof. exact family2_twice_count. Qed.
Print Assumptions C01_family2_second_pass_refuted_count.

(* non-vacuity: a concrete well-formed micro-op list satisfies the hypotheses of (1) *)
Example C01_nonvacuous :
  exists v, avg_pressure_list QNum ["0"; "1"; "2"]%string [(1, ["0"; "1"]%string); (1 # 2, ["1"; "2"]%string)] = Ok v /\
            (forall u, In u [(1, ["0"; "1"]%string); (1 # 2, ["1"; "2"]%string)] -> wf_names ["0"; "1"; "2"]%string u).
Proof.
  eexists. split; [vm_compute; reflexivity|].
  intros u [H|[H|[]]]; subst; unfold wf_names; cbn [fst snd]; repeat split; try discriminate;
    try (vm_compute; discriminate); vm_compute; repeat constructor; simpl; intuition discriminate.
Qed.

(* (7) optimised scheduling of a SINGLE-MICRO-OP instruction, exact rationals, any kernel context k, any position idx,
       any number n of iterations of the balancing loop, ANY `differences` list b_df: if the still-balanced indices are
       pairwise different, b_ip holds the cells at those indices and each of them is > 1/200 (round(x, 2) > 0 -- the
       uniform share c/|ports| of a realistic micro-op), then a loop that does not raise
       (1) preserves the instruction's total, (2) leaves every cell at the indices >= 0 (and every cell that was >= 0),
       (3) re-establishes its own invariant, and changes neither the length nor any cell outside the indices. *)
Theorem C01_single_uop_balance_exact : forall k idx n (s s' : @bstate Q),
  NoDup (b_ind s) ->
  getmany (b_pp s) (b_ind s) = Ok (b_ip s) ->
  List.length (b_ps s) = List.length (b_ind s) ->
  (forall x, In x (b_ip s) -> 1 # 200 < x) ->
  bloop QNum n k idx s = Ok s' ->
  sumn (List.length (b_pp s')) (qnth (b_pp s')) == sumn (List.length (b_pp s)) (qnth (b_pp s)) /\
  (forall p, In p (b_ind s) -> 0 <= qnth (b_pp s') p) /\
  (forall p, 0 <= qnth (b_pp s) p -> 0 <= qnth (b_pp s') p) /\
  (NoDup (b_ind s') /\ incl (b_ind s') (b_ind s) /\ getmany (b_pp s') (b_ind s') = Ok (b_ip s') /\
   List.length (b_ps s') = List.length (b_ind s') /\ (forall x, In x (b_ip s') -> 1 # 200 < x)) /\
  List.length (b_pp s') = List.length (b_pp s) /\
  (forall j, ~ In j (b_ind s) -> qnth (b_pp s') j = qnth (b_pp s) j).
Proof. exact bloop_single_exact_sumn. Qed.
Print Assumptions C01_single_uop_balance_exact.

(* (8) ... hence for one micro-op (c, ps) with pairwise different resolvable ports, balanced on a vector whose cells at
       those ports are > 1/200 (anything elsewhere): total preserved, cells on the ports >= 0, the rest untouched ... *)
Theorem C01_single_uop_balance_uop_exact : forall ports k idx pp c ps ind pp' e,
  indices_of ports ps = Ok ind -> NoDup ind ->
  (forall p, In p ind -> 1 # 200 < qnth pp p) ->
  balance_uop QNum ports k idx pp (c, ps) = Ok (pp', e) ->
  sumn (List.length pp') (qnth pp') == sumn (List.length pp) (qnth pp) /\
  (forall p, In p ind -> 0 <= qnth pp' p) /\
  List.length pp' = List.length pp /\
  (forall j, ~ In j ind -> qnth pp' j = qnth pp j).
Proof. exact balance_uop_single_exact_sumn. Qed.
Print Assumptions C01_single_uop_balance_uop_exact.

(* (9) ... and the balanced pressure of a single-micro-op instruction (uniform pressure from the model's
       average_port_pressure, then the per-instruction loop balance_uops) is a feasible split with slack 0. *)
Theorem C01_single_uop_balance_feasible : forall ports k idx c ps pp ex pp' e,
  avg_pressure_list QNum ports [(c, ps)] = Ok pp ->
  wf_names ports (c, ps) ->
  1 # 200 < c / inject_Z (Z.of_nat (List.length ps)) ->
  balance_uops QNum ports k idx pp [(c, ps)] ex = Ok (pp', e) ->
  Feasible (List.length ports) 0 [toU ports (c, ps)] (qnth pp').
Proof. exact single_uop_instruction_feasible. Qed.
Print Assumptions C01_single_uop_balance_feasible.

(* non-vacuity of (7)-(9): a 3-port, 2-instruction kernel whose first instruction has one micro-op on two ports;
   the hypotheses hold and the loop (100 iterations) moves 1/4 cycle from port 0 to port 1; a second kernel where
   rule 1 fires with a non-zero residual *)
Example C01_single_uop_nonvacuous :
  avg_pressure_list QNum ex_ports [ex_uop] = Ok [1 # 2; 1 # 2; 0] /\
  wf_names ex_ports ex_uop /\
  1 # 200 < fst ex_uop / inject_Z (Z.of_nat (List.length (snd ex_uop))) /\
  balance_uop QNum ex_ports ex_kernel 0 [1 # 2; 1 # 2; 0] ex_uop = Ok ([1 # 4; 3 # 4; 0], 0%nat).
Proof. exact single_uop_nonvacuous. Qed.

Example C01_single_uop_loop_nonvacuous :
  let s := mkb [1 # 2; 1 # 2; 0] [0; 1]%nat [1 # 2; 1 # 2] [7; 7; 7] [1; 1 # 2] 0%nat in
  NoDup (b_ind s) /\ getmany (b_pp s) (b_ind s) = Ok (b_ip s) /\ List.length (b_ps s) = List.length (b_ind s) /\
  (forall x, In x (b_ip s) -> 1 # 200 < x) /\
  exists s', bloop QNum 100 ex_kernel 0 s = Ok s' /\ b_pp s' = [1 # 4; 3 # 4; 0].
Proof. exact bloop_single_nonvacuous. Qed.

(* ======================================================================================================================
   (10)-(15) ONE optimisation pass on instructions with SEVERAL micro-ops, exact rationals, unbounded
   (Proofs/BalanceMulti.v, BalancePass.v, BalanceRefute.v).  The model is the balancer with the repaired rule 1
   (the `== 0.0` branch keeps `differences` aligned with `indices`); no hypothesis on the exact-zero counter. *)
From OV Require Import Proofs.BalanceMulti Proofs.BalancePass Proofs.BalanceRefute.

(* (10) all micro-ops of ONE instruction, ANY kernel context k, ANY position idx: if the micro-op list meets the boolean
        condition instr_okb (cycles >= 0, at least one port, resolved ports pairwise different, every micro-op with two or
        more ports has uniform share cycles/|ports| > m/200 where m = number of micro-ops of the instruction), the row is
        the model's average_port_pressure, and the per-instruction loop returns Ok, then the balanced row is a feasible
        split with slack 1/100 per (micro-op, port), has the length of the port list, and every cell is >= 0. *)
Theorem C01_multi_uop_instruction_feasible : forall ports k idx us pp ex pp' e,
  instr_okb ports us = true ->
  avg_pressure_list QNum ports us = Ok pp ->
  balance_uops QNum ports k idx pp us ex = Ok (pp', e) ->
  Feasible (List.length ports) (1 # 100) (map (toU ports) us) (qnth pp') /\
  List.length pp' = List.length ports /\ (forall p, 0 <= nth p pp' 0).
Proof. exact balance_instr_feasible. Qed.
Print Assumptions C01_multi_uop_instruction_feasible.

(* (11) ... hence: every cell >= 0; nothing on a port that no micro-op may use; the total is EXACTLY the micro-ops'
        cycles; Hall's condition for EVERY port set S up to 1/100 per (micro-op not confined to S, port of S). *)
Theorem C01_multi_uop_instruction_consequences : forall ports k idx us pp ex pp' e,
  instr_okb ports us = true ->
  avg_pressure_list QNum ports us = Ok pp ->
  balance_uops QNum ports k idx pp us ex = Ok (pp', e) ->
  (forall p, 0 <= qnth pp' p) /\
  (forall p, (p < List.length ports)%nat ->
     (forall u, (u < List.length us)%nat -> ~ In p (up (uget (map (toU ports) us) u))) -> qnth pp' p == 0) /\
  sumn (List.length ports) (qnth pp') == sumn (List.length us) (fun u => uc (uget (map (toU ports) us) u)) /\
  (forall S, confined_cycles S (map (toU ports) us) - (1 # 100) * card (List.length ports) S * nonconfined S (map (toU ports) us)
             <= load (List.length ports) S (qnth pp')).
Proof. exact balance_instr_consequences. Qed.
Print Assumptions C01_multi_uop_instruction_consequences.

(* (12) one whole pass (balance = assign_optimal_throughput(kernel), start 0) over a kernel of ANY length in which no
        instruction has alternative port assignments and every instruction is as the semantic stage builds it
        (start_ok: plain micro-op list meeting instr_okb, row = average_port_pressure of it): if the pass returns Ok
        (whatever the exact-zero counter e), the kernel keeps its length, every instruction keeps its throughput and its
        micro-ops, and every instruction's row is a feasible split of ITS OWN micro-ops with slack 1/100 per
        (micro-op, port), of full length, every cell >= 0 (done_ok). *)
Theorem C01_one_pass_feasible : forall ports (k k' : list (instr (T:=Q))) e,
  all_start_ok ports k ->
  balance QNum ports k = Ok (k', e) ->
  List.length k' = List.length k /\
  forall j, (j < List.length k)%nat ->
    i_tp (nth j k' dins) = i_tp (nth j k dins) /\ i_uops (nth j k' dins) = i_uops (nth j k dins) /\
    done_ok ports (nth j k' dins).
Proof. exact balance_pass_feasible. Qed.
Print Assumptions C01_one_pass_feasible.

(* (12') the hypothesis of (12) is decidable: all_start_ok follows from the boolean start_okb on every instruction
        (plain micro-op list, instr_okb, row == the model's average_port_pressure of the list, cell by cell) *)
Theorem C01_one_pass_hypothesis_decidable : forall ports (k : list (instr (T:=Q))),
  forallb (start_okb ports) k = true -> all_start_ok ports k.
Proof. exact all_start_okb_ok. Qed.
Print Assumptions C01_one_pass_hypothesis_decidable.

(* (13) the slack cannot be lowered: a 2-port kernel meeting every hypothesis of (12) whose pass returns Ok with counter 0
        and whose first row is NOT feasible with any slack eps < 0.0099 per (micro-op, port) -- in particular not 1/200. *)
Theorem C01_slack_below_granularity_refuted :
  exists ports k k', all_start_ok ports k /\ balance QNum ports k = Ok (k', 0%nat) /\
    forall eps, 0 <= eps -> eps < 99 # 10000 ->
      ~ Feasible (List.length ports) eps (uopsQ ports (nth 0 k' dins)) (qnth (i_pp (nth 0 k' dins))).
Proof. exact slack_below_granularity_refuted. Qed.
Print Assumptions C01_slack_below_granularity_refuted.

Theorem C01_slack_200_refuted :
  exists ports k k', all_start_ok ports k /\ balance QNum ports k = Ok (k', 0%nat) /\
    ~ Feasible (List.length ports) (1 # 200) (uopsQ ports (nth 0 k' dins)) (qnth (i_pp (nth 0 k' dins))).
Proof. exact slack_200_refuted. Qed.
Print Assumptions C01_slack_200_refuted.

(* (14) the share condition of instr_okb is necessary: with "every multi-port share > 1/200" instead of "> m/200" a 3-port
        kernel passes with counter 0, leaves -1/500 on a port and loses 1/100 of the row total (no slack makes it feasible). *)
Theorem C01_share_hypothesis_refuted :
  exists ports k k',
    (forall ins, In ins k -> start_ok_weak ports ins) /\ balance QNum ports k = Ok (k', 0%nat) /\
    i_pp (nth 0 k' dins) = [1171 # 5000; - (1 # 500); 0] /\
    (forall eps, ~ Feasible (List.length ports) eps (uopsQ ports (nth 0 k' dins)) (qnth (i_pp (nth 0 k' dins)))).
Proof. exact share_hypothesis_refuted. Qed.
Print Assumptions C01_share_hypothesis_refuted.

(* (15) the repair of rule 1 is necessary: with the OLD `== 0.0` branch (rule1_old, a verbatim copy; balance_uops_old = the
        model's per-instruction loop over it) a 4-port instruction meeting instr_okb in a kernel meeting all_start_ok returns Ok
        after two exact zeros with a row that is not feasible with any slack below 1/20; and on the bit-exact binary64
        model the old rule reproduces the input that failed on the implementation in ONE pass
        ([0.08 on A|B|C|D; 0.05 on C]: port C left with 0.03 < 0.05). *)
Theorem C01_old_rule1_exact_zero_refuted :
  exists ports k idx us pp pp' e,
    instr_okb ports us = true /\ avg_pressure_list QNum ports us = Ok pp /\
    all_start_ok ports k /\ i_uops (nth idx k dins) = UList us /\
    balance_uops_old QNum ports k idx pp us 0 = Ok (pp', e) /\ e = 2%nat /\
    forall eps, 0 <= eps -> eps < 1 # 20 -> ~ Feasible (List.length ports) eps (map (toU ports) us) (qnth pp').
Proof. exact old_rule1_exact_zero_refuted. Qed.
Print Assumptions C01_old_rule1_exact_zero_refuted.

Theorem C01_old_rule1_exact_zero_binary64_refuted :
  exists pp pp' e,
    avg_pressure_list FNum fz_ports fz_uops = Ok pp /\
    balance_uops_old FNum fz_ports fz_kernel 0 pp fz_uops 0 = Ok (pp', e) /\ e = 1%nat /\
    f_list_biteq pp' [0; 0x1.47ae147ae147bp-5; 0x1.eb851eb851eb8p-6; 0x1.eb851eb851eb9p-5]%float = true /\
    PrimFloat.ltb (nth 2 pp' 0%float) 0x1.999999999999ap-5%float = true.
Proof. exact old_rule1_exact_zero_binary64_refuted. Qed.
Print Assumptions C01_old_rule1_exact_zero_binary64_refuted.

(* non-vacuity of (10)-(12): 3 ports, instruction 0 = [1 on 0|1; 1/2 on 1|2; 1/4 on 2], instruction 1 = 3/10 on port 0; every
   hypothesis holds and the pass changes row 0 from [1/2; 3/4; 1/2] to [12/25; 63/100; 16/25]; and a run that meets two
   exact zeros (counter 2) under the repaired rule *)
Example C01_multi_uop_nonvacuous :
  instr_okb exm_ports exm_uops = true /\
  avg_pressure_list QNum exm_ports exm_uops = Ok [1 # 2; 3 # 4; 1 # 2] /\
  balance_uops QNum exm_ports exm_kernel 0 [1 # 2; 3 # 4; 1 # 2] exm_uops 0 = Ok ([12 # 25; 63 # 100; 16 # 25], 0%nat).
Proof. exact balance_instr_nonvacuous. Qed.

Example C01_one_pass_nonvacuous :
  all_start_ok exm_ports exm_kernel /\
  exists k', balance QNum exm_ports exm_kernel = Ok (k', 0%nat) /\
             i_pp (nth 0 k' dins) = [12 # 25; 63 # 100; 16 # 25] /\ i_pp (nth 0 exm_kernel dins) = [1 # 2; 3 # 4; 1 # 2].
Proof. exact balance_pass_nonvacuous. Qed.

Example C01_one_pass_exact_zero_nonvacuous :
  all_start_ok ez_ports ez_kernel /\
  exists k', balance QNum ez_ports ez_kernel = Ok (k', 2%nat) /\ i_pp (nth 0 k' dins) = [0; 2 # 5; 1 # 20; 0].
Proof. exact repaired_rule1_on_exact_zero_witness. Qed.

(* (16) Hall's condition of (11)/(12) with the sharper slack of Proofs/HallSharp.v: 1/100 per PAIR (micro-op not confined to S,
        port of S that this micro-op may use) -- a micro-op that cannot use any port of S costs nothing. *)
From OV Require Import Proofs.HallSharp Proofs.BalancePassSharp.

Theorem C01_multi_uop_instruction_hall_sharp : forall ports k idx us pp ex pp' e S,
  instr_okb ports us = true ->
  avg_pressure_list QNum ports us = Ok pp ->
  balance_uops QNum ports k idx pp us ex = Ok (pp', e) ->
  confined_cycles S (map (toU ports) us) - (1 # 100) * slack_pairs (List.length ports) S (map (toU ports) us)
  <= load (List.length ports) S (qnth pp').
Proof. exact balance_instr_hall_sharp. Qed.
Print Assumptions C01_multi_uop_instruction_hall_sharp.

Theorem C01_one_pass_hall_sharp : forall ports (k k' : list (instr (T:=Q))) e j S,
  all_start_ok ports k -> balance QNum ports k = Ok (k', e) -> (j < List.length k)%nat ->
  confined_cycles S (uopsQ ports (nth j k dins)) - (1 # 100) * slack_pairs (List.length ports) S (uopsQ ports (nth j k dins))
  <= load (List.length ports) S (qnth (i_pp (nth j k' dins))).
Proof. exact balance_pass_hall_sharp. Qed.
Print Assumptions C01_one_pass_hall_sharp.

(* (14') the same kernel on the bit-exact binary64 model (one pass): row [0.2342000000000001; -0.002; 0.0] -- negative
         pressure and 0.002 cycles lost; the implementation returns exactly these doubles (finding once:share-below-granularity) *)
From OV Require Import Proofs.BalanceRefute64.
Theorem C01_share_hypothesis_binary64_refuted :
  exists k' row, balance FNum sh64_ports sh64_kernel = Ok (k', 0%nat) /\
    nth_error k' 0 = Some row /\
    f_list_biteq (i_pp row) [0x1.dfa43fe5c91d5p-3; -0x1.0624dd2f1a9fcp-9; 0]%float = true /\
    PrimFloat.ltb (nth 1 (i_pp row) 0%float) 0%float = true.
Proof. exact share_hypothesis_binary64_refuted. Qed.
Print Assumptions C01_share_hypothesis_binary64_refuted.

(* (17) TOTALITY (Proofs/BalanceTotal.v): under the same hypotheses the balancer never raises -- every list operation of the
        loop finds its index and every itemgetter gets at least one index (repaired rule 1, exact rationals).
        One instruction: in a kernel context whose port sums cover all ports (tps_ok: true when all rows have the length
        of the port list and some line has a throughput) the per-instruction loop RETURNS a feasible row; one pass: on a
        kernel meeting all_start_ok, `balance` RETURNS a kernel with the conclusions of (12). *)
From OV Require Import Proofs.BalanceTotal.

Theorem C01_multi_uop_instruction_total : forall ports k idx us pp ex,
  instr_okb ports us = true ->
  avg_pressure_list QNum ports us = Ok pp ->
  tps_ok k idx (List.length ports) ->
  exists pp' e, balance_uops QNum ports k idx pp us ex = Ok (pp', e) /\
    Feasible (List.length ports) (1 # 100) (map (toU ports) us) (qnth pp') /\
    List.length pp' = List.length ports /\ (forall p, 0 <= nth p pp' 0).
Proof. exact balance_instr_total. Qed.
Print Assumptions C01_multi_uop_instruction_total.

Theorem C01_one_pass_total_feasible : forall ports (k : list (instr (T:=Q))),
  all_start_ok ports k ->
  exists k' e, balance QNum ports k = Ok (k', e) /\
    List.length k' = List.length k /\
    forall j, (j < List.length k)%nat ->
      i_tp (nth j k' dins) = i_tp (nth j k dins) /\ i_uops (nth j k' dins) = i_uops (nth j k dins) /\
      done_ok ports (nth j k' dins).
Proof. exact balance_pass_total_feasible. Qed.
Print Assumptions C01_one_pass_total_feasible.
