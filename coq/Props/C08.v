(* C08 -- Memory-operand forms compose register-form data with load/store data.
   Model: Model/Costing.v (assign_tp_lt; the look-up results are inputs).  Proofs: Proofs/Costing.v.
   Structural theorems hold for every numeric instance (so also for binary64, which the correspondence
   check compares bit for bit with the implementation); arithmetic theorems are over exact rationals. *)
From Coq Require Import QArith List Bool String ZArith.
From OV Require Import Model.Num Model.Pressure Model.Costing Proofs.PressureQ Proofs.Costing.
Import ListNotations.
Open Scope Q_scope.

(* micro-ops are the union: register form, then load row, then store row *)
Theorem compose_uops : forall {T} (N : NumOps T) m lk e rtr c ru,
  compose N m lk e rtr = Ok c -> e_uops e = UList ru ->
  c_uops c = PList (ru ++ ld_uops lk ++ st_uops m lk).
Proof. exact @Proofs.Costing.compose_uops. Qed.
Print Assumptions compose_uops.

(* pressure is the port-wise sum: register form + multiplier * load + multiplier * store *)
Theorem compose_pressure : forall m lk e rt c r l s,
  compose QNum m lk e (Ok rt) = Ok c ->
  avg_pressure QNum (m_ports m) (e_uops e) = Ok r ->
  avg_pressure_list QNum (m_ports m) (ld_uops lk) = Ok l ->
  avg_pressure_list QNum (m_ports m) (st_uops m lk) = Ok s ->
  List.length (c_pp c) = List.length (m_ports m) /\
  forall j, qnth (c_pp c) j == qnth r j + mult_of (m_ld_mult m) rt * qnth l j + mult_of (m_st_mult m) rt * qnth s j.
Proof. exact compose_pressure_Q. Qed.
Print Assumptions compose_pressure.

(* link to C01: without multipliers the pressure is the uniform split of the instruction's own port_uops *)
Theorem compose_pressure_is_uniform_split : forall m lk e rt c ru r l s t,
  compose QNum m lk e (Ok rt) = Ok c -> e_uops e = UList ru ->
  m_ld_mult m = None -> m_st_mult m = None ->
  avg_pressure_list QNum (m_ports m) ru = Ok r ->
  avg_pressure_list QNum (m_ports m) (ld_uops lk) = Ok l ->
  avg_pressure_list QNum (m_ports m) (st_uops m lk) = Ok s ->
  avg_pressure_list QNum (m_ports m) (ru ++ ld_uops lk ++ st_uops m lk) = Ok t ->
  c_uops c = PList (ru ++ ld_uops lk ++ st_uops m lk) /\ forall j, qnth (c_pp c) j == qnth t j.
Proof. exact compose_pressure_uniform. Qed.
Print Assumptions compose_pressure_is_uniform_split.

(* latency = register form + load latency of the register type (only if it loads; stores add 0);
   latency_wo_load = register form *)
Theorem compose_latency : forall m lk e rt c,
  compose QNum m lk e (Ok rt) = Ok c ->
  exists l ll, e_lt e = Some l /\ (if lk_has_ld lk then load_latency QNum m rt else Ok 0) = Ok ll /\
    c_lat c == l + ll /\ c_lat_wo c = l.
Proof. exact compose_latency_Q. Qed.
Print Assumptions compose_latency.

(* the same as an expression, for every numeric instance (binary64 included) *)
Theorem compose_latency_any : forall {T} (N : NumOps T) m lk e rtr c,
  compose N m lk e rtr = Ok c ->
  exists rt l ll, rtr = Ok rt /\ e_lt e = Some l /\
    (if lk_has_ld lk then load_latency N m rt else Ok (n0 N)) = Ok ll /\
    c_lat c = nadd N (nadd N l ll) (n0 N) /\ c_lat_wo c = l.
Proof. exact @Proofs.Costing.compose_latency. Qed.
Print Assumptions compose_latency_any.

(* throughput = the larger of the register form's throughput and the busiest data port *)
Theorem compose_throughput : forall m lk e rt c,
  compose QNum m lk e (Ok rt) = Ok c ->
  exists d t, data_pressure QNum m lk rt = Ok d /\ e_tp e = Some t /\
    t <= c_tp c /\ (forall y, In y d -> y <= c_tp c) /\ (c_tp c = t \/ In (c_tp c) d).
Proof. exact compose_throughput_Q. Qed.
Print Assumptions compose_throughput.

(* not flagged unknown when the register form has data *)
Theorem compose_not_unknown : forall {T} (N : NumOps T) m lk e rt c,
  with_fallback (lk_suffix lk) (lk_direct lk) (lk_direct_s lk) = None ->
  regform lk = Some (e, rt) ->
  cost_instr N m lk = Ok c ->
  ~ In F_TP_UNKWN (c_flags c) /\ ~ In F_LT_UNKWN (c_flags c).
Proof. exact @Proofs.Costing.compose_not_unknown. Qed.
Print Assumptions compose_not_unknown.

(* neither form: both unknown flags, one zero per port, zero latency and throughput, no micro-ops; never an error *)
Theorem unknown_zero : forall {T} (N : NumOps T) m lk,
  with_fallback (lk_suffix lk) (lk_direct lk) (lk_direct_s lk) = None ->
  regform lk = None ->
  exists c, cost_instr N m lk = Ok c /\
    In F_TP_UNKWN (c_flags c) /\ In F_LT_UNKWN (c_flags c) /\
    c_pp c = map (fun _ => n0 N) (m_ports m) /\ List.length (c_pp c) = List.length (m_ports m) /\
    (forall x, In x (c_pp c) -> x = n0 N) /\
    c_lat c = n0 N /\ c_lat_wo c = n0 N /\ c_tp c = n0 N /\ c_uops c = PList [].
Proof. exact @Proofs.Costing.unknown_zero. Qed.
Print Assumptions unknown_zero.

(* an (unknown, or any) line u does not change the numbers of any other line: the kernel is costed by a map.
   In the code the only thing that can break this is shared mutable state (the machine model's tables, C18). *)
Theorem unknown_frame : forall {T} (N : NumOps T) m k1 u k2,
  cost_kernel N m (k1 ++ u :: k2) = cost_kernel N m k1 ++ cost_line N m u :: cost_kernel N m k2 /\
  cost_kernel N m (k1 ++ k2) = cost_kernel N m k1 ++ cost_kernel N m k2.
Proof. exact @Proofs.Costing.unknown_frame. Qed.
Print Assumptions unknown_frame.

Theorem kernel_line_is_own_function : forall {T} (N : NumOps T) m k i,
  nth_error (cost_kernel N m k) i = option_map (cost_line N m) (nth_error k i).
Proof. exact @kernel_pointwise. Qed.
Print Assumptions kernel_line_is_own_function.

(* which table row: load = first returned row that names a register type matching the type of the register that
   replaced the memory operand, else the first returned row (the default row if no shape matched);
   store = first row returned for (shape, source type), dropped when only a base register is written back *)
Theorem row_choice_spec : forall {T} (m : mach (T:=T)) (lk : lookup (T:=T)),
  (match choose_load_row (lk_ld_rows lk) with
   | Err e => lk_ld_rows lk = [] /\ e = EIndex
   | Ok us =>
       (exists i r d, nth_error (lk_ld_rows lk) i = Some r /\ r_dst r = Some d /\ r_ok r = true /\ us = r_uops r /\
                      forall j y, (j < i)%nat -> nth_error (lk_ld_rows lk) j = Some y -> is_typed y = false)
       \/ ((forall y, In y (lk_ld_rows lk) -> is_typed y = false) /\ exists r rest, lk_ld_rows lk = r :: rest /\ us = r_uops r)
   end) /\
  (match store_uops m lk with
   | Err e => lk_st_rows lk = [] /\ e = EIndex
   | Ok us => exists r rest, lk_st_rows lk = r :: rest /\ us = if writeback_only (m_isa m) lk then [] else r
   end) /\
  (writeback_only (m_isa m) lk = true <->
   m_isa m = A64 /\ lk_dest_has_mem lk = false /\ forall b, In b (lk_srcdst_wb lk) -> b = true).
Proof.
  intros T m lk. split; [apply row_choice_load|]. split; [apply row_choice_store|apply writeback_spec].
Qed.
Print Assumptions row_choice_spec.

(* ------------------------------------------------------------------ non-vacuity *)
Definition exm : mach (T:=Q) := mkmach X86 ["0"; "1"; "2D"]%string [("gpr"%string, Some 4); ("xmm"%string, Some 6)] None None.
Definition exreg : entry (T:=Q) := mkentry (Some (1#2)) (Some 1) (UList [(1, ["0"; "1"]%string)]).
(* read-modify-write: `addq $1, (%rax)` with register form `add imd, gpr` *)
Definition exlk : lookup (T:=Q) :=
  mklookup true true true None None None (Some (exreg, Ok "gpr"%string))
           [mkldrow None false [(1, ["2D"]%string)]; mkldrow (Some "xmm"%string) false [(3, ["2D"]%string)];
            mkldrow (Some "gpr"%string) true [(1, ["0"; "2D"]%string)]]
           [[(1, ["1"]%string)]] false [false].

Example ex_compose :
  match cost_instr QNum exm exlk with
  | Ok c => andb (Qeq_bool (c_lat c) 5) (andb (Qeq_bool (c_lat_wo c) 1) (andb (Qeq_bool (c_tp c) 1)
            (andb (forallb (fun p => Qeq_bool (fst p) (snd p)) (combine (c_pp c) [1; 3#2; 1#2]))
                  (match c_uops c with PList [(_, ["0"; "1"]); (_, ["0"; "2D"]); (_, ["1"])]%string => true | _ => false end))))
  | Err _ => false
  end = true.
Proof. vm_compute. reflexivity. Qed.

Example ex_compose_hyps :
  with_fallback (lk_suffix exlk) (lk_direct exlk) (lk_direct_s exlk) = None /\
  regform exlk = Some (exreg, Ok "gpr"%string) /\
  (exists c, compose QNum exm exlk exreg (Ok "gpr"%string) = Ok c) /\
  (exists t, avg_pressure_list QNum (m_ports exm) ([(1, ["0"; "1"]%string)] ++ ld_uops exlk ++ st_uops exm exlk) = Ok t).
Proof. repeat split; try reflexivity; eexists; vm_compute; reflexivity. Qed.

(* neither form *)
Definition exunk : lookup (T:=Q) := mklookup true false false None None None None [] [] false [].
Example ex_unknown :
  with_fallback (lk_suffix exunk) (lk_direct exunk) (lk_direct_s exunk) = None /\ regform exunk = None /\
  cost_instr QNum exm exunk = Ok (mkcost (PList []) [0; 0; 0] 0 0 0 [F_HAS_LD; F_TP_UNKWN; F_LT_UNKWN]).
Proof. repeat split. Qed.

(* AArch64 write-back only: the store micro-ops and HAS_ST are dropped; a true store keeps them *)
Definition exa : mach (T:=Q) := mkmach A64 ["0"; "1"]%string [("x"%string, Some 4)] None None.
Definition exwb (dest_mem : bool) : lookup (T:=Q) :=
  mklookup false true false None None (Some (mkentry (Some 1) (Some 1) (UList [(1, ["0"]%string)]), Ok "x"%string)) None
           [] [[(1, ["1"]%string)]] dest_mem (if dest_mem then [] else [true]).
Example ex_writeback :
  match cost_instr QNum exa (exwb false), cost_instr QNum exa (exwb true) with
  | Ok a, Ok b => andb (match c_uops a with PList [_] => true | _ => false end)
                       (andb (match c_uops b with PList [_; _] => true | _ => false end)
                             (andb (negb (existsb (flag_eqb F_HAS_ST) (c_flags a))) (existsb (flag_eqb F_HAS_ST) (c_flags b))))
  | _, _ => false
  end = true.
Proof. vm_compute. reflexivity. Qed.

(* the binary64 instance evaluates the same text *)
Example ex_float_unknown :
  match cost_instr FNum (mkmach X86 ["0"; "1"]%string [] None None) (mklookup false false false None None None None [] [] false []) with
  | Ok c => Nat.eqb (List.length (c_pp c)) 2
  | Err _ => false
  end = true.
Proof. vm_compute. reflexivity. Qed.

(* ================================================================== the load / store ROW SELECTION inside the model
   Model: Model/Rows.v (get_load_throughput / get_store_throughput over the RAW tables of the machine model, with the
   matcher of Model/Match.v -- the one C07 models and ties -- and the row choice of assign_tp_lt).  Proofs: Proofs/Rows.v.
   "the model's load and/or store micro-ops FOR ITS ADDRESSING MODE AND REGISTER TYPE".
   Names below: isa / X86 / A64 are Model/Match.v's; the costing model's are written Costing.isa etc. *)
From OV Require Import Model.PyString Model.Match Model.MatchSpec Model.Rows Proofs.Rows.

(* what the implementation tests per row, as booleans (Proofs/Rows.v):
     shape_hit a m r = true <-> match_mem a m (rw_pat r) = Some true        (the row is for the addressing mode of m)
     type_hit a rt r = true <-> exists s, rw_typ r = Some s /\ type_ok a rt s = Some true   (the row names the type rt) *)
Theorem hit_meaning : forall {U} a m rt (r : row U),
  (shape_hit a m r = true <-> match_mem a m (rw_pat r) = Some true) /\
  (type_hit a rt r = true <-> exists s, rw_typ r = Some s /\ type_ok a rt s = Some true).
Proof. intros. split; [apply shape_hit_iff|apply type_hit_iff]. Qed.
Print Assumptions hit_meaning.

(* the getters return exactly the matching rows of the table, in table order -- the default iff there is none *)
Theorem getters_return_matching_rows : forall {U} a (tbl : list (row U)) d m rt,
  (forall rows, get_load_throughput a tbl d m = Some rows ->
     (filter (shape_hit a m) tbl = [] /\ rows = [(None, d)]) \/
     (filter (shape_hit a m) tbl <> [] /\ rows = map view (filter (shape_hit a m) tbl))) /\
  (forall rows, get_store_throughput a tbl d m (Some rt) = Some rows ->
     let hits := filter (type_hit a rt) (filter (shape_hit a m) tbl) in
     (hits = [] /\ rows = [(None, d)]) \/ (hits <> [] /\ rows = map view hits)) /\
  get_store_throughput a tbl d m None = get_load_throughput a tbl d m.
Proof.
  intros. split; [|split].
  - intros rows H. exact (proj2 (get_load_spec _ _ _ _ _ H)).
  - intros rows H. exact (proj2 (get_store_spec _ _ _ _ _ _ H)).
  - apply get_store_nosrc.
Qed.
Print Assumptions getters_return_matching_rows.

(* soundness: a selected row is a row of the table and its pattern matches the operand's addressing mode
   (store: and it names the source register type) *)
Theorem selected_row_matches_addressing_mode : forall {U} a (tbl : list (row U)) m rt r,
  (load_choice a tbl m rt = Some (CRow r) -> In r tbl /\ match_mem a m (rw_pat r) = Some true) /\
  (store_choice a tbl m rt = Some (CRow r) ->
     In r tbl /\ match_mem a m (rw_pat r) = Some true /\ exists s, rw_typ r = Some s /\ type_ok a rt s = Some true).
Proof.
  intros. split; [apply load_choice_sound|].
  intros H. destruct (store_choice_first _ _ _ _ _ H) as (l1 & l2 & -> & Hm & Ht & _).
  split; [apply in_or_app; right; left; reflexivity|]. split; [exact Hm|apply type_hit_iff; exact Ht].
Qed.
Print Assumptions selected_row_matches_addressing_mode.

(* ... in the words of the addressing-mode specification (Model/MatchSpec.v, written from the YAML semantics: base / index
   class, offset ~ / imd / id / *, scaled or not, pre- / post-indexed): the row ADMITS the operand's addressing kind *)
Theorem selected_row_admits_kind : forall {U} a (tbl : list (row U)) m rt r,
  wf_operand a (OMem m) = true -> wf_pattern a (PMem (rw_pat r)) = true ->
  (load_choice a tbl m rt = Some (CRow r) \/ store_choice a tbl m rt = Some (CRow r)) ->
  admits a (PMem (rw_pat r)) (kind a (OMem m)) = true.
Proof.
  intros U a tbl m rt r Ho Hp H.
  assert (match_mem a m (rw_pat r) = Some true) as Hm.
  { destruct H as [H|H]; [exact (proj2 (load_choice_sound _ _ _ _ _ H))|].
    destruct (store_choice_first _ _ _ _ _ H) as (_ & _ & _ & Hm & _). exact Hm. }
  rewrite (match_mem_admits a _ m Hp Ho) in Hm. congruence.
Qed.
Print Assumptions selected_row_admits_kind.

(* totality: for operands as the parsers deliver them the matcher never raises, so a selection always exists *)
Theorem selection_total_on_parsed_operands : forall {U} a (tbl : list (row U)) (d : U) m rt,
  wf_operand a (OMem m) = true ->
  (exists c, load_choice a tbl m rt = Some c) /\ (exists c, store_choice a tbl m rt = Some c) /\
  (exists rows, get_load_throughput a tbl d m = Some rows) /\
  (exists rows, get_store_throughput a tbl d m (Some rt) = Some rows).
Proof.
  intros U a tbl d m rt Ho.
  assert (forall r : row U, In r tbl -> match_mem a m (rw_pat r) <> None) as Hn by (intros; apply match_mem_total; exact Ho).
  split; [rewrite load_choice_unfold by exact Hn; eexists; reflexivity|].
  split; [rewrite store_choice_unfold by exact Hn; eexists; reflexivity|].
  unfold get_load_throughput, get_store_throughput. rewrite (shape_rows_total _ _ _ Hn), typed_filter. cbn [option_map].
  split; eexists; reflexivity.
Qed.
Print Assumptions selection_total_on_parsed_operands.

(* completeness: if any row of the load table matches, a matching row is selected and the default is NOT used;
   in the words of the specification: if any (well-formed) row admits the operand's addressing kind *)
Theorem matching_row_is_selected : forall {U} a (tbl : list (row U)) m rt,
  wf_operand a (OMem m) = true ->
  ((exists r, In r tbl /\ match_mem a m (rw_pat r) = Some true) \/
   (exists r, In r tbl /\ wf_pattern a (PMem (rw_pat r)) = true /\ admits a (PMem (rw_pat r)) (kind a (OMem m)) = true)) ->
  exists r', load_choice a tbl m rt = Some (CRow r') /\ In r' tbl /\ match_mem a m (rw_pat r') = Some true.
Proof.
  intros U a tbl m rt Ho H. apply load_choice_complete.
  - intros; apply match_mem_total; exact Ho.
  - destruct H as [H|(r & Hr & Hp & Ha)]; [exact H|]. exists r. split; [exact Hr|].
    rewrite (match_mem_admits a _ m Hp Ho), Ha. reflexivity.
Qed.
Print Assumptions matching_row_is_selected.

(* the default is used iff no row matches (store: iff no row both matches and names the source register type) *)
Theorem default_iff_no_row_matches : forall {U} a (tbl : list (row U)) m rt,
  (load_choice a tbl m rt = Some CDefault <-> forall r, In r tbl -> match_mem a m (rw_pat r) = Some false) /\
  (wf_operand a (OMem m) = true ->
   (store_choice a tbl m rt = Some CDefault <->
    forall r, In r tbl -> match_mem a m (rw_pat r) = Some true -> type_hit a rt r = false)).
Proof.
  intros. split; [apply load_default_iff|]. intros Ho. apply store_default_iff. intros; apply match_mem_total; exact Ho.
Qed.
Print Assumptions default_iff_no_row_matches.

(* typed-row preference: load = the FIRST row of the table that matches the addressing mode and names the register type;
   if no matching row names it, the first matching row.  store = the first row that matches and names the type. *)
Theorem typed_row_preference : forall {U} a (tbl : list (row U)) m rt r,
  (load_choice a tbl m rt = Some (CRow r) ->
   exists l1 l2, tbl = l1 ++ r :: l2 /\ shape_hit a m r = true /\
     ((type_hit a rt r = true /\ forall x, In x l1 -> shape_hit a m x = true -> type_hit a rt x = false)
      \/ ((forall x, In x tbl -> shape_hit a m x = true -> type_hit a rt x = false) /\
          forall x, In x l1 -> shape_hit a m x = false))) /\
  (store_choice a tbl m rt = Some (CRow r) ->
   exists l1 l2, tbl = l1 ++ r :: l2 /\ match_mem a m (rw_pat r) = Some true /\ type_hit a rt r = true /\
                 forall x, In x l1 -> shape_hit a m x = true -> type_hit a rt x = false).
Proof. intros. split; [apply load_choice_first|apply store_choice_first]. Qed.
Print Assumptions typed_row_preference.

(* the costing model's own row choice (Costing.choose_load_row / store_uops: first typed row, else first row; row 0)
   applied to what the getters hand back IS load_choice / store_choice *)
Theorem costing_choice_is_table_choice : forall {T} a (tbl : list (row (@UL T))) d m rt,
  (forall rows, get_load_throughput a tbl d m = Some rows ->
     exists c, load_choice a tbl m rt = Some c /\ Costing.choose_load_row (to_ldrows a rt rows) = Pressure.Ok (choice_uops d c)) /\
  (forall rows, get_store_throughput a tbl d m (Some rt) = Some rows ->
     exists c rest, store_choice a tbl m rt = Some c /\ map snd rows = choice_uops d c :: rest).
Proof. intros. split; intros rows H; [apply choose_load_is_choice|apply store_first_is_choice]; exact H. Qed.
Print Assumptions costing_choice_is_table_choice.

(* ---- no dependence on earlier look-ups ---- *)
(* every line of a kernel is costed by the same function of (machine, tables, that line): no state is threaded *)
Theorem rows_kernel_line_is_own_function : forall {T} (N : NumOps T) m tb k i,
  nth_error (cost_kernel_rows N m tb k) i = option_map (cost_line_rows N m tb) (nth_error k i).
Proof. exact @kernel_rows_pointwise. Qed.
Print Assumptions rows_kernel_line_is_own_function.

Theorem rows_kernel_frame : forall {T} (N : NumOps T) m tb k1 u k2,
  cost_kernel_rows N m tb (k1 ++ u :: k2) = cost_kernel_rows N m tb k1 ++ cost_line_rows N m tb u :: cost_kernel_rows N m tb k2.
Proof. exact @kernel_rows_app. Qed.
Print Assumptions rows_kernel_frame.

(* a getter that memoises its answers per key is indistinguishable from the stateless selection -- in every history,
   from any cache that holds only correct answers -- provided the key determines the selection *)
Theorem memoised_getter_exact : forall {K A} (keq : K -> K -> bool) (key : memop -> K) (sel : memop -> A),
  (forall m1 m2, keq (key m1) (key m2) = true -> sel m1 = sel m2) ->
  forall ms, memo_run keq key sel [] ms = map sel ms.
Proof. intros K A keq key sel Hk ms. apply memo_run_exact; [exact Hk|]. intros k x []. Qed.
Print Assumptions memoised_getter_exact.

(* ... and the proviso cannot be dropped: with a key that records only WHETHER there is a displacement (the seeded
   regression C08-2) the answer to the second look-up depends on the first *)
Definition rax : regop := R (Some "rax"%string) None None None.
Definition mem_num : memop := M (Some rax) (OImm (IVInt 8)) None 1 false PostFalse.      (* 8(%rax)   *)
Definition mem_sym : memop := M (Some rax) OIdent None 1 false PostFalse.                (* tab(%rax) *)
Definition ex_tbl : list (row (list (Q * list string))) :=
  [ mkrow (MP (MStr "gpr") (FStr "imd") MNone (SInt 1) (GBool false) (GBool false)) None [(1, ["2D"])];
    mkrow (MP (MStr "gpr") (FStr "id") MNone (SInt 1) (GBool false) (GBool false)) (Some "xmm") [(2, ["3D"])];
    mkrow (MP (MStr "gpr") (FStr "*") (MStr "*") (SStr "*") (GBool false) (GBool false)) (Some "gpr") [(1, ["2D"; "3D"])] ]%string.
Definition ex_dflt : list (Q * list string) := [(1, ["9"%string])].

Theorem memoised_getter_coarse_key_refuted :
  exists ms, memo_run coarse_keq coarse_key (get_load_throughput X86 ex_tbl ex_dflt) [] ms
             <> map (get_load_throughput X86 ex_tbl ex_dflt) ms.
Proof. exists [mem_num; mem_sym]. vm_compute. intros H. inversion H. Qed.
Print Assumptions memoised_getter_coarse_key_refuted.

(* ---- the composition theorems with the rows COMPUTED from the raw tables ---- *)
(* cost_instr_rows is cost_instr on the look-up record whose rows were selected from the tables; outside the composition
   path the tables are not consulted *)
Theorem rows_computed_then_costed : forall {T} (N : NumOps T) m tb q (lk : Costing.lookup (T:=T)),
  (forall e rt r,
     with_fallback (lk_suffix lk) (lk_direct lk) (lk_direct_s lk) = None -> regform lk = Some (e, Pressure.Ok rt) ->
     cost_instr_rows N m tb q lk = Some r ->
     exists lk', fill_rows m tb q rt lk = Some lk' /\ r = compose N m lk' e (Pressure.Ok rt) /\ r = cost_instr N m lk') /\
  ((with_fallback (lk_suffix lk) (lk_direct lk) (lk_direct_s lk) <> None \/ forall e rt, regform lk <> Some (e, Pressure.Ok rt)) ->
   cost_instr_rows N m tb q lk = Some (cost_instr N m lk)).
Proof. intros. split; [intros e rt r; apply cost_rows_compose|apply cost_rows_other]. Qed.
Print Assumptions rows_computed_then_costed.

(* micro-ops = register form ++ SELECTED load row ++ SELECTED store row *)
Theorem compose_uops_rows : forall {T} (N : NumOps T) m tb q (lk : Costing.lookup (T:=T)) e rt c ru,
  with_fallback (lk_suffix lk) (lk_direct lk) (lk_direct_s lk) = None ->
  regform lk = Some (e, Pressure.Ok rt) ->
  cost_instr_rows N m tb q lk = Some (Pressure.Ok c) -> e_uops e = UList ru ->
  c_uops c = PList (ru ++ ld_part (isa_of (m_isa m)) tb q rt lk ++ st_part m tb q rt lk) /\
  (lk_has_ld lk = true ->
     exists mem ch, q_ld q = Some mem /\ load_choice (isa_of (m_isa m)) (t_ld tb) mem rt = Some ch /\
                    ld_part (isa_of (m_isa m)) tb q rt lk = choice_uops (t_ld_default tb) ch) /\
  (lk_has_st lk = true ->
     exists mem ch, q_st q = Some mem /\ store_choice (isa_of (m_isa m)) (t_st tb) mem rt = Some ch /\
                    st_part m tb q rt lk = if writeback_only (m_isa m) lk then [] else choice_uops (t_st_default tb) ch).
Proof. exact @Proofs.Rows.compose_uops_rows. Qed.
Print Assumptions compose_uops_rows.

(* pressure = register form + m_ld * selected load row + m_st * selected store row, port by port *)
Theorem compose_pressure_rows : forall m tb q (lk : Costing.lookup (T:=Q)) e rt c r l s,
  with_fallback (lk_suffix lk) (lk_direct lk) (lk_direct_s lk) = None ->
  regform lk = Some (e, Pressure.Ok rt) ->
  cost_instr_rows QNum m tb q lk = Some (Pressure.Ok c) ->
  avg_pressure QNum (m_ports m) (e_uops e) = Pressure.Ok r ->
  avg_pressure_list QNum (m_ports m) (ld_part (isa_of (m_isa m)) tb q rt lk) = Pressure.Ok l ->
  avg_pressure_list QNum (m_ports m) (st_part m tb q rt lk) = Pressure.Ok s ->
  List.length (c_pp c) = List.length (m_ports m) /\
  forall j, qnth (c_pp c) j == qnth r j + mult_of (m_ld_mult m) rt * qnth l j + mult_of (m_st_mult m) rt * qnth s j.
Proof. exact Proofs.Rows.compose_pressure_rows. Qed.
Print Assumptions compose_pressure_rows.

Theorem compose_pressure_rows_is_uniform_split : forall m tb q (lk : Costing.lookup (T:=Q)) e rt c ru r l s t,
  with_fallback (lk_suffix lk) (lk_direct lk) (lk_direct_s lk) = None ->
  regform lk = Some (e, Pressure.Ok rt) ->
  cost_instr_rows QNum m tb q lk = Some (Pressure.Ok c) -> e_uops e = UList ru ->
  m_ld_mult m = None -> m_st_mult m = None ->
  avg_pressure_list QNum (m_ports m) ru = Pressure.Ok r ->
  avg_pressure_list QNum (m_ports m) (ld_part (isa_of (m_isa m)) tb q rt lk) = Pressure.Ok l ->
  avg_pressure_list QNum (m_ports m) (st_part m tb q rt lk) = Pressure.Ok s ->
  avg_pressure_list QNum (m_ports m) (ru ++ ld_part (isa_of (m_isa m)) tb q rt lk ++ st_part m tb q rt lk) = Pressure.Ok t ->
  forall j, qnth (c_pp c) j == qnth t j.
Proof. exact Proofs.Rows.compose_pressure_rows_uniform. Qed.
Print Assumptions compose_pressure_rows_is_uniform_split.

Theorem compose_latency_rows : forall m tb q (lk : Costing.lookup (T:=Q)) e rt c,
  with_fallback (lk_suffix lk) (lk_direct lk) (lk_direct_s lk) = None ->
  regform lk = Some (e, Pressure.Ok rt) ->
  cost_instr_rows QNum m tb q lk = Some (Pressure.Ok c) ->
  exists l ll, e_lt e = Some l /\ (if lk_has_ld lk then load_latency QNum m rt else Pressure.Ok 0) = Pressure.Ok ll /\
    c_lat c == l + ll /\ c_lat_wo c = l.
Proof. exact Proofs.Rows.compose_latency_rows. Qed.
Print Assumptions compose_latency_rows.

Theorem compose_throughput_rows : forall m tb q (lk : Costing.lookup (T:=Q)) e rt c,
  with_fallback (lk_suffix lk) (lk_direct lk) (lk_direct_s lk) = None ->
  regform lk = Some (e, Pressure.Ok rt) ->
  cost_instr_rows QNum m tb q lk = Some (Pressure.Ok c) ->
  exists lk' d t, fill_rows m tb q rt lk = Some lk' /\
    ld_uops lk' = ld_part (isa_of (m_isa m)) tb q rt lk /\ st_uops m lk' = st_part m tb q rt lk /\
    data_pressure QNum m lk' rt = Pressure.Ok d /\ e_tp e = Some t /\
    t <= c_tp c /\ (forall y, In y d -> y <= c_tp c) /\ (c_tp c = t \/ In (c_tp c) d).
Proof. exact Proofs.Rows.compose_throughput_rows. Qed.
Print Assumptions compose_throughput_rows.

Theorem compose_not_unknown_rows : forall {T} (N : NumOps T) m tb q (lk : Costing.lookup (T:=T)) e rtr c,
  with_fallback (lk_suffix lk) (lk_direct lk) (lk_direct_s lk) = None ->
  regform lk = Some (e, rtr) ->
  cost_instr_rows N m tb q lk = Some (Pressure.Ok c) ->
  ~ In F_TP_UNKWN (c_flags c) /\ ~ In F_LT_UNKWN (c_flags c).
Proof. exact @Proofs.Rows.compose_not_unknown_rows. Qed.
Print Assumptions compose_not_unknown_rows.

Theorem unknown_zero_rows : forall {T} (N : NumOps T) m tb q (lk : Costing.lookup (T:=T)),
  with_fallback (lk_suffix lk) (lk_direct lk) (lk_direct_s lk) = None ->
  regform lk = None ->
  exists c, cost_instr_rows N m tb q lk = Some (Pressure.Ok c) /\
    In F_TP_UNKWN (c_flags c) /\ In F_LT_UNKWN (c_flags c) /\
    c_pp c = map (fun _ => n0 N) (m_ports m) /\ c_lat c = n0 N /\ c_lat_wo c = n0 N /\ c_tp c = n0 N /\ c_uops c = PList [].
Proof. exact @Proofs.Rows.unknown_zero_rows. Qed.
Print Assumptions unknown_zero_rows.

(* ------------------------------------------------------------------ non-vacuity (rows) *)
(* x86: numeric displacement -> the `imd` row, then (register type gpr) the later wildcard row typed gpr is preferred;
   symbolic displacement -> never the `imd` row: the `id` row, whose type xmm does not fit gpr, then the typed wildcard
   row; an operand nothing matches (index register, and the wildcard row removed) -> the default *)
Example ex_rows_x86 :
  load_choice X86 ex_tbl mem_num "gpr" = Some (CRow (nth 2 ex_tbl (mkrow (MP MNone FNone MNone SNone (GBool false) (GBool false)) None [])))
  /\ load_choice X86 ex_tbl mem_num "ymm" = Some (CRow (nth 0 ex_tbl (mkrow (MP MNone FNone MNone SNone (GBool false) (GBool false)) None [])))
  /\ load_choice X86 ex_tbl mem_sym "xmm" = Some (CRow (nth 1 ex_tbl (mkrow (MP MNone FNone MNone SNone (GBool false) (GBool false)) None [])))
  /\ load_choice X86 ex_tbl mem_sym "ymm" = Some (CRow (nth 1 ex_tbl (mkrow (MP MNone FNone MNone SNone (GBool false) (GBool false)) None [])))
  /\ get_load_throughput X86 ex_tbl ex_dflt mem_num <> get_load_throughput X86 ex_tbl ex_dflt mem_sym
  /\ load_choice X86 (firstn 2 ex_tbl) (M (Some rax) ONone (Some rax) 8 false PostFalse) "gpr" = Some CDefault
  /\ store_choice X86 ex_tbl mem_num "ymm" = Some CDefault
  /\ store_choice X86 ex_tbl mem_sym "xmm" = Some (CRow (nth 1 ex_tbl (mkrow (MP MNone FNone MNone SNone (GBool false) (GBool false)) None [])))
  /\ wf_operand X86 (OMem mem_num) = true /\ wf_operand X86 (OMem mem_sym) = true
  /\ forallb (fun r => wf_pattern X86 (PMem (rw_pat r))) ex_tbl = true.
Proof. repeat split; try reflexivity. vm_compute. intros H; inversion H. Qed.

(* AArch64: plain, pre-indexed and post-indexed forms of the same base + displacement get different rows *)
Definition x1 : regop := R (Some "1"%string) (Some "x"%string) None None.
Definition a_tbl : list (row (list (Q * list string))) :=
  [ mkrow (MP (MStr "x") (FStr "imd") MNone (SInt 1) (GBool false) (GBool true)) None [(1, ["6"]); (1, ["1"])];
    mkrow (MP (MStr "x") (FStr "imd") MNone (SInt 1) (GBool false) (GBool false)) None [(1, ["6"])];
    mkrow (MP (MStr "x") (FStr "imd") MNone (SInt 1) (GBool true) (GBool false)) None [(1, ["6"]); (1, ["2"])];
    mkrow (MP (MStr "x") FNone MNone (SInt 1) (GBool false) (GBool true)) None [(1, ["6"]); (1, ["3"])] ]%string.
Example ex_rows_a64 :
  option_map (choice_uops ex_dflt) (load_choice A64 a_tbl (M (Some x1) (OImm (IVInt 8)) None 1 false PostFalse) "x") = Some [(1, ["6"%string])]
  /\ option_map (choice_uops ex_dflt) (load_choice A64 a_tbl (M (Some x1) (OImm (IVInt 8)) None 1 true PostFalse) "x") = Some [(1, ["6"]); (1, ["2"])]%string
  /\ option_map (choice_uops ex_dflt) (load_choice A64 a_tbl (M (Some x1) ONone None 1 false PostDict) "x") = Some [(1, ["6"]); (1, ["3"])]%string
  /\ option_map (choice_uops ex_dflt) (load_choice A64 a_tbl (M (Some x1) OIdent None 1 false PostFalse) "x") = Some ex_dflt.
Proof. repeat split; reflexivity. Qed.

(* the whole path: `addq $1, 8(%rax)` / `addq $1, tab(%rax)` costed from the raw tables (same machine and register form as
   ex_compose above): load micro-ops differ with the displacement kind (`imd` row / `id` row typed gpr); the store of the
   numeric form falls to the default because its only matching row names no source type *)
Definition ex_tbl2 : list (row (list (Q * list string))) :=
  [ mkrow (MP (MStr "gpr") (FStr "imd") MNone (SInt 1) (GBool false) (GBool false)) None [(1, ["2D"])];
    mkrow (MP (MStr "gpr") (FStr "id") MNone (SInt 1) (GBool false) (GBool false)) (Some "gpr") [(2, ["2D"])] ]%string.
Definition ex_tb : tables (T:=Q) := mktables ex_tbl2 ex_dflt ex_tbl2 [(1, ["1"%string])].
Definition exlk0 : Costing.lookup (T:=Q) := mklookup true true true None None None (Some (exreg, Pressure.Ok "gpr"%string)) [] [] false [false].
Definition q_num := mkmemq (Some mem_num) (Some mem_num).
Definition q_sym := mkmemq (Some mem_sym) (Some mem_sym).
Example ex_compose_rows :
  match cost_instr_rows QNum exm ex_tb q_num exlk0, cost_instr_rows QNum exm ex_tb q_sym exlk0 with
  | Some (Pressure.Ok a), Some (Pressure.Ok b) =>
      andb (match c_uops a with PList [(_, ["0"; "1"]); (_, ["2D"]); (_, ["1"])]%string => true | _ => false end)
           (andb (match c_uops b with PList [(_, ["0"; "1"]); (_, ["2D"]); (_, ["2D"])]%string => true | _ => false end)
                 (andb (Qeq_bool (c_lat a) 5)
                       (andb (forallb (fun p => Qeq_bool (fst p) (snd p)) (combine (c_pp a) [1#2; 3#2; 1]))
                             (forallb (fun p => Qeq_bool (fst p) (snd p)) (combine (c_pp b) [1#2; 1#2; 4])))))
  | _, _ => false
  end = true
  /\ with_fallback (lk_suffix exlk0) (lk_direct exlk0) (lk_direct_s exlk0) = None
  /\ regform exlk0 = Some (exreg, Pressure.Ok "gpr"%string)
  /\ ld_part X86 ex_tb q_num "gpr" exlk0 = [(1, ["2D"])]%string
  /\ ld_part X86 ex_tb q_sym "gpr" exlk0 = [(2, ["2D"])]%string
  /\ st_part exm ex_tb q_num "gpr" exlk0 = [(1, ["1"])]%string
  /\ st_part exm ex_tb q_sym "gpr" exlk0 = [(2, ["2D"])]%string
  /\ (exists t, avg_pressure_list QNum (m_ports exm) ([(1, ["0"; "1"]%string)] ++ ld_part X86 ex_tb q_num "gpr" exlk0
                                                      ++ st_part exm ex_tb q_num "gpr" exlk0) = Pressure.Ok t).
Proof. repeat split; try reflexivity. eexists; vm_compute; reflexivity. Qed.
