(* C08 -- Memory-operand forms compose register-form data with load/store data.
   Model: Model/Costing.v (assign_tp_lt; the look-up results are inputs).  Proofs: Proofs/Costing.v.
   Structural theorems hold for every numeric instance (so also for binary64, which the correspondence
   check compares bit for bit with the implementation); arithmetic theorems are over exact rationals. *)
From Coq Require Import QArith List Bool String ZArith.
From OV Require Import Model.Num Model.Pressure Model.Costing Proofs.PressureQ Proofs.Costing.
Import ListNotations.
Open Scope Q_scope.

(* micro-ops are the union: register form, then load row, then store row *)
Theorem compose_uops : forall {T} (N : NumOps T) m lk e rtr c ru,
  compose N m lk e rtr = Ok c -> e_uops e = UList ru ->
  c_uops c = PList (ru ++ ld_uops lk ++ st_uops m lk).
Proof. exact @Proofs.Costing.compose_uops. Qed.
Print Assumptions compose_uops.

(* pressure is the port-wise sum: register form + multiplier * load + multiplier * store *)
Theorem compose_pressure : forall m lk e rt c r l s,
  compose QNum m lk e (Ok rt) = Ok c ->
  avg_pressure QNum (m_ports m) (e_uops e) = Ok r ->
  avg_pressure_list QNum (m_ports m) (ld_uops lk) = Ok l ->
  avg_pressure_list QNum (m_ports m) (st_uops m lk) = Ok s ->
  List.length (c_pp c) = List.length (m_ports m) /\
  forall j, qnth (c_pp c) j == qnth r j + mult_of (m_ld_mult m) rt * qnth l j + mult_of (m_st_mult m) rt * qnth s j.
Proof. exact compose_pressure_Q. Qed.
Print Assumptions compose_pressure.

(* link to C01: without multipliers the pressure is the uniform split of the instruction's own port_uops *)
Theorem compose_pressure_is_uniform_split : forall m lk e rt c ru r l s t,
  compose QNum m lk e (Ok rt) = Ok c -> e_uops e = UList ru ->
  m_ld_mult m = None -> m_st_mult m = None ->
  avg_pressure_list QNum (m_ports m) ru = Ok r ->
  avg_pressure_list QNum (m_ports m) (ld_uops lk) = Ok l ->
  avg_pressure_list QNum (m_ports m) (st_uops m lk) = Ok s ->
  avg_pressure_list QNum (m_ports m) (ru ++ ld_uops lk ++ st_uops m lk) = Ok t ->
  c_uops c = PList (ru ++ ld_uops lk ++ st_uops m lk) /\ forall j, qnth (c_pp c) j == qnth t j.
Proof. exact compose_pressure_uniform. Qed.
Print Assumptions compose_pressure_is_uniform_split.

(* latency = register form + load latency of the register type (only if it loads; stores add 0);
   latency_wo_load = register form *)
Theorem compose_latency : forall m lk e rt c,
  compose QNum m lk e (Ok rt) = Ok c ->
  exists l ll, e_lt e = Some l /\ (if lk_has_ld lk then load_latency QNum m rt else Ok 0) = Ok ll /\
    c_lat c == l + ll /\ c_lat_wo c = l.
Proof. exact compose_latency_Q. Qed.
Print Assumptions compose_latency.

(* the same as an expression, for every numeric instance (binary64 included) *)
Theorem compose_latency_any : forall {T} (N : NumOps T) m lk e rtr c,
  compose N m lk e rtr = Ok c ->
  exists rt l ll, rtr = Ok rt /\ e_lt e = Some l /\
    (if lk_has_ld lk then load_latency N m rt else Ok (n0 N)) = Ok ll /\
    c_lat c = nadd N (nadd N l ll) (n0 N) /\ c_lat_wo c = l.
Proof. exact @Proofs.Costing.compose_latency. Qed.
Print Assumptions compose_latency_any.

(* throughput = the larger of the register form's throughput and the busiest data port *)
Theorem compose_throughput : forall m lk e rt c,
  compose QNum m lk e (Ok rt) = Ok c ->
  exists d t, data_pressure QNum m lk rt = Ok d /\ e_tp e = Some t /\
    t <= c_tp c /\ (forall y, In y d -> y <= c_tp c) /\ (c_tp c = t \/ In (c_tp c) d).
Proof. exact compose_throughput_Q. Qed.
Print Assumptions compose_throughput.

(* not flagged unknown when the register form has data *)
Theorem compose_not_unknown : forall {T} (N : NumOps T) m lk e rt c,
  with_fallback (lk_suffix lk) (lk_direct lk) (lk_direct_s lk) = None ->
  regform lk = Some (e, rt) ->
  cost_instr N m lk = Ok c ->
  ~ In F_TP_UNKWN (c_flags c) /\ ~ In F_LT_UNKWN (c_flags c).
Proof. exact @Proofs.Costing.compose_not_unknown. Qed.
Print Assumptions compose_not_unknown.

(* neither form: both unknown flags, one zero per port, zero latency and throughput, no micro-ops; never an error *)
Theorem unknown_zero : forall {T} (N : NumOps T) m lk,
  with_fallback (lk_suffix lk) (lk_direct lk) (lk_direct_s lk) = None ->
  regform lk = None ->
  exists c, cost_instr N m lk = Ok c /\
    In F_TP_UNKWN (c_flags c) /\ In F_LT_UNKWN (c_flags c) /\
    c_pp c = map (fun _ => n0 N) (m_ports m) /\ List.length (c_pp c) = List.length (m_ports m) /\
    (forall x, In x (c_pp c) -> x = n0 N) /\
    c_lat c = n0 N /\ c_lat_wo c = n0 N /\ c_tp c = n0 N /\ c_uops c = PList [].
Proof. exact @Proofs.Costing.unknown_zero. Qed.
Print Assumptions unknown_zero.

(* an (unknown, or any) line u does not change the numbers of any other line: the kernel is costed by a map.
   In the code the only thing that can break this is shared mutable state (the machine model's tables, C18). *)
Theorem unknown_frame : forall {T} (N : NumOps T) m k1 u k2,
  cost_kernel N m (k1 ++ u :: k2) = cost_kernel N m k1 ++ cost_line N m u :: cost_kernel N m k2 /\
  cost_kernel N m (k1 ++ k2) = cost_kernel N m k1 ++ cost_kernel N m k2.
Proof. exact @Proofs.Costing.unknown_frame. Qed.
Print Assumptions unknown_frame.

Theorem kernel_line_is_own_function : forall {T} (N : NumOps T) m k i,
  nth_error (cost_kernel N m k) i = option_map (cost_line N m) (nth_error k i).
Proof. exact @kernel_pointwise. Qed.
Print Assumptions kernel_line_is_own_function.

(* which table row: load = first returned row that names a register type matching the type of the register that
   replaced the memory operand, else the first returned row (the default row if no shape matched);
   store = first row returned for (shape, source type), dropped when only a base register is written back *)
Theorem row_choice_spec : forall {T} (m : mach (T:=T)) (lk : lookup (T:=T)),
  (match choose_load_row (lk_ld_rows lk) with
   | Err e => lk_ld_rows lk = [] /\ e = EIndex
   | Ok us =>
       (exists i r d, nth_error (lk_ld_rows lk) i = Some r /\ r_dst r = Some d /\ r_ok r = true /\ us = r_uops r /\
                      forall j y, (j < i)%nat -> nth_error (lk_ld_rows lk) j = Some y -> is_typed y = false)
       \/ ((forall y, In y (lk_ld_rows lk) -> is_typed y = false) /\ exists r rest, lk_ld_rows lk = r :: rest /\ us = r_uops r)
   end) /\
  (match store_uops m lk with
   | Err e => lk_st_rows lk = [] /\ e = EIndex
   | Ok us => exists r rest, lk_st_rows lk = r :: rest /\ us = if writeback_only (m_isa m) lk then [] else r
   end) /\
  (writeback_only (m_isa m) lk = true <->
   m_isa m = A64 /\ lk_dest_has_mem lk = false /\ forall b, In b (lk_srcdst_wb lk) -> b = true).
Proof.
  intros T m lk. split; [apply row_choice_load|]. split; [apply row_choice_store|apply writeback_spec].
Qed.
Print Assumptions row_choice_spec.

(* ------------------------------------------------------------------ non-vacuity *)
Definition exm : mach (T:=Q) := mkmach X86 ["0"; "1"; "2D"]%string [("gpr"%string, Some 4); ("xmm"%string, Some 6)] None None.
Definition exreg : entry (T:=Q) := mkentry (Some (1#2)) (Some 1) (UList [(1, ["0"; "1"]%string)]).
(* read-modify-write: `addq $1, (%rax)` with register form `add imd, gpr` *)
Definition exlk : lookup (T:=Q) :=
  mklookup true true true None None None (Some (exreg, Ok "gpr"%string))
           [mkldrow None false [(1, ["2D"]%string)]; mkldrow (Some "xmm"%string) false [(3, ["2D"]%string)];
            mkldrow (Some "gpr"%string) true [(1, ["0"; "2D"]%string)]]
           [[(1, ["1"]%string)]] false [false].

Example ex_compose :
  match cost_instr QNum exm exlk with
  | Ok c => andb (Qeq_bool (c_lat c) 5) (andb (Qeq_bool (c_lat_wo c) 1) (andb (Qeq_bool (c_tp c) 1)
            (andb (forallb (fun p => Qeq_bool (fst p) (snd p)) (combine (c_pp c) [1; 3#2; 1#2]))
                  (match c_uops c with PList [(_, ["0"; "1"]); (_, ["0"; "2D"]); (_, ["1"])]%string => true | _ => false end))))
  | Err _ => false
  end = true.
Proof. vm_compute. reflexivity. Qed.

Example ex_compose_hyps :
  with_fallback (lk_suffix exlk) (lk_direct exlk) (lk_direct_s exlk) = None /\
  regform exlk = Some (exreg, Ok "gpr"%string) /\
  (exists c, compose QNum exm exlk exreg (Ok "gpr"%string) = Ok c) /\
  (exists t, avg_pressure_list QNum (m_ports exm) ([(1, ["0"; "1"]%string)] ++ ld_uops exlk ++ st_uops exm exlk) = Ok t).
Proof. repeat split; try reflexivity; eexists; vm_compute; reflexivity. Qed.

(* neither form *)
Definition exunk : lookup (T:=Q) := mklookup true false false None None None None [] [] false [].
Example ex_unknown :
  with_fallback (lk_suffix exunk) (lk_direct exunk) (lk_direct_s exunk) = None /\ regform exunk = None /\
  cost_instr QNum exm exunk = Ok (mkcost (PList []) [0; 0; 0] 0 0 0 [F_HAS_LD; F_TP_UNKWN; F_LT_UNKWN]).
Proof. repeat split. Qed.

(* AArch64 write-back only: the store micro-ops and HAS_ST are dropped; a true store keeps them *)
Definition exa : mach (T:=Q) := mkmach A64 ["0"; "1"]%string [("x"%string, Some 4)] None None.
Definition exwb (dest_mem : bool) : lookup (T:=Q) :=
  mklookup false true false None None (Some (mkentry (Some 1) (Some 1) (UList [(1, ["0"]%string)]), Ok "x"%string)) None
           [] [[(1, ["1"]%string)]] dest_mem (if dest_mem then [] else [true]).
Example ex_writeback :
  match cost_instr QNum exa (exwb false), cost_instr QNum exa (exwb true) with
  | Ok a, Ok b => andb (match c_uops a with PList [_] => true | _ => false end)
                       (andb (match c_uops b with PList [_; _] => true | _ => false end)
                             (andb (negb (existsb (flag_eqb F_HAS_ST) (c_flags a))) (existsb (flag_eqb F_HAS_ST) (c_flags b))))
  | _, _ => false
  end = true.
Proof. vm_compute. reflexivity. Qed.

(* the binary64 instance evaluates the same text *)
Example ex_float_unknown :
  match cost_instr FNum (mkmach X86 ["0"; "1"]%string [] None None) (mklookup false false false None None None None [] [] false []) with
  | Ok c => Nat.eqb (List.length (c_pp c)) 2
  | Err _ => false
  end = true.
Proof. vm_compute. reflexivity. Qed.
