(* Property C15 -- every shipped model entry is well-formed and can be costed.
   General part (unbounded: any port list, any assignment).  The per-file finite parts are in
   PropsGen/C15_<file>.v and are re-checked against the data regenerated from /repo on every run. *)
From Coq Require Import String Ascii List Bool Arith ZArith QArith.
From OV Require Import Model.ModelData Proofs.WellFormed.
Import ListNotations.
Open Scope string_scope.

(* A well-formed assignment can never raise KeyError / ValueError / TypeError in
   MachineModel.average_port_pressure, and yields one number per port. *)
Theorem wf_costs : forall ports a, wf_assignment ports a ->
  exists v, avg_pressure ports a = Ok v /\ length v = length ports.
Proof. exact wf_costs_lemma. Qed.
Print Assumptions wf_costs.

(* ... and the numbers are non-negative. *)
Theorem wf_costs_nonneg : forall ports a v, wf_assignment ports a -> avg_pressure ports a = Ok v ->
  Forall (fun y => 0 <= y) v.
Proof. exact wf_costs_nonneg_lemma. Qed.
Print Assumptions wf_costs_nonneg.

(* Every alternative of a well-formed assignment can be costed (the balancer costs them all). *)
Theorem wf_alternatives_cost : forall ports a us, wf_assignment ports a -> In us (alternatives a) ->
  exists v, avg_pressure ports (AUops us) = Ok v /\ length v = length ports.
Proof. exact wf_alternatives_cost_lemma. Qed.
Print Assumptions wf_alternatives_cost.

(* The balancer's `indices = [port_list.index(p) for p in list(uop[1])]; itemgetter over indices`
   succeeds for every micro-op of every alternative: no ValueError, at least one index, all in range. *)
Theorem wf_uop_positions : forall ports a us u, wf_assignment ports a -> In us (alternatives a) -> In u us ->
  exists l, uop_positions ports u = Ok l /\ l <> [] /\ Forall (fun i => (i < length ports)%nat) l.
Proof. exact wf_uop_positions_lemma. Qed.
Print Assumptions wf_uop_positions.

(* The boolean checker evaluated on the shipped data decides exactly the specification. *)
Theorem wf_assignmentb_correct : forall ports a, wf_assignmentb ports a = true <-> wf_assignment ports a.
Proof. exact wf_assignmentb_spec. Qed.
Print Assumptions wf_assignmentb_correct.

(* A sweep `forallb entry_wfb` over a file's entries transfers the general theorem to each entry. *)
Theorem wf_file_costable : forall ports table entries,
  forallb (entry_wfb ports table) entries = true ->
  forall e, In e entries ->
    exists v, avg_pressure ports (assignment_of table e) = Ok v /\ length v = length ports.
Proof. exact all_wf_costable. Qed.
Print Assumptions wf_file_costable.

(* ------------------------------------------------------------------ non-vacuity / sanity *)
Definition ex_ports := ["0"; "0DV"; "1"; "2"; "2D"; "3"; "3D"; "4"; "5"].
Definition ex_a := AUops [U (NQ 1) (UStr "015"); U (NQ (3 # 2)) (UList ["2D"; "3D"]); U (NQ 14) (UList ["0DV"])].
Definition ex_alt := AAlts [[U (NQ 1) (UStr "01")]; [U (NQ 1) (UStr "5")]].

Example ex_wf : wf_assignment ex_ports ex_a.
Proof. apply wf_assignmentb_spec. vm_compute. reflexivity. Qed.
Example ex_alt_wf : wf_assignment ex_ports ex_alt.
Proof. apply wf_assignmentb_spec. vm_compute. reflexivity. Qed.
Example ex_unbound_wf : wf_assignment ex_ports (AUops []).
Proof. apply wf_assignmentb_spec. vm_compute. reflexivity. Qed.
Example ex_cost :
  avg_pressure ex_ports ex_a = Ok [1 # 3; 14; 1 # 3; 0; 3 # 4; 0; 3 # 4; 0; 1 # 3].
Proof. vm_compute. reflexivity. Qed.

(* the errors are real values of the model: the five shapes found in the shipped files *)
Example ex_unknown_port :   (* snb: [[1,'0'],[14,['DIV']]] on a port list without DIV *)
  avg_pressure ["0"; "1"; "5"] (AUops [U (NQ 1) (UStr "0"); U (NQ 14) (UList ["DIV"])]) = Err (EKey "DIV").
Proof. vm_compute. reflexivity. Qed.
Example ex_joined_ports :   (* v2 / zen4: ['67'] names one port called "67" *)
  avg_pressure ["6"; "7"] (AUops [U (NQ 1) (UList ["67"])]) = Err (EKey "67").
Proof. vm_compute. reflexivity. Qed.
Example ex_wrong_nesting :  (* zen2 VMOVSS: [[1,'8','9','10'],[1,['10D']]] *)
  avg_pressure ["8"; "9"; "10"; "10D"] (AUops [UBad "[1, '8', '9', '10']"; U (NQ 1) (UList ["10D"])])
  = Err (EShape "[1, '8', '9', '10']").
Proof. vm_compute. reflexivity. Qed.
Example ex_missing : avg_pressure ex_ports ANone = Err (EShape "NoneType is not iterable").
Proof. vm_compute. reflexivity. Qed.
Example ex_empty_ports_not_wf : wf_assignmentb ex_ports (AUops [U (NQ 1) (UList [])]) = false.
Proof. vm_compute. reflexivity. Qed.
Example ex_empty_ports_balancer_raises :
  uop_positions ex_ports (U (NQ 1) (UList [])) = Err (EShape "itemgetter expected 1 argument, got 0").
Proof. vm_compute. reflexivity. Qed.
Example ex_negative_not_wf : wf_assignmentb ex_ports (AUops [U (NQ (-1 # 2)) (UStr "0")]) = false.
Proof. vm_compute. reflexivity. Qed.
Example ex_counts :
  counts [AUops []; ANone]
         [E "A" "rr" (FNum 1) FNone 0; E "B" "r" FNone FNone 1; E "C" "" (FNum 0) (FNum 2) 0] = (1, 2, 1)%nat.
Proof. vm_compute. reflexivity. Qed.
