(* Property C03 -- the register dependency graph is exactly the read-after-write relation.
   Theorems only; proofs in Proofs/DepsScan.v.  `dep` (the register alias test), the numeric instance and the
   kernel are arbitrary.  What an instruction reads/writes (is_read / is_written of Model/Deps.v) is computed from
   the semantic operand sets exactly as the implementation does; those sets are produced by the implementation's
   role assignment, which is compared case by case and checked against architectural roles by the harness. *)
From Coq Require Import List Bool String.
From OV Require Import Model.Num Model.Pressure Model.Deps Model.Roles Proofs.DepsScan Proofs.Roles Proofs.DepsGraph.
Import ListNotations.

(* an edge A -> B that is not a store-to-load edge exists iff B (one of the instructions after A) reads a register
   or -- only with flag dependencies requested -- a flag that A writes, and no instruction between them writes it *)
Theorem C03_raw_iff_edge : forall (T : Type) (dep : regop -> regop -> bool) fd (A : line (T:=T)) rest n,
  (exists f, In (n, f) (find_depending dep fd A rest) /\ f <> FStoreLoad) <->
  (exists d B, In d (dsts A) /\ is_regflag fd d /\ reached dep d rest B /\ l_no B = n /\ is_read dep d B = true).
Proof. exact @raw_iff_edge. Qed.
Print Assumptions C03_raw_iff_edge.

(* edges always point forward in program order *)
Theorem C03_edges_forward : forall (T : Type) (dep : regop -> regop -> bool) fd (A : line (T:=T)) rest n f,
  In (n, f) (find_depending dep fd A rest) -> exists B, In B rest /\ l_no B = n.
Proof. exact @find_depending_forward. Qed.
Print Assumptions C03_edges_forward.

(* without --consider-flag-deps a flag never produces an edge; operands that are neither register, flag nor memory never do *)
Theorem C03_no_flag_edges_without_f : forall (T : Type) (dep : regop -> regop -> bool) fl (rest : list (line (T:=T))) s,
  scan dep false (OFlag fl) rest s = [].
Proof. intros T dep fl rest s. apply (scan_flag_off (T:=T)). Qed.
Print Assumptions C03_no_flag_edges_without_f.

(* edge weight: producer latency without its load stage; write-back edges carry the model's index latency;
   store-to-load edges add the forwarding latency (definitional, stated for the record) *)
Theorem C03_edge_weight : forall (T : Type) (N : NumOps T) fwd pidx (l : line (T:=T)),
  edge_weight N fwd pidx l FPlain = l_lat_wo l /\ edge_weight N fwd pidx l FPIndexed = pidx /\
  edge_weight N fwd pidx l FStoreLoad = nadd N (l_lat_wo l) fwd.
Proof. intros. repeat split. Qed.

(* ---- kernel level: the dependency graph create_DG builds ---- *)
(* an edge of the graph is the load stage of an instruction or a report of the scan of one instruction A = k[i] over the
   instructions after it, weighted as C03_edge_weight says; networkx keeps ONE edge per pair (the last report wins) *)
Theorem C03_graph_edges_are_scan_reports : forall (T : Type) (N : NumOps T) dep fwd pidx fd (k : list (line (T:=T))) u t,
  (exists w, In (u, t, w) (create_dg N dep fwd pidx fd k)) <->
  (exists pre A post w, k = pre ++ A :: post /\
      ((u = (l_no A, true) /\ t = l_no A /\ l_loadnode A = true /\ w = nsub N (l_lat A) (l_lat_wo A)) \/
       (u = (l_no A, false) /\ exists f, In (t, f) (find_depending dep fd A post) /\ w = edge_weight N fwd pidx A f))).
Proof.
  intros T N dep fwd pidx fd k u t. rewrite (create_dg_edges N dep fwd pidx fd k u t). split.
  - intros (w & H). apply (emit_spec N dep fwd pidx fd) in H. destruct H as (pre & A & post & E & HA). exists pre, A, post, w. auto.
  - intros (pre & A & post & w & E & HA). exists w. apply (emit_spec N dep fwd pidx fd). exists pre, A, post. auto.
Qed.
Print Assumptions C03_graph_edges_are_scan_reports.

Theorem C03_graph_one_edge_per_pair : forall (T : Type) (N : NumOps T) dep fwd pidx fd (k : list (line (T:=T))) u t w1 w2,
  In (u, t, w1) (create_dg N dep fwd pidx fd k) -> In (u, t, w2) (create_dg N dep fwd pidx fd k) -> w1 = w2.
Proof. intros T N dep fwd pidx fd k. exact (create_dg_one_edge_per_pair N dep fwd pidx fd k). Qed.
Print Assumptions C03_graph_one_edge_per_pair.

(* ---- roles (Model/Roles.v) ---- *)
(* a dependency-breaking zero idiom written with equal register operands reads nothing *)
Theorem C03_zero_idiom_reads_nothing : forall (T : Type) (dep : regop -> regop -> bool) x86 e ops (l : line (T:=T)),
  e_idiom e = true -> all_equal_keys ops = true ->
  no_mem (map fst ops) -> no_mem (map fst (e_hidden e)) ->
  l_sem l = Some (assign_roles x86 (Some e) ops) ->
  forall a, is_read dep a l = false.
Proof. intros T dep. exact (@zero_idiom_reads_nothing T dep). Qed.
Print Assumptions C03_zero_idiom_reads_nothing.

(* forms without an ISA entry: x86 -- the last operand is the only destination *)
Theorem C03_default_roles_x86 : forall ops : list popnd,
  2 <= List.length ops ->
  assign_roles true None ops = (removelast (map fst ops), [last (map fst ops) OOther], []).
Proof. exact default_roles_x86. Qed.
Print Assumptions C03_default_roles_x86.

(* read-modify-write operands of an ISA entry are both read and written *)
Theorem C03_rmw_in_srcdst : forall x86 e ops i o k,
  andb (e_idiom e) (all_equal_keys ops) = false ->
  nth_error ops i = Some (o, k) -> nth_error (e_roles e) i = Some (true, true) ->
  let '(_, _, sd) := assign_roles x86 (Some e) ops in In (if x86 then o else mark_base o) sd.
Proof. exact rmw_in_srcdst. Qed.
Print Assumptions C03_rmw_in_srcdst.

(* AArch64 pre/post-index: the base register of the memory operand is registered as read and written (write-back) *)
Theorem C03_writeback_base_in_srcdst : forall e ops m b,
  let '(s0, d0, sd0) := match e with Some en => apply_found en ops | None => default_roles false ops end in
  (In (OMem m) s0 \/ In (OMem m) d0 \/ In (OMem m) sd0) ->
  orb (m_pre m) (m_post m) = true -> m_base m = Some b ->
  let '(_, _, sd) := assign_roles false e ops in In (OReg (mkR (r_name b) (r_prefix b) true)) sd.
Proof. exact writeback_base_in_srcdst. Qed.
Print Assumptions C03_writeback_base_in_srcdst.

(* non-vacuity: a two-line kernel in which the second line reads what the first writes *)
Example C03_nonvacuous :
  let dep := fun a b => String.eqb (r_name a) (r_name b) in
  let A := mkL (T:=nat) 1 (Some ([], [OReg (mkR "rax" "" false)], [])) 1 1 false [] [] in
  let B := mkL (T:=nat) 2 (Some ([OReg (mkR "rax" "" false)], [OReg (mkR "rbx" "" false)], [])) 1 1 false [] [] in
  find_depending dep false A [B] = [(2, FPlain)].
Proof. vm_compute. reflexivity. Qed.
