(* Properties C16 / C14 / C05, upgrade from exact numbers to EVERY numeric instance (binary64 included) -- possible since
   check_for_loopcarried_dep sums the latencies of a loop-carried dependency over the SORTED lat_path (repair "sum lat_path after
   lat_path.sort()"): the reported latency is a function of the reported member list, so it does not depend on which rotation of a
   cycle is found / delivered first (worker count, scheduling: C16) nor on the root a cycle is entered at (C14, C05).
   Theorems only; proofs in Proofs/LcdFloat.v.  No law about the numeric operations is assumed anywhere in this file.
   The restatement for the code REGENERATED from kernel_dg.py is PropsGen/C05gen.v (C05gen_latency_is_sum_of_dependencies).
   Still not a theorem for floats: rotating the KERNEL (C14) renumbers the lines, hence permutes the sorted member list cyclically
   and with it the order of the additions; and Model/Parallel.v (C16's schedule model) stays over Z. *)
From Coq Require Import ZArith List Bool String Permutation.
From OV Require Import Model.Num Model.Deps Model.PyLcd Model.LcdPost Proofs.LcdPost Proofs.LcdFloat.
Import ListNotations.
Local Open Scope nat_scope.

(* the latency of an entry is the left-to-right sum (from 0) of its own sorted member list *)
Theorem C16f_entry_latency_is_sum_of_members : forall (T : Type) (N : NumOps T) off p,
  fst (entry_of N off p) = sum_pairs N (snd (entry_of N off p)).
Proof. intros. apply entry_of_sum. Qed.
Print Assumptions C16f_entry_latency_is_sum_of_members.

(* paths with the same sorted member list have the same entry: it is irrelevant which of them the de-duplication keeps *)
Theorem C16f_representative_irrelevant : forall (T : Type) (N : NumOps T) off p q,
  snd (entry_of N off p) = snd (entry_of N off q) -> entry_of N off p = entry_of N off q.
Proof. intros T N. exact (entry_of_same_members N). Qed.
Print Assumptions C16f_representative_irrelevant.

(* the canonical (sorted) form of a (line, latency) list that names no line twice does not depend on the order of the list *)
Theorem C16f_sorted_members_order_free : forall (T : Type) (N : NumOps T) (a b : list (nat * T)),
  Permutation a b -> NoDup (map fst a) -> sort_pairs N a = sort_pairs N b.
Proof. intros T N. exact (sort_pairs_perm_eq N). Qed.
Print Assumptions C16f_sorted_members_order_free.

(* hence: paths through the same lines (after mapping the second iteration back) with the same edge latencies, no line twice,
   have the same entry, LATENCY INCLUDED, bit for bit ... *)
Theorem C16f_entry_of_permuted_path : forall (T : Type) (N : NumOps T) off p q,
  Permutation (mapped off p) (mapped off q) -> NoDup (map fst (mapped off p)) -> entry_of N off p = entry_of N off q.
Proof. intros T N. exact (entry_of_perm N). Qed.
Print Assumptions C16f_entry_of_permuted_path.

(* ... in particular ALL ROTATIONS OF A CYCLE (the path found from its i-th node lists the same pairs starting i places later) *)
Theorem C16f_rotations_report_the_same_latency : forall (T : Type) (N : NumOps T) off p q i,
  mapped off q = skipn i (mapped off p) ++ firstn i (mapped off p) -> NoDup (map fst (mapped off p)) ->
  entry_of N off q = entry_of N off p.
Proof. intros T N. exact (entry_of_rotation N). Qed.
Print Assumptions C16f_rotations_report_the_same_latency.

(* every entry the model reports for a kernel carries the sum of its own member list *)
Theorem C16f_lcd_entries_latency_is_sum_of_members : forall (T : Type) (N : NumOps T) dep fwd pidx fd (K : list (line (T:=T))) e,
  In e (lcd_entries N dep fwd pidx fd K) -> fst e = sum_pairs N (snd e).
Proof. intros T N. exact (lcd_entries_sum N). Qed.
Print Assumptions C16f_lcd_entries_latency_is_sum_of_members.

(* ORDER INDEPENDENCE OF THE DE-DUPLICATION for every numeric instance: the same entries are reported for every order in which the
   paths' entries arrive.  Side conditions on the delivered entries only: member lists equal themselves (no NaN latency) and member
   lists that compare equal with == are identical (no 0.0 against -0.0) *)
Theorem C16f_dedup_order_independent : forall (T : Type) (N : NumOps T) (es es' : list (entry (T:=T))),
  Permutation es es' ->
  (forall e, In e es -> pairs_eqb N (snd e) (snd e) = true) ->
  (forall a b, In a es -> In b es -> pairs_eqb N (snd a) (snd b) = true -> snd a = snd b) ->
  (forall e, In e es -> fst e = sum_pairs N (snd e)) ->
  forall e, In e (dedup N [] es) <-> In e (dedup N [] es').
Proof. intros T N. exact (dedup_order_independent N). Qed.
Print Assumptions C16f_dedup_order_independent.

(* the functional reading of the translated post-processing (Model/LcdPost.v; PropsGen/C05gen.v proves the regenerated code equal to
   it): every value of the returned dictionary has latency = 0.0 + lat_1 + ... + lat_n over its own dependencies list, for any paths *)
Theorem C16f_reported_latency_is_sum_of_reported_dependencies : forall (T : Type) (N : NumOps T) (I : Type) (get : I -> Z) heap
    lat off all_paths d key root deps latency,
  post_model N get lat heap off all_paths [] = POk d -> In (key, (root, deps, latency)) d ->
  latency = fold_left (fun a rw => nadd N a (snd rw)) deps (n0 N).
Proof. intros T N I get heap. exact (post_model_latency_is_sum_of_dependencies N get heap). Qed.
Print Assumptions C16f_reported_latency_is_sum_of_reported_dependencies.

(* ------------------------------------------------------------------ non-vacuity, binary64: latencies 0.1, 0.3, 0.7 *)
Definition w1 : PrimFloat.float := f_lit 1 10.
Definition w3 : PrimFloat.float := f_lit 3 10.
Definition w7 : PrimFloat.float := f_lit 7 10.
(* one cycle 1 -> 2 -> 3 -> 1 of a kernel (offset 1000), found from each of its three nodes *)
Definition rot0 : list (nat * PrimFloat.float) := [(1, w1); (2, w3); (3, w7)].
Definition rot1 : list (nat * PrimFloat.float) := [(2, w3); (3, w7); (1001, w1)].
Definition rot2 : list (nat * PrimFloat.float) := [(3, w7); (1001, w1); (1002, w3)].
(* what the code computed before the repair: the sum in PATH order *)
Definition path_order_sum (p : list (nat * PrimFloat.float)) : PrimFloat.float :=
  fold_left (fun a sw => nadd FNum a (snd sw)) p (n0 FNum).

(* in path order the rotations disagree in the last bit: (0.1 + 0.3) + 0.7 = 1.1 but (0.7 + 0.1) + 0.3 = 1.0999999999999999 ... *)
Example C16f_path_order_depends_on_rotation :
  f_biteq (path_order_sum rot0) (f_lit 11 10) = true /\ f_biteq (path_order_sum rot1) (f_lit 11 10) = true /\
  PrimFloat.ltb (path_order_sum rot2) (f_lit 11 10) = true /\ PrimFloat.eqb (path_order_sum rot0) (path_order_sum rot2) = false.
Proof. vm_compute. repeat split; reflexivity. Qed.

(* ... the entries (sum over the sorted member list) are identical: hypotheses of C16f_rotations_report_the_same_latency hold *)
Example C16f_rotations_nonvacuous :
  mapped 1000 rot1 = skipn 1 (mapped 1000 rot0) ++ firstn 1 (mapped 1000 rot0) /\
  mapped 1000 rot2 = skipn 2 (mapped 1000 rot0) ++ firstn 2 (mapped 1000 rot0) /\
  NoDup (map fst (mapped 1000 rot0)) /\
  entry_of FNum 1000 rot1 = entry_of FNum 1000 rot0 /\ entry_of FNum 1000 rot2 = entry_of FNum 1000 rot0 /\
  f_biteq (fst (entry_of FNum 1000 rot0)) (f_lit 11 10) = true.
Proof.
  assert (ND : NoDup (map fst (mapped 1000 rot0))).
  { vm_compute. repeat constructor; cbn; intuition discriminate. }
  assert (E1 : mapped 1000 rot1 = skipn 1 (mapped 1000 rot0) ++ firstn 1 (mapped 1000 rot0)) by (vm_compute; reflexivity).
  assert (E2 : mapped 1000 rot2 = skipn 2 (mapped 1000 rot0) ++ firstn 2 (mapped 1000 rot0)) by (vm_compute; reflexivity).
  split; [exact E1|]. split; [exact E2|]. split; [exact ND|].
  split; [exact (C16f_rotations_report_the_same_latency _ FNum 1000 rot0 rot1 1 E1 ND)|].
  split; [exact (C16f_rotations_report_the_same_latency _ FNum 1000 rot0 rot2 2 E2 ND)|]. vm_compute. reflexivity.
Qed.

(* the de-duplication in two arrival orders (as two schedules of the workers deliver the paths): the same single entry for the cycle,
   plus the entry of a second cycle *)
Definition other : list (nat * PrimFloat.float) := [(5, w7)].
Definition arrival_a : list (entry (T:=PrimFloat.float)) := map (entry_of FNum 1000) [rot0; rot1; other; rot2].
Definition arrival_b : list (entry (T:=PrimFloat.float)) := map (entry_of FNum 1000) [rot2; other; rot1; rot0].
Example C16f_dedup_nonvacuous :
  Permutation arrival_a arrival_b /\
  (forall e, In e arrival_a -> pairs_eqb FNum (snd e) (snd e) = true) /\
  (forall a b, In a arrival_a -> In b arrival_a -> pairs_eqb FNum (snd a) (snd b) = true -> snd a = snd b) /\
  (forall e, In e arrival_a -> fst e = sum_pairs FNum (snd e)) /\
  dedup FNum [] arrival_a = [entry_of FNum 1000 rot0; entry_of FNum 1000 other] /\
  dedup FNum [] arrival_b = [entry_of FNum 1000 rot0; entry_of FNum 1000 other].
Proof.
  assert (Ea : arrival_a = [entry_of FNum 1000 rot0; entry_of FNum 1000 rot0; entry_of FNum 1000 other; entry_of FNum 1000 rot0])
    by (vm_compute; reflexivity).
  assert (Eb : arrival_b = [entry_of FNum 1000 rot0; entry_of FNum 1000 other; entry_of FNum 1000 rot0; entry_of FNum 1000 rot0])
    by (vm_compute; reflexivity).
  rewrite Ea, Eb. split.
  - apply perm_skip. apply perm_swap.
  - split; [intros e [<-|[<-|[<-|[<-|[]]]]]; vm_compute; reflexivity|].
    split; [intros a b [<-|[<-|[<-|[<-|[]]]]] [<-|[<-|[<-|[<-|[]]]]] H; try reflexivity; vm_compute in H; discriminate|].
    split; [intros e [<-|[<-|[<-|[<-|[]]]]]; reflexivity|].
    split; vm_compute; reflexivity.
Qed.
