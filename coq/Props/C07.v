(* C07 -- instruction-form lookup is sound and complete for operand kinds.
   Model: Model/Match.v (matcher, transcribed), specification: Model/MatchSpec.v (kind / admits). *)
From Coq Require Import String Ascii List Bool Arith ZArith.
From OV Require Import Model.PyString Model.Match Model.MatchSpec Proofs.Match Proofs.MatchSpec.
Import ListNotations.
Open Scope string_scope.

Definition all_wf_pats (a : isa) (e : entry) : Prop := Forall (fun p => wf_pattern a p = true) (e_pats e).
Definition all_wf_ops (a : isa) (ops : list operand) : Prop := Forall (fun o => wf_operand a o = true) ops.
Definition admits_all (a : isa) (e : entry) (ops : list operand) : Prop :=
  Forall2 (fun p o => admits a p (kind a o) = true) (e_pats e) ops.

(* ---- operand level.  FULL statement `check_operand a p o = Some (admits a p (kind a o))` on the documented
   vocabulary is FALSE of the faithful model (check_iff_admits_refuted: x86 `gpr` pattern vs %k1, AArch64
   `z` shape `d` pattern vs `z0`); the strongest true variant excludes exactly these two families. *)
Theorem check_iff_admits_partial : forall a p o,
  wf_pattern a p = true -> wf_operand a o = true -> lenient a p o = false ->
  check_operand a p o = Some (admits a p (kind a o)).
Proof. exact Proofs.MatchSpec.check_iff_admits_partial. Qed.
Print Assumptions check_iff_admits_partial.

Theorem check_iff_admits_refuted :
  (exists p o, wf_pattern X86 p = true /\ wf_operand X86 o = true /\
               check_operand X86 p o = Some true /\ admits X86 p (kind X86 o) = false)
  /\ (exists p o, wf_pattern A64 p = true /\ wf_operand A64 o = true /\
                  check_operand A64 p o = Some true /\ admits A64 p (kind A64 o) = false).
Proof. exact Proofs.MatchSpec.check_iff_admits_refuted. Qed.
Print Assumptions check_iff_admits_refuted.

(* non-vacuity: well-formed, non-lenient pairs exist on which the matcher says yes resp. no *)
Example check_iff_admits_nonvacuous :
  let p := PMem (MP (MStr "gpr") (FStr "imd") (MStr "*") (SStr "*") (GBool false) (GBool false)) in
  let o := OMem (M (Some (R (Some "rax") None None None)) (OImm (IVInt 8)) (Some (R (Some "rbx") None None None)) 8 false PostFalse) in
  wf_pattern X86 p = true /\ wf_operand X86 o = true /\ lenient X86 p o = false /\ check_operand X86 p o = Some true
  /\ check_operand X86 (PImm (Some "int")) o = Some false.
Proof. repeat split; reflexivity. Qed.

(* ---- lookup_sound: a returned entry has the mnemonic (case-insensitively, or after the documented
   fall-back), the same operand count, passes the matcher operand-wise, and -- on the documented
   vocabulary -- admits every operand's kind (up to the two lenient families) *)
Theorem lookup_sound : forall a tbl mn ops j,
  lookup_with_suffix a tbl mn ops = Found j ->
  exists e, nth_error tbl j = Some e
    /\ name_agrees a mn (e_name e)
    /\ length ops = length (e_pats e)
    /\ Forall2 (fun p o => check_operand a p o = Some true) (e_pats e) ops
    /\ (all_wf_pats a e -> all_wf_ops a ops ->
        Forall2 (fun p o => admits a p (kind a o) = true \/ lenient a p o = true) (e_pats e) ops).
Proof.
  intros a tbl mn ops j H. apply lookup_with_suffix_found in H.
  destruct H as (e & Hn & Hna & Hm & _). exists e.
  apply match_operands_true_iff in Hm. destruct Hm as [Hlen Hf].
  repeat split; auto. intros. apply forall2_check_admits; auto.
Qed.
Print Assumptions lookup_sound.

(* ---- lookup_first: no earlier entry stored under the returned entry's name matches *)
Theorem lookup_first : forall a tbl mn ops j e,
  lookup_with_suffix a tbl mn ops = Found j -> nth_error tbl j = Some e ->
  forall k e', k < j -> nth_error tbl k = Some e' -> e_name e' = e_name e ->
               match_operands a (e_pats e') ops = Some false.
Proof.
  intros a tbl mn ops j e H Hn k e' Hlt Hk Hname. apply lookup_with_suffix_found in H.
  destruct H as (e0 & Hn0 & _ & _ & Hf). rewrite Hn in Hn0. inversion Hn0; subst e0.
  exact (Hf k e' Hlt Hk Hname).
Qed.
Print Assumptions lookup_first.

(* ---- lookup_complete: if some entry under the mnemonic's key or its fall-back key matches, the lookup
   returns an entry -- never "unknown", never an exception -- for operands as the parsers deliver them *)
Theorem lookup_complete : forall a tbl mn ops,
  all_wf_ops a ops -> mn <> "" ->
  (exists e, In e tbl /\ name_agrees a mn (e_name e) /\ match_operands a (e_pats e) ops = Some true) ->
  exists j, lookup_with_suffix a tbl mn ops = Found j.
Proof.
  intros a tbl mn ops Hw Hne Hex. apply lookup_with_suffix_complete; auto.
  intros e _. apply match_operands_total. intros p o Hin. apply check_total.
  unfold all_wf_ops in Hw. rewrite Forall_forall in Hw. auto.
Qed.
Print Assumptions lookup_complete.

(* ---- own_pattern_matches: an instruction whose operands are exactly of the kinds an entry declares is
   never reported as unknown *)
Theorem own_pattern_matches : forall a tbl mn ops e,
  In e tbl -> name_agrees a mn (e_name e) -> mn <> "" ->
  all_wf_pats a e -> all_wf_ops a ops -> admits_all a e ops ->
  exists j e', lookup_with_suffix a tbl mn ops = Found j /\ nth_error tbl j = Some e'
               /\ match_operands a (e_pats e') ops = Some true.
Proof.
  intros a tbl mn ops e Hin Hna Hne Hwp Hwo Had.
  destruct (lookup_complete a tbl mn ops Hwo Hne) as (j & Hj).
  - exists e. repeat split; auto. apply match_operands_true_iff. split.
    + symmetry. eapply Forall2_length'. exact Had.
    + apply forall2_admits_check; auto.
  - exists j. pose proof (lookup_with_suffix_found _ _ _ _ _ Hj) as (e' & Hn & _ & Hm & _). eauto.
Qed.
Print Assumptions own_pattern_matches.

(* ---- count_mismatch_never: an entry is never applied to an instruction with a different operand count *)
Theorem count_mismatch_never : forall a tbl mn ops j e,
  lookup_with_suffix a tbl mn ops = Found j -> nth_error tbl j = Some e -> length ops = length (e_pats e).
Proof.
  intros a tbl mn ops j e H Hn. destruct (lookup_sound _ _ _ _ _ H) as (e0 & Hn0 & _ & Hl & _).
  rewrite Hn in Hn0. inversion Hn0; subst. exact Hl.
Qed.
Print Assumptions count_mismatch_never.

Theorem count_mismatch_rejected : forall a pats ops,
  length ops <> length pats -> match_operands a pats ops = Some false.
Proof. exact match_operands_count. Qed.
Print Assumptions count_mismatch_rejected.

(* ---- non-vacuity: a table with a shadowing wildcard entry, a duplicate and a suffix fall-back *)
Definition demo : list entry := [
  E "VADDPD" [PReg (R (Some "xmm") None None None); PReg (R (Some "xmm") None None None)];
  E "ADD" [PImm (Some "int"); PReg (R (Some "gpr") None None None)];
  E "ADD" [PReg (R (Some "*") None None None); PReg (R (Some "gpr") None None None)];
  E "ADD" [PReg (R (Some "gpr") None None None); PReg (R (Some "gpr") None None None)]].
Definition rax := OReg (R (Some "rax") None None None).
Definition imm1 := OImmediate None (IVInt 1) false.

Example demo_lookups :
  lookup_with_suffix X86 demo "addq" [imm1; rax] = Found 1            (* AT&T suffix dropped *)
  /\ lookup_with_suffix X86 demo "add" [rax; rax] = Found 2            (* first match: the wildcard entry shadows #3 *)
  /\ lookup_with_suffix X86 demo "add" [rax] = NotFound               (* count *)
  /\ lookup_with_suffix X86 demo "add" [OIdentifier; rax] = NotFound  (* a label is not an immediate *)
  /\ lookup_with_suffix X86 demo "ADDQ" [imm1; rax] = NotFound        (* only lower-case suffixes are dropped *)
  /\ lookup_with_suffix X86 demo "vaddpd" [rax; rax] = NotFound       (* gpr is not xmm *)
  /\ lookup_with_suffix A64 [E "B" [PIdent]] "b.ne" [OIdentifier] = Found 0.
Proof. repeat split; reflexivity. Qed.

Example own_pattern_hypotheses_satisfiable :
  In (nth 1 demo (E "" [])) demo /\ name_agrees X86 "addq" "ADD" /\ all_wf_pats X86 (nth 1 demo (E "" []))
  /\ all_wf_ops X86 [imm1; rax] /\ admits_all X86 (nth 1 demo (E "" [])) [imm1; rax].
Proof.
  repeat split.
  - simpl. auto.
  - right. exists "add". split; reflexivity.
  - repeat constructor.
  - repeat constructor.
  - repeat constructor.
Qed.
